#!/bin/bash
# Like run_seeded.sh, but in a private lane (copy of /repo's HEAD and of /verif's working tree under $LANE, default
# /tmp/seedlane) so that /repo and /verif stay free for editing meanwhile. The lane's harness sources are refreshed from
# /verif on every call (build output is kept in the lane). Usage: lane_seeded.sh <patch.diff> <ID> [ID...]
# Prints per check: CAUGHT <sig> / MISSED / ERROR.  SEED_TIER=thorough for the other tier.
set -u
PATCH="$(readlink -f "$1")"; shift
LANE="${LANE:-/tmp/seedlane}"
mkdir -p "$LANE"
if [ ! -d "$LANE/repo/.git" ]; then
  git clone -q /repo "$LANE/repo" || exit 2
  [ -d /repo/target ] && rsync -a /repo/target/ "$LANE/repo/target/"
  rsync -a --exclude .git --exclude fuzz/target --exclude fuzz/corpus /verif/ "$LANE/verif/"
fi
git -C "$LANE/repo" checkout -q -- . && git -C "$LANE/repo" pull -q 2>/dev/null
[ -n "${LANE_NOSYNC:-}" ] || rsync -a --delete --exclude .git --exclude target --exclude target-bg --exclude fuzz/target --exclude fuzz/corpus --exclude 'replays/*/fail-*' --exclude mutsweep /verif/ "$LANE/verif/"
sed -i "s|path = \"/repo\"|path = \"$LANE/repo\"|" "$LANE/verif/harness/Cargo.toml" "$LANE/verif/fuzz/Cargo.toml"
if ! git -C "$LANE/repo" apply --check "$PATCH" 2>/dev/null; then echo "patch does not apply: $PATCH"; exit 2; fi
git -C "$LANE/repo" apply "$PATCH"
TIER="${SEED_TIER:-quick}"
cd "$LANE/verif"
for id in "$@"; do
  out=$(./check "$id" "$TIER" 2>&1); code=$?
  sig=$(echo "$out" | grep -m1 "sig=" | sed 's/.*sig=\([^ ]*\).*/\1/')
  case $code in
    1) echo "$id CAUGHT $sig";;
    0) echo "$id MISSED";;
    *) echo "$id ERROR exit=$code"; echo "$out" | tail -5;;
  esac
done
git -C "$LANE/repo" checkout -q -- .
rm -f "$LANE"/verif/replays/*/fail-*.json
