#!/usr/bin/env python3
"""store_seed.py <worktree> <m> <caught: ID:sig,...> [note]  -> /verif/seeded/<prop>-<m>/"""
import json, sys, os, shutil
wt, m, caught = sys.argv[1], sys.argv[2], sys.argv[3]
note = sys.argv[4] if len(sys.argv) > 4 else ""
src = f"{wt}/OUT/{m}"
meta = json.load(open(f"{src}/meta.json"))
prop = meta["property"]
dst = f"/verif/seeded/{prop}-{os.environ.get('SEED_TAG','')}{m}"
os.makedirs(dst, exist_ok=True)
shutil.copy(f"{src}/patch.diff", f"{dst}/patch.diff")
shutil.copy(f"{src}/demo.rs", f"{dst}/demo.rs")
out = {
  "property": prop,
  "summary": meta.get("summary"),
  "needs_to_manifest": meta.get("needs_to_manifest"),
  "files": meta.get("files"),
  "features": meta.get("features"),
  "origin": "fresh sub-agent given only the property text and a scratch worktree",
  "confirmed": "tools/confirm_seed.sh: demo passes on the clean tree, fails with the patch; `cargo test --offline --lib` unchanged (54 passed + the known expand_env_vars_tests failure); color_control passes",
  "demonstration": f"place demo.rs as tests/demo_{m}.rs in a scratch worktree of /repo and run `cargo test --offline --test demo_{m}`",
  "checks_run": "tools/run_seeded.sh / tools/lane_seeded.sh patch.diff <IDs> (quick tier; the lane variant runs the same checks on a private copy of /repo and /verif)",
  "caught_by": [c for c in caught.split(",") if c],
  "note": note,
  "agent_ran": meta.get("ran"),
}
json.dump(out, open(f"{dst}/meta.json", "w"), indent=1, ensure_ascii=False)
print("stored", dst)
