#!/bin/bash
# Background thorough sweep (meant for `vp run --with-repo -- tools/bg_thorough.sh`): runs every thorough tier once.
# With $VP_RUN_REPO set, the snapshot's harness is pointed at that frozen copy of the repository, so that
# patches applied to /repo meanwhile do not disturb the run. Results belong to the snapshot (not evidence).
cd "$(dirname "$0")/.."
if [ -n "${VP_RUN_REPO:-}" ]; then
  sed -i "s|path = \"/repo\"|path = \"$VP_RUN_REPO\"|" harness/Cargo.toml fuzz/Cargo.toml
  cp "$VP_RUN_REPO/Cargo.lock" /dev/null 2>&1
fi
IDS="${IDS:-C01 C02 C03 C04 C05 C06 C07 C08 C09 C10 C11 C12 C13 C14 C15 C16 C17 C18 C19 C20}"
for id in $IDS; do
  start=$(date +%s)
  out=$(./check $id thorough 2>/dev/null); code=$?
  echo "$id exit=$code $(( $(date +%s) - start ))s $(echo "$out" | grep -E '^\[lv\]' | sed 's/.*evaluations/evaluations/')"
  [ $code -ne 0 ] && echo "$out" | grep -A1 VIOLATION | head -8
done
