#!/bin/bash
# Applies a seeded change to /repo, runs the given checks (quick), reverts. Usage: run_seeded.sh <patch.diff> <ID> [ID...]
# Prints per check: CAUGHT (exit 1 + VIOLATION) / MISSED (exit 0) / ERROR (other).
set -u
PATCH="$(readlink -f "$1")"; shift
cd /verif
if ! git -C /repo diff --quiet; then echo "/repo is dirty"; exit 2; fi
if ! git -C /repo apply --check "$PATCH" 2>/dev/null; then echo "patch does not apply: $PATCH"; exit 2; fi
git -C /repo apply "$PATCH"
TIER="${SEED_TIER:-quick}"
for id in "$@"; do
  out=$(./check "$id" "$TIER" 2>/dev/null); code=$?
  sig=$(echo "$out" | grep -m1 "sig=" | sed 's/.*sig=\([^ ]*\).*/\1/')
  case $code in
    1) echo "$id CAUGHT $sig";;
    0) echo "$id MISSED";;
    *) echo "$id ERROR exit=$code"; echo "$out" | tail -3;;
  esac
done
git -C /repo checkout -- .
rm -f /verif/replays/*/fail-*.json
# evidence files were rewritten by runs against a mutated tree: restore the committed ones
git -C /verif checkout -- evidence 2>/dev/null
