#!/bin/bash
# Re-runs every stored seeded change against the (quick) checks recorded as catching it. Meant for
# `vp run --with-repo -- tools/rerun_all_seeded.sh`: patches are applied to the frozen copy $VP_RUN_REPO, never to /repo.
# Prints one line per change: OK (still caught) / LOST (no check catches it any more) / N-A (none recorded).
cd "$(dirname "$0")/.."
REPO="${VP_RUN_REPO:?run through vp run --with-repo}"
sed -i "s|path = \"/repo\"|path = \"$REPO\"|" harness/Cargo.toml fuzz/Cargo.toml
for d in seeded/C*-*m*/; do
  name=$(basename "$d")
  ids=$(python3 -c "
import json,sys
m=json.load(open('$d/meta.json'))
print(' '.join(sorted({c.split(':')[0] for c in m.get('caught_by',[])})))")
  [ -z "$ids" ] && { echo "$name N-A"; continue; }
  git -C "$REPO" checkout -q -- . ; git -C "$REPO" apply "$PWD/$d/patch.diff" || { echo "$name APPLY-FAILED"; continue; }
  res=""
  for id in $ids; do
    out=$(./check "$id" quick 2>/dev/null); code=$?
    sig=$(echo "$out" | grep -m1 "sig=" | sed 's/.*sig=\([^ ]*\).*/\1/')
    case $code in 1) res="$res $id:$sig";; 0) res="$res $id:MISSED";; *) res="$res $id:ERROR$code";; esac
  done
  git -C "$REPO" checkout -q -- .
  if echo "$res" | grep -q ":C[0-9]"; then echo "$name OK$res"; else echo "$name LOST$res"; fi
  rm -f replays/*/fail-*.json
done
