#!/bin/bash
# Confirms a seeded change in its scratch worktree: lib tests pass with the patch, the demo fails with it and passes without.
# Usage: confirm_seed.sh <worktree> <m-dir-name>   (e.g. /tmp/seed-C06 m1)
set -u
WT="$1"; M="$2"; D="$WT/OUT/$M"
cd "$WT" || exit 2
FEAT=$(python3 -c "import json,sys; f=json.load(open('$D/meta.json')).get('features') or []; print(('--features '+','.join(f)) if f else '')" 2>/dev/null)
git checkout -q -- src; rm -f tests/demo_*.rs
cp "$D/demo.rs" tests/demo_$M.rs
base=$(cargo test --offline $FEAT --test demo_$M 2>&1 | grep -E "^test result" | head -1)
git apply "$D/patch.diff" || { echo "APPLY-FAILED"; exit 2; }
lib=$(cargo test --offline --lib 2>&1 | grep -E "^test result" | head -1)
cc=$(cargo test --offline --test color_control 2>&1 | grep -E "^test result" | head -1)
mut=$(cargo test --offline $FEAT --test demo_$M 2>&1 | grep -E "^test result|could not compile" | head -1)
git checkout -q -- src; rm -f tests/demo_$M.rs
echo "demo on clean tree : $base"
echo "lib tests w/ patch : $lib"
echo "color_control      : $cc"
echo "demo with patch    : $mut"
