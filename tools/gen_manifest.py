#!/usr/bin/env python3
"""Generates /verif/MANIFEST.json from the table below (kept next to the checks so that the
manifest never drifts from what ./check implements)."""
import json, subprocess, os

HERE = os.path.dirname(os.path.dirname(os.path.abspath(__file__)))

# id -> (level category, technique, level text, level note, design ref)
PBT = "property-based testing (proptest as a library, fixed seed, shrinking to a JSON replay)"
CHECKS = {
  "C01": ("exploration", PBT + " of generated configurations x derived targets against an independent routing model; declaration-order metamorphic relation",
          "Generated logger trees (descendants, skipped levels, textual-prefix siblings, leading '::', additive flags, repeated attachments) with targets derived from each tree are logged through log4rs::Logger; the multiset of deliveries must equal a component-wise reference model, and the same configuration in a permuted declaration order must deliver identically; lists reach the builders through a mix of singular and bulk calls, some cases start after caught appender panics on the same thread, probe records carry a configured logger's name as module path, the root level may be set through root_mut() after build, an appender logs a nested record from inside append, and all probes hand their target over in one reused buffer. Held on N generated cases, no absence proof.",
          "Trusts the harness model route() (written from the statement) and harness capture appenders.", "DESIGN.md §2 C01"),
  "C02": ("exploration", PBT + " of reconfiguration histories, one child process per history (global log facade), oracle = routing model + max-level rule",
          "Histories of 1-8 configurations whose most verbose level is steered up and down (held by root, leaf or deep logger) are installed through the three initialisers and Handle::set_config in a dedicated process; after every step log::max_level(), Logger::max_log_level(), enabled() on a target x level grid and log! macro deliveries are compared with the model; an appender of the outgoing configuration logs through the macros while set_config tears it down, and that record must reach what the incoming configuration prescribes.",
          "Global log facade without static max-level features; harness model.", "DESIGN.md §2 C02"),
  "C03": ("exploration", PBT + " of filter chains plus exhaustive sweeps (all chains <= 4, threshold truth table) against a per-appender chain model",
          "1-4 appenders with chains of scripted Accept/Neutral/Reject filters and real ThresholdFilters, scripted appender failures, generated record levels; consult log, delivery log and error-handler log must equal the model per appender independently; filters are attached through a mix of filter()/filters(), chains may hold the library's ThresholdFilter unwrapped, all failing appenders may fail with the very same std::io::Error, and in some cases the error handler of another logger panicked earlier on the thread. All 121 chains of length <= 4 x failing/healthy x position and the 6x5 threshold table are enumerated completely.",
          "Filters/appenders are harness implementations observing calls (real ThresholdFilter wrapped).", "DESIGN.md §2 C03"),
  "C04": ("exploration", PBT + " with amplified thread schedules (parking inside the critical section, reader thread), oracle = exact file content / whole-record stream",
          "Pre-existing content x open mode x pattern or multi-chunk encoder x single-threaded appends checked through a fresh handle after every call x concurrent phases of 2-8 threads in which designated records park between two chunks inside the appender's critical section while a reader samples the file, optionally after an append that unwound out of the appender (panicking Display argument), after a message argument that logged through another file appender while being formatted, and after another file appender failed in the middle of a record; the appender may be built by the file deserializer; part full-device: on /dev/full no append may return Ok; the file must be exactly pre-existing ++ acknowledged records, whole, per-thread ordered.",
          "OS scheduler not controlled: interleavings are amplified, not enumerated.", "DESIGN.md §3 C04"),
  "C05": ("exploration", PBT + " of operation histories (append/restart/clock advance/concurrent burst) over triggers x rollers, oracle = suffix-of-acknowledged-stream invariant",
          "Histories over size/on-start-up/time (guarded clock)/user-defined pre- and post-processing triggers and delete/fixed-window rollers (plain, gz, zst, directory patterns), both open modes, optionally a user-defined roller that fails on scripted calls, foreground and background-rotation builds; after every operation every retained file must parse into whole self-delimiting records and archives oldest-to-newest plus the active file must be a gap-free suffix of the acknowledged stream, records disappearing only from a full window; histories may contain appends that unwind out of the appender (panicking Display argument); part handover: an old and a new appender instance on one path write alternately and the file must be exactly all acknowledged records in order.",
          "Hook H1 (clock). Bursts are real threads (scheduler not controlled).", "DESIGN.md §3 C05"),
  "C06": ("exploration", PBT + " of append histories with sizes chosen relative to the limit; observing Policy wrapper; oracle = exact size model",
          "Limits incl. 0, pre-existing files around the limit, both open modes, restarts, multi-byte payloads, multi-chunk encoder: at every policy consultation len_estimate == on-disk size == model size, rotation iff size > N, archive content == rolled content; the configured path may be a symbolic link; parts: contended (2-4 writer threads), long (70 000 appends through one open file), pre-processing (user-defined pre-processing policy consulted right after failed rolls) - same accounting at every consultation.",
          "Foreground rotation build.", "DESIGN.md §3 C06"),
  "C07": ("exploration", PBT + " of roller configurations x initial directory states x roll sequences; oracle = full recursive snapshot model",
          "Bases incl. u32::MAX-count+1, counts 0-6, 14 patterns (index in name/directory/twice, $ENV incl. a value containing '{}', gz/zst), initial windows with gaps/outside-window archives/bystanders, 1-10 rolls of files up to 400 kB incompressible, rolled-file names that are not valid UTF-8, temp-file look-alikes in the background build, archive directories cleared away between rolls, the pattern's variable changing value between rolls, indices that land in a directory only after expansion, one roller through 400 successive rolls, rolled file optionally on another filesystem (copy fallback), foreground and background-rotation builds; exact shift for gap-free windows, charitable ordered-list relation with gaps, nothing outside the managed names touched.",
          "Archive names computed by the harness's own $ENV expander.", "DESIGN.md §3 C07"),
  "C08": ("fault_enumeration", PBT + " of histories, each expanded into every (rotation, step) x {injected error, crash image} plus hook-free obstacle directories",
          "For every generated history the check first learns its rotations, then enumerates each archive shift and the final move/compress of each rotation as the point of failure (guarded step callback returning Err) and as the point of process death (directory image + restart), and places obstacle directories and, for any slot directory of the window (counts up to 6), dangling symlinks, regular files or links into procfs without hooks, with the active file optionally on another filesystem; after every append and on every image the stream/retention oracles must hold, the failing append must return Err without panicking, and the appender must recover; windows may end at index u32::MAX; part global-logger: the appender as root appender of the installed logger in a child process, every record logged through the macros while the archive slots are obstructed must come back (20 s watchdog per record), in order.",
          "Hooks H2 (step callback) and H1; crash = directory image between steps (page cache intact), fsync not modelled.", "DESIGN.md §3 C08"),
  "C09": ("exploration", PBT + " of pattern ASTs printed to strings, under both build profiles; oracle = reference renderer computed from the AST; alias metamorphic relation",
          "Patterns are generated as ASTs over the documented grammar and printed; output for generated records (Unicode, absent fields, MDC, multi-piece messages, short writes, named threads) must equal render(AST, record), styles balanced, alias-flipped pattern identical; sub-second dates are cut out and parsed back into the encode bracket; TZ is moved through fixed-offset zones while the process runs and local dates must follow; the process forks after encoding and the child's {P}/{pid} must be the child's; some messages are argument-free literals; the three routes to the default pattern must render alike in the local zone.",
          "Date formatting reference uses chrono; TZ pinned to a fixed offset (except part tz-change).", "DESIGN.md §4 C09"),
  "C10": ("exploration", PBT + " of width specs with text lengths chosen around m and M and scripted short / interrupted (EINTR) writes; oracle = pad(first_M_chars) plus raw-byte assertions",
          "Single-formatter cases assert on the raw bytes valid UTF-8, <= M and >= m characters and equality with the law; nested cases (spec probability 0.9, depth <= 4) compare with the compositional reference, including the exact sequence of text pieces and style requests.",
          "m <= M (statement's domain).", "DESIGN.md §4 C10"),
  "C11": ("exploration", "exhaustive enumeration of all strings over the 14 syntax symbols up to a length bound and of all strftime directives + " + PBT + " of valid-prefix/breaker/suffix and token soup + coverage-guided fuzzing (thorough), under both build profiles; oracle = catch_unwind + differential against a reference parser of the documented grammar (well-formed => reference rendering, malformed => error marker after the rendered prefix)",
          "No construction or encoding of any enumerated or generated string may unwind; every string is classified by a reference parser written from the documentation: well-formed strings must render exactly their meaning (no false error), malformed ones must show {ERROR: (or return Err) after the rendering of their valid top-level prefix; the same for a generated valid prefix followed by a known breaker (50 of them, incl. Unicode-numeric width characters and errors inside date arguments); part thread-exit: encoding from a thread-local destructor in a child process.",
          "Widths above 4096 are constructed but not encoded (statement's sanity bound).", "DESIGN.md §4 C11"),
  "C12": ("exploration", PBT + " of records with adversarial strings; oracle = independent strict RFC 8259 parser + field-by-field round trip",
          "One line, no raw control byte, strict parse (own parser, cross-checked with serde_json), every documented field equal to the record (fields with uninterrupted plain runs of up to 20 kB), absent optional fields omitted, no undocumented key; the encoder is built by new(), Default and the kind: json deserializer; sinks with short and interrupted writes; messages delivered one character at a time; a preceding record on the thread with shifted MDC boundaries.",
          "Control character = U+0000-U+001F.", "DESIGN.md §4 C12"),
  "C13": ("exploration", PBT + " of builder inputs + exhaustive sweep of all 3280 names over {a,b,:} up to length 7; oracle = reference validity rule and valid-part model",
          "build() Ok iff no offence; every error names a real offence and every offending item is covered; build_lossy equals the valid part; returned configs are installed and probed under catch_unwind against route(); appender names include the empty string and a blank; all public builder routes (builder()/default(), singular/bulk); inputs with 400 and 1000+ offending items.",
          "Colon runs of even length >= 4 are unsettled by the statement (either outcome accepted).", "DESIGN.md §5 C13"),
  "C14": ("exploration", PBT + " of logical configurations rendered by three hand-written emitters, differential against a programmatic twin; mutation-based negative oracle by layer",
          "Each logical configuration is rendered to YAML, JSON and TOML (generated key order, defaultable keys present/omitted), loaded through both paths, compared through Config accessors and through directory snapshots after probe records with a twin built by the public builders (ten clock-free patterns incl. the empty one and line breaks after {n}; the configured path may be a symbolic link to a differently named file); the strict path is the library's create_raw_config; mutated documents (unknown keys carry a number, null, empty string, empty list or empty map) must be rejected at the right layer, lossy loading must keep everything else working, degenerate numerics never panic.",
          "Hook H1 pins the clock; console appenders presence only; root level default not asserted.", "DESIGN.md §5 C14"),
  "C15": ("exploration", PBT + " of concurrent swap plans, exhaustive re-entrant swaps at every fan-out position, model-based histories of file edits against the single-stepped reloader",
          "Tagged capture appenders make every delivery attributable to one configuration generation: no record may mix generations or miss an appender, under volume and under re-entrant set_config from inside append at every position; the real ConfigReloader::run_once is stepped through generated edit histories (valid, garbage, not UTF-8, touched, deleted, older/same mtime, rate changes) and compared with a model of the statement, observed behaviourally; concurrent plans include configurations that reject everything; three smoke cases through the real init_file (in-place edits; a symbolic link re-pointed atomically; a symbolic link whose target is edited in place) in which a valid change not applied within 30 s at refresh_rate 20 ms is a violation.",
          "Hooks H3, H4. Scheduler not controlled; reloader liveness by one bounded real-time smoke case.", "DESIGN.md §5 C15"),
  "C16": ("exploration", PBT + " of instants constructed around calendar and DST features, one process per time zone; oracle = proleptic-Gregorian reference written without chrono; model of the trigger object under a driven clock; real-clock scenarios across a real offset change in child processes",
          "Schedule function: no panic, strictly in the future, and equal to the wall-clock reference wherever chrono reports a constant offset (over [start of the current unit, result]; for modulated schedules over [now, result]); trigger object: fires iff now >= scheduled, reschedules into the future; end-to-end: first record at/after the boundary opens the new file; real clock: a POSIX-rule zone switches two seconds into the case and triggers created after / running since before the switch must schedule under the offset in force; a record 150-350 ms before the scheduled instant does not fire it; multipliers up to i64::MAX never schedule earlier than (n-1) units ahead.",
          "Hooks H1. UTC offsets (precondition only) from chrono; both modulate readings accepted.", "DESIGN.md §6 C16"),
  "C17": ("exploration", PBT + " of start-up situations (sizes around min_size, modes, lifetimes, barrier-released threads); oracle = exact archive/active content",
          "Rolled iff size at start-up >= min_size, archive == pre-existing content, first record opens the fresh file, no further archive ever appears - also for a simultaneous start of 2-8 threads, after a start-up roll that failed before or after moving the file (not made up for later), with the trigger built by the onstartup deserializer without min_size, with an encoder refusing the first record, with sparse pre-existing files beyond 4 GiB, and over lifetimes of 70 000 records.",
          "Scheduler not controlled (barrier amplification).", "DESIGN.md §3 C17"),
  "C18": ("exploration", "exhaustive 432-cell environment x terminal matrix in child processes on real ptys + exhaustive 243-style sweep + " + PBT + " of style pairs/interleavings; oracle = statement's cascade and an SGR interpreter",
          "Every cell runs in its own child with generated highlight patterns; target/non-target stream content, tty_only silence, presence of escapes per the colour cascade, well-formedness and resets are checked, with colour on the stream must carry exactly one sequence per style request of the pattern in its place; argument-free literal messages (4-9 kB, multi-line, multi-byte, empty) through {m} on both streams; builder call order varied; an encoder that refuses one record in mid-cell; every style must map any prior terminal state to exactly the requested attributes.",
          "ptys via libc::openpty (absent => exit 2). NO_COLOR=0 / CLICOLOR_FORCE=0 accept both readings.", "DESIGN.md §6 C18"),
  "C19": ("exploration", PBT + " of token-built paths and variable pools; oracle = single-pass reference expander; end-to-end through the three public builders and through a YAML configuration file",
          "Bulk comparison through the guarded hook and creation of exactly the expected file by FileAppender, RollingFileAppender (both open modes; truncate mode must empty the file at the expanded location), the same two through a YAML configuration file, and FixedWindowRoller (index in the file name, and in a directory below the expanded path over four rolls); variable names up to 1032 characters.",
          "Hook H5. Values are '$'-free.", "DESIGN.md §6 C19"),
  "C20": ("exploration", PBT + " of literals (boundary-centred numbers x decorations x units x whitespace x seven carriers); oracle = u128 reference with accept-either classes",
          "Exact value, mandatory rejection (including literals without any digits and units followed by further words), or error-or-exact where the statement is silent; never a panic, never a wrapped value.",
          "TOML integers above i64::MAX are a carrier limit (unsettled).", "DESIGN.md §6 C20"),
}

# sentences appended to the level texts above (strengthenings of rounds 10 and 11)
ADDED = {
  "C01": " Fixed inputs: families of 2-40, 64, 65 and 300 sibling loggers below one node; loggers 64-4097 components deep; sibling names a sloppy tree key would conflate (published collisions of FNV-1a 64/32, FNV-1, Java hashCode, djb2, CRC-32; anagrams; case, normalisation, trimming).",
  "C02": " Two fixed histories of one configuration declared in another order at every step. Three fixed histories over families of 2-24 siblings growing and shrinking. Four fixed histories over look-alike sibling names (published hash collisions, case, normalisation, trimming).",
  "C03": " Appender names differ only in letter case; part concurrent (threads inside one appender at the same time). Filters may answer by what the record says; failing appenders fail with plain errors or I/O errors of eight kinds, bare or wrapped. An appender may be a foreign log::Log whose enabled() refuses everything while its log() records; the error handler may panic while reporting (every appender whose chain delivers has been served all the same). Part file-route: appenders and filters built from a configuration document with user-defined kinds; a filter kind with a memory declared identically on several appenders - each declaration is a filter of its own.",
  "C04": " Another appender may truncate the file meanwhile; the builder may be told the open mode twice. Parts giant (records of 1-3 MiB written in pieces) and thread-exit (appends from thread-local destructors, child process). Also: an append whose own encoder fails after k bytes (everything acknowledged before stays, both open modes); the file rotated away by somebody else before a new appender is built on the path. Part relative-path: an appender built on a relative path keeps writing to the file it opened when the process changes its working directory afterwards (nothing appears under the new one). Full device under a rolling appender whose every record fires the trigger. The harness encoder reaches the writer through write_all, write and write_vectored in turn (also C05-C08, C17).",
  "C05": " Records may lack a trailing line break; in the background-rotation build a panic of the rotation thread is a violation. The appender may be built by the rolling_file deserializer (append left out when it is the default). The pattern pool holds a pattern with blanks at both ends and two with long directory names outside ASCII (also through the rolling_file deserializer).",
  "C06": " Messages may start with char arguments. Limits no file can reach (2^63 .. u64::MAX) never roll. Records written through write_vectored and plain write loops count like any other.",
  "C07": " Futile roll attempts (nothing / a directory at the rolled path) lose no archive. Patterns with '..' after a symbolic link or a two-component variable, relative patterns, a change of working directory between rolls. The rolled file may be a symbolic link (its target is a bystander, nothing may remain at the path); windows of 33-70 slots; bystanders whose names merely look like an index. A futile roll with nothing at the rolled path is asserted for compressing rollers too. Files of another appender inside the slot directories of directory-component patterns are bystanders.",
  "C08": " The top slot's chunk is retained when the slot below is vacant. Further faults: a roller that archives the file and then reports a failure; an obstacle directory at the only archive name of a compressing pattern; the archive on a full device (name linked to /dev/full, compressing patterns, window of one) - the error arrives only in the encoder's final flush. Patterns with long directory names outside ASCII (2- and 3-byte characters).",
  "C09": " Long date formats (rendered dates of 100-400 bytes); the default date format under zones west of Greenwich with fractional offsets. Record texts of 4/8/16/64 KiB in one piece; module path and file as &'static str (backslashes, quotes, controls); short multi-byte literal messages. Part deep-nesting: 1-1500 plain and highlight groups nested around {m} (thread with a 1 GiB stack). Date formats may be the bare words utc and local.",
  "C10": " Maximum widths that do not fit 32 bits; literal messages with far more bytes than characters.",
  "C11": " Widths up to 262 144 are encoded; malformed MDC defaults among the breakers. Semantic errors inside groups (with and without a maximum width) must leave what precedes them in the group rendered. A panic raised and caught again inside the library counts as a panic (per-thread panic-hook counter); part broken-stderr: broken patterns constructed and encoded in a child whose stderr is a pipe nobody reads. Part nested-message: a message argument that encodes records of its own through pattern encoders on the same thread. Profile groups with two arguments among the breakers.",
  "C12": " Part nested: a message argument that encodes records of its own (three lines). MDC keys that differ only in letter case or by a compatibility look-alike are different keys; module path and file may arrive through module_path_static/file_static.",
  "C13": " Names of 8-72 characters with colon runs at every position. Fixed inputs over look-alike appender names and references (published hash collisions, case, trailing line terminators, invisible characters).",
  "C14": " Refresh rates in minutes, milli-, micro-, nanoseconds and combined forms; look-alike units are malformed values. Mutation 'malformed text after the complete document'. Filter chains may hold a user-defined, order-sensitive filter kind registered through Deserializers::insert (lossy loading must keep the order of the surviving filters). Mutations 'key written twice' (document, root, logger sections) and 'a byte that is not UTF-8' (comment, pattern, name; a character cut off at the end). Near-miss units (a plural too many, two units) among the degenerate values.",
  "C15": " A record logged by an appender of the incoming configuration while the reloader builds it is routed by a complete configuration. Reloader edits confined to the final line break of a document ending in a block scalar; a reload slower than the refresh rate. Real-time scenarios through init_file: refresh rate honoured after a change (2 s -> 100 ms -> 1 h), kept after a poll that found the file unparsable; a process whose stderr is a broken pipe. One save that removes the refresh rate and changes the routing is applied before polling stops; a file that starts with a byte-order mark and is merely touched is not applied again.",
  "C16": " Part shared: one trigger consulted by 2-8 threads at the same driven instant fires exactly once per round. In half of the sequences a second live trigger with a schedule of its own (1 year / 1 second) is consulted right before every arrival.",
  "C17": " The path may hold a reference to a variable set only after the appender was built. The log file may be moved away between start-up and the first record. The configured path may be a symbolic link to the pre-existing file.",
  "C18": " Part raw-writer (the public ConsoleWriter used directly, same style recurring); an encoder that gives up half-way right before the other stream's appender logs. Every cell carries a distractor environment (TERM=dumb/unset, FORCE_COLOR, COLORTERM, CI ...); a third of the cells build the appender through the console deserializer; part threads: 2-8 threads through one appender, colour on and off. Part device: the target redirected to a character device that is no terminal - a tty_only appender stays silent.",
  "C19": " Names with dots further in; variables with names no reference can have exist. References cut short by the next reference; rollers with a window of one. Bystander variables that are not valid Unicode sit in the environment; one roller rolls twice with every pool variable changed in between. References malformed by a non-ASCII symbol, dash or space (variables of those names exist). A stale file named like the unexpanded path sits next to the expanded location.",
  "C20": " Units followed by NUL or invisible characters. Numbers beyond 64 and 128 bits. Units in which one letter is replaced by a character agreeing with it in the low 8 or 16 bits of the code point.",
}

NOT_YET = "check not built yet in this round (planned in DESIGN.md; property-based check under construction)"

def main():
    props = [json.loads(l) for l in open(os.path.join(HERE, "properties.jsonl"))]
    hooks = subprocess.run(["git", "-C", "/repo", "log", "--format=%H %s"], capture_output=True, text=True).stdout.splitlines()
    hook_commits = [l.split()[0] for l in hooks if "verif hook" in l]
    checks = []
    na = []
    for p in props:
        pid = p["id"]
        if pid in CHECKS:
            cat, tech, text, note, ref = CHECKS[pid]
            text = text + ADDED.get(pid, "")
            checks.append({
                "property_id": pid,
                "quick_cmd": f"./check {pid} quick",
                "thorough_cmd": f"./check {pid} thorough",
                "evidence_file": f"/verif/evidence/{pid}.json",
                "replay_cmd_template": f"./check {pid} --replay {{path}}",
                "engine": "lv",
                "level_claimed": {"category": cat, "text": text, "design_ref": ref},
                "level_note": note,
                "technique": tech,
            })
        else:
            na.append({"property_id": pid, "reason": NOT_YET})
    m = {
        "version": 1,
        "setup_cmd": "./check --build",
        "hooks": {
            "guard": "--cfg log4rs_verif",
            "enable": "RUSTFLAGS='--cfg log4rs_verif' cargo build in /verif/harness (log4rs is a path dependency on /repo, rebuilt from the working tree by cargo's fingerprinting)",
            "baseline_off_cmd": "cd /repo && cargo test --workspace --no-fail-fast --offline",
            "source_commits": list(reversed(hook_commits)),
            "add_only": True,
        },
        "engines": [{
            "name": "lv",
            "path": "/verif/harness",
            "serves_properties": sorted(CHECKS.keys()),
            "kind_free_text": "Rust binary using proptest as a library (fixed seeds from VERIF_SEED, shrinking to JSON replay files, reference models per property); cargo-fuzz targets under /verif/fuzz for thorough tiers",
        }],
        "checks": checks,
        "not_applicable": na,
        "notes": "Exit codes: 0 held, 1 VIOLATION (line printed), 2 infrastructure trouble. Known findings: /verif/known_findings.json.",
    }
    json.dump(m, open(os.path.join(HERE, "MANIFEST.json"), "w"), indent=1)
    print("wrote MANIFEST.json:", len(checks), "checks,", len(na), "not_applicable")

if __name__ == "__main__":
    main()
