#!/usr/bin/env python3
"""Generates /verif/MANIFEST.json from the table below (kept next to the checks so that the
manifest never drifts from what ./check implements)."""
import json, subprocess, os

HERE = os.path.dirname(os.path.dirname(os.path.abspath(__file__)))

# id -> (level category, technique, level text, level note, design ref)
CHECKS = {
  "C01": ("exploration",
          "property-based testing (proptest) of generated configurations x derived targets against an independent routing model, plus declaration-order metamorphic relation",
          "Random/structured search: generated logger trees (descendants, skipped levels, textual-prefix siblings, additive flags, repeated attachments) with targets derived from each tree are logged through log4rs::Logger and the multiset of deliveries is compared with a component-wise reference model; the same configuration in a permuted declaration order must deliver identically. No absence proof: held on N generated cases.",
          "Trusts the harness reference model route() (written from the statement) and harness capture appenders; real appenders are covered by C14.",
          "DESIGN.md §2 C01"),
}

NOT_YET = "check not built yet in this round (planned in DESIGN.md; property-based check under construction)"

def main():
    props = [json.loads(l) for l in open(os.path.join(HERE, "properties.jsonl"))]
    hooks = subprocess.run(["git", "-C", "/repo", "log", "--format=%H %s"], capture_output=True, text=True).stdout.splitlines()
    hook_commits = [l.split()[0] for l in hooks if "verif hook" in l]
    checks = []
    na = []
    for p in props:
        pid = p["id"]
        if pid in CHECKS:
            cat, tech, text, note, ref = CHECKS[pid]
            checks.append({
                "property_id": pid,
                "quick_cmd": f"./check {pid} quick",
                "thorough_cmd": f"./check {pid} thorough",
                "evidence_file": f"/verif/evidence/{pid}.json",
                "replay_cmd_template": f"./check {pid} --replay {{path}}",
                "engine": "lv",
                "level_claimed": {"category": cat, "text": text, "design_ref": ref},
                "level_note": note,
                "technique": tech,
            })
        else:
            na.append({"property_id": pid, "reason": NOT_YET})
    m = {
        "version": 1,
        "setup_cmd": "./check --build",
        "hooks": {
            "guard": "--cfg log4rs_verif",
            "enable": "RUSTFLAGS='--cfg log4rs_verif' cargo build in /verif/harness (log4rs is a path dependency on /repo, rebuilt from the working tree by cargo's fingerprinting)",
            "baseline_off_cmd": "cd /repo && cargo test --workspace --no-fail-fast --offline",
            "source_commits": list(reversed(hook_commits)),
            "add_only": True,
        },
        "engines": [{
            "name": "lv",
            "path": "/verif/harness",
            "serves_properties": sorted(CHECKS.keys()),
            "kind_free_text": "Rust binary using proptest as a library (fixed seeds from VERIF_SEED, shrinking to JSON replay files, reference models per property); cargo-fuzz targets under /verif/fuzz for thorough tiers",
        }],
        "checks": checks,
        "not_applicable": na,
        "notes": "Exit codes: 0 held, 1 VIOLATION (line printed), 2 infrastructure trouble. Known findings: /verif/known_findings.json.",
    }
    json.dump(m, open(os.path.join(HERE, "MANIFEST.json"), "w"), indent=1)
    print("wrote MANIFEST.json:", len(checks), "checks,", len(na), "not_applicable")

if __name__ == "__main__":
    main()
