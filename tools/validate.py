#!/usr/bin/env python3
import json, sys, glob, jsonschema
m = json.load(open('/verif/MANIFEST.json'))
jsonschema.validate(m, json.load(open('/root/.vp/MANIFEST.schema.json')))
es = json.load(open('/root/.vp/EVIDENCE.schema.json'))
bad = 0
for c in m['checks']:
    try:
        e = json.load(open(c['evidence_file']))
        jsonschema.validate(e, es)
        assert e['level'] == c['level_claimed']['category'], "level mismatch"
        print(c['property_id'], 'ok', e['tier'], e['coverage']['evaluations'], e['coverage']['distinct_nontrivial'], e['wall_s'])
    except Exception as ex:
        bad += 1
        print(c['property_id'], 'BAD', str(ex)[:200])
# every stored seeded change must still apply to the current /repo (fix commits may rewrite the lines one touches)
import subprocess, os
for d in sorted(glob.glob('/verif/seeded/C*-*m*/')):
    r = subprocess.run(['git', '-C', '/repo', 'apply', '--check', d + 'patch.diff'], capture_output=True)
    if r.returncode != 0:
        bad += 1
        print('STALE seeded patch', d)
sys.exit(1 if bad else 0)
