#!/usr/bin/env python3
import json, glob, os
rows=[]
for d in sorted(glob.glob('/verif/seeded/C*-m*')):
    m=json.load(open(d+'/meta.json'))
    caught=', '.join(c.split(':',1)[0]+' ('+c.split(':',1)[1]+')' for c in m['caught_by']) or '- (see note)'
    rows.append(f"| {os.path.basename(d)} | {m['summary']} | {m['needs_to_manifest']} | {caught} | {m.get('note','')} |")
t="| change | what | needs to manifest | caught by (quick tier, signature) | note |\n|---|---|---|---|---|\n"+"\n".join(rows)+"\n"
s=open('/verif/seeded/README.md').read()
s=s.split('\n## Table\n')[0].rstrip('\n')+'\n\n## Table\n\n'+t
open('/verif/seeded/README.md','w').write(s)
print(len(rows),'rows')
