#!/usr/bin/env python3
import json, glob, os
rows=[]
for d in sorted(glob.glob('/verif/seeded/C*-m*')):
    m=json.load(open(d+'/meta.json'))
    caught=', '.join(c.split(':',1)[0]+' ('+c.split(':',1)[1]+')' for c in m['caught_by']) or '- (see note)'
    rows.append(f"| {os.path.basename(d)} | {m['summary']} | {m['needs_to_manifest']} | {caught} | {m.get('note','')} |")
t="| change | what | needs to manifest | caught by (quick tier, signature) | note |\n|---|---|---|---|---|\n"+"\n".join(rows)+"\n"
s=open('/verif/seeded/README.md').read()
s=s.split('\n## Table\n')[0].rstrip('\n')+'\n\n## Table\n\n'+t
open('/verif/seeded/README.md','w').write(s)
print(len(rows),'rows')

# the same table (compact) inside DESIGN.md section 11.4
rows2=[]
n=0; c=0; st=0
for d in sorted(glob.glob('/verif/seeded/C*-m*')):
    m=json.load(open(d+'/meta.json'))
    n+=1; c+= 1 if m['caught_by'] else 0; st += 1 if 'at first' in (m.get('note') or '') else 0
    caught=', '.join(x.split(':',1)[0]+' `'+x.split(':',1)[1]+'`' for x in m['caught_by']) or '— (not counted, see note)'
    rows2.append(f"| {os.path.basename(d)} | {m['property']} | {caught} | {(m.get('note') or '').replace('|','/')} |")
block=f"{n} changes kept; {c} caught by the quick tiers; {st} of those were missed at first and led to a stronger check.\n\n| change | property | caught by (signature) | note |\n|---|---|---|---|\n"+"\n".join(rows2)+"\n"
D=open('/verif/DESIGN.md').read()
a=D.index('<!-- SEEDED-TABLE-BEGIN -->')+len('<!-- SEEDED-TABLE-BEGIN -->'); b=D.index('<!-- SEEDED-TABLE-END -->')
open('/verif/DESIGN.md','w').write(D[:a]+'\n'+block+D[b:])
print('DESIGN.md table updated:',n,c,st)
