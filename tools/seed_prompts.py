#!/usr/bin/env python3
"""seed_prompts.py <round-tag> <ID> [ID...]: writes /tmp/<tag>-prompt-<ID>.txt for fresh sub-agents (they get only this text
and a scratch worktree /tmp/<tag>-<ID>); earlier changes for the property are listed as off-limits."""
import json, glob, sys
tag, ids = sys.argv[1], sys.argv[2:]
props = {json.loads(l)['id']: json.loads(l) for l in open('/verif/properties.jsonl')}
prev = {}
for d in sorted(glob.glob('/verif/seeded/C*-*m*')):
    m = json.load(open(d + '/meta.json'))
    prev.setdefault(m['property'], []).append(m['summary'])
T = '''You are helping to evaluate a test suite by writing deliberately faulty variants ("mutants") of a Rust library. Work ONLY inside the directory {wt} (a scratch git worktree of the log4rs logging library; edit nothing outside it, and never touch /repo or /verif). The sandbox is offline: always pass --offline to cargo (e.g. `cargo test --offline`). Do not modify any item guarded by `#[cfg(log4rs_verif)]` (ignore those hooks). Neither your changes nor your demonstrations may delete, replace or write to anything outside temporary directories they create themselves (in particular never device nodes under /dev such as /dev/full or /dev/null: open them through a symbolic link in a temporary directory if you need one).

Here is a semantic property the library is supposed to satisfy:

PROPERTY {pid} — {title}
{statement}
Quantified: {quant}

Your task: produce TWO DIFFERENT source changes to the library (under src/), each of which
 (1) still compiles and still passes the library's existing test suite: `cargo test --offline --lib` must report the same passing tests as before your change (one test, append::test::expand_env_vars_tests, fails on the unmodified tree because $USER is unset; ignore it), and `cargo test --offline --test color_control` passes;
 (2) breaks the property above; and
 (3) is SUBTLE: it must need something specific to manifest - a particular interleaving, a failure or crash at a particular point, a multi-step sequence of operations, an unusual input or boundary value, or two cooperating code sites that each look fine alone. It must NOT be something that ordinary use would expose at once. Think of realistic slips a maintainer could make in a refactoring or an optimisation.
The two changes must have different root causes / touch different mechanisms.

For each change i in {{1,2}} deliver, in the directory {wt}/OUT/m<i>/ :
 - patch.diff : the output of `git diff` for that change alone (relative to the unmodified worktree HEAD), applicable with `git apply` from the repository root;
 - a demonstration: a self-contained Rust integration test file demo.rs (to be placed as tests/demo_m<i>.rs in the repository and run with `cargo test --offline --test demo_m<i>`) that FAILS with the change applied and PASSES on the unmodified tree. It may use only the crate's public API, its regular dependencies that appear in that API (log, log-mdc, anyhow, serde_yaml...) and its dev-dependencies (tempfile, lazy_static, humantime, serde_test, mock_instant, streaming-stats) plus std. Default crate features unless meta.json says otherwise (then list them under "features"). Verify both directions yourself by actually running it (apply patch -> fails; `git checkout -- src` -> passes).
 - meta.json : {{"property": "{pid}", "summary": "<one sentence: what was changed>", "needs_to_manifest": "<what specific input/sequence/timing is needed>", "files": ["src/..."], "features": [], "ran": ["<commands you ran and their outcome>"]}}
When you finish, make sure the worktree's src/ is back to the unmodified state (`git checkout -- src`) and that no demo file is left in tests/ (keep copies only under OUT/). Then reply with a short summary of the two changes. Be economical: do not explore more of the code base than you need.

IMPORTANT ADDITIONAL REQUIREMENTS FOR THIS ROUND: the test suite under evaluation is strong; earlier rounds already produced the following changes, which you must NOT repeat or trivially vary:
{prev}
Aim for changes that are HARDER to detect: they should need a rare combination to manifest - the interplay of two features or options, state carried across several operations or across threads, a rare but legal value (e.g. an unusual Unicode character class, an extreme but valid number, an empty string), a specific position/length relationship, a rarely used public entry point or constructor that reaches the same behaviour by another route (configuration files, builder variants, trait default methods), or a process-level circumstance (environment, time zone, file-system layout, a long-running process). Prefer changes whose effect is silent (wrong or missing data) over ones that panic. Both changes must still clearly violate the property as stated.{note}'''
notes = {
 'C15': '\nNote for this property: the automatic file reloader is the private `ConfigReloader` in src/config/file.rs used by `init_file`; a demonstration for it may need a child process or generous timeouts because it installs the global logger and polls on a background thread.',
 'C16': '\nNote for this property: the trigger reads the real clock (chrono Local::now()); a demonstration from an integration test must work with the real clock and/or the TZ environment variable (chrono honours TZ, including POSIX rule strings), or exercise behaviour observable within a few seconds.',
 'C14': '\nNote: JSON and TOML configuration loading need the cargo features `json_format` / `toml_format` (not default).',
 'C07': '\nNote: the gzip and zstd compression paths need the cargo features `gzip` / `zstd`; background rotation needs `background_rotation` (none are default).',
 'C05': '\nNote: background rotation needs the cargo feature `background_rotation`, compression `gzip` / `zstd` (none are default).',
 'C18': '\nNote: a demonstration that needs a terminal may allocate a pseudo-terminal through libc only if libc is reachable from the dev-dependencies; otherwise demonstrate on pipes/files or through `AnsiWriter` around a `Vec<u8>`; environment variables may be set inside a dedicated test binary (one test per file).',
 'C12': '\nNote: the JSON encoder is `log4rs::encode::json::JsonEncoder` (feature `json_encoder`, part of the default `all_components`); serde_json is available to the demonstration only if it is among the crate\'s dependencies or dev-dependencies - otherwise parse by hand.',
}
for pid in ids:
    p = props[pid]
    open(f'/tmp/{tag}-prompt-{pid}.txt', 'w').write(T.format(wt=f'/tmp/{tag}-{pid}', pid=pid, title=p['title'], statement=p['statement'], quant=p['quantifier']['text'], prev='\n'.join(' - ' + s for s in prev.get(pid, [])), note=notes.get(pid, '')))
    print(f'/tmp/{tag}-prompt-{pid}.txt')
