#!/bin/bash
# Runs every quick check under several seeds; prints one line per (seed, check). Used to see that checks stay silent on the unchanged tree.
cd "$(dirname "$0")/.."
if [ -n "${VP_RUN_REPO:-}" ]; then
  sed -i "s|path = \"/repo\"|path = \"$VP_RUN_REPO\"|" harness/Cargo.toml fuzz/Cargo.toml
fi
SEEDS="${SEEDS:-1 2 3 4 5}"
IDS="${IDS:-C01 C02 C03 C04 C05 C06 C07 C08 C09 C10 C11 C12 C13 C14 C15 C16 C17 C18 C19 C20}"
TIER="${TIER:-quick}"
for s in $SEEDS; do for id in $IDS; do
  out=$(VERIF_SEED=$s ./check $id $TIER 2>/dev/null); code=$?
  echo "seed=$s $id exit=$code $(echo "$out" | grep -E '^\[lv\]' | sed 's/.*evaluations/evaluations/')"
  [ $code -ne 0 ] && echo "$out" | grep -A1 VIOLATION | head -6
done; done
