#!/usr/bin/env python3
"""mutsweep.py - mechanical mutation sweep of /repo/src against the quick tiers.

Independent of the sub-agent changes under seeded/: every site of a small set of classic operators
(relational boundary, negated condition, +/-, &&/||, true/false, dropped statement, swallowed `?`,
dropped .rev()/.min/.max swap ...) in non-test, non-hook library code becomes one mutant. A mutant is
*eligible* when it compiles and the repository's own test suite still passes (same rule as for the
seeded changes); eligible mutants are run against the quick tiers of the checks that watch the file
(FILE_CHECKS), survivors optionally against all other checks (--widen).

Everything happens in private copies (lane directories under $MUTSWEEP_TMP, default /tmp/mutsweep):
/repo and /verif are never modified. Results: one JSON line per mutant in the file given by --out.

  mutsweep.py list                                   # print the mutants (id, file:line, operator)
  mutsweep.py run --lanes 3 --out mutsweep/results.jsonl [--only REGEX] [--limit N] [--widen]
  mutsweep.py summary mutsweep/results.jsonl         # table per file / operator / verdict
"""
import argparse, hashlib, json, os, re, shutil, subprocess, sys, threading, time, queue

REPO = os.environ.get('MUTSWEEP_REPO', '/repo')
VERIF = os.path.dirname(os.path.dirname(os.path.abspath(__file__)))
TMP = os.environ.get('MUTSWEEP_TMP', '/tmp/mutsweep')
ALL = ['C%02d' % i for i in range(1, 21)]

FILE_CHECKS = [
    ('src/lib.rs', ['C01', 'C02', 'C03', 'C15', 'C13']),
    ('src/config/runtime.rs', ['C13', 'C01', 'C02', 'C14']),
    ('src/config/raw.rs', ['C14', 'C20', 'C02', 'C15']),
    ('src/config/file.rs', ['C15', 'C14']),
    ('src/config/mod.rs', ['C14', 'C15', 'C02']),
    ('src/filter/', ['C03', 'C14']),
    ('src/append/mod.rs', ['C19', 'C14', 'C04']),
    ('src/append/file.rs', ['C04', 'C19', 'C14']),
    ('src/append/console.rs', ['C18', 'C14']),
    ('src/append/rolling_file/mod.rs', ['C05', 'C06', 'C08', 'C17', 'C19', 'C14']),
    ('src/append/rolling_file/policy/compound/mod.rs', ['C05', 'C06', 'C08', 'C14']),
    ('src/append/rolling_file/policy/mod.rs', ['C05', 'C14']),
    ('src/append/rolling_file/policy/compound/roll/fixed_window.rs', ['C07', 'C08', 'C05', 'C19', 'C14']),
    ('src/append/rolling_file/policy/compound/roll/', ['C07', 'C05', 'C14']),
    ('src/append/rolling_file/policy/compound/trigger/size.rs', ['C06', 'C20', 'C14', 'C05']),
    ('src/append/rolling_file/policy/compound/trigger/time.rs', ['C16', 'C20', 'C14', 'C05']),
    ('src/append/rolling_file/policy/compound/trigger/onstartup.rs', ['C17', 'C14', 'C05']),
    ('src/append/rolling_file/policy/compound/trigger/', ['C05', 'C14']),
    ('src/encode/pattern/', ['C09', 'C10', 'C11', 'C18', 'C14']),
    ('src/encode/json.rs', ['C12', 'C14']),
    ('src/encode/writer/', ['C18', 'C09', 'C04']),
    ('src/encode/mod.rs', ['C09', 'C12', 'C18', 'C10']),
    ('src/priv_io.rs', ['C18']),
]


def checks_for(path):
    for pre, ids in FILE_CHECKS:
        if path.startswith(pre):
            return ids
    return ['C01', 'C14']


# ---------------------------------------------------------------- mutant enumeration

REL = [(r'(?<=[\w\)\]] )>=(?= [\w\(\-\*&])', '>'), (r'(?<=[\w\)\]] )>(?= [\w\(\-\*&])', '>='),
       (r'(?<=[\w\)\]] )<=(?= [\w\(\-\*&])', '<'), (r'(?<=[\w\)\]] )<(?= [\w\(\-\*&])', '<='),
       (r'(?<=[\w\)\]\?] )==(?= )', '!='), (r'(?<=[\w\)\]\?] )!=(?= )', '==')]
ARITH = [(r'(?<=[\w\)\]] )\+(?= [\w\(])', '-'), (r'(?<=[\w\)\]] )-(?= [\w\(])', '+'),
         (r' \+ 1\b', ''), (r' - 1\b', ''), (r'(?<=[\w\)\]] )\*(?= [\w\(])', '/'), (r'(?<=[\w\)\]] )/(?= [\w\(])', '*'),
         (r'(?<=[\w\)\]] )%(?= [\w\(])', '/'), (r'\+= ', '-= '), (r'-= ', '+= ')]
BOOL = [(r' && ', ' || '), (r' \|\| ', ' && '), (r'\btrue\b', 'false'), (r'\bfalse\b', 'true'),
        (r'\bif !', 'if '), (r'\bif (?=[a-z_\(])(?!let )', 'if !'), (r'\bwhile !', 'while ')]
CALLS = [(r'\.rev\(\)', ''), (r'\.min\(', '.max('), (r'\.max\(', '.min('), (r'\bsaturating_sub\(', 'saturating_add('),
         (r'\bchecked_mul\(', 'checked_add('), (r'\bchecked_add\(', 'checked_sub('), (r'\bis_some\(\)', 'is_none()'),
         (r'\bis_none\(\)', 'is_some()'), (r'\bis_empty\(\)', 'len() == 1'), (r'\bis_ok\(\)', 'is_err()'),
         (r'\bis_err\(\)', 'is_ok()'), (r'\.skip\(1\)', ''), (r'\bNeutral\b', 'Accept'), (r'\bOrdering::Less\b', 'Ordering::Greater'),
         (r'\.truncate\(true\)', '.truncate(false)'), (r'\.append\(true\)', '.append(false)'),
         (r'\bunwrap_or\(0\)', 'unwrap_or(1)'), (r'\bstarts_with\(', 'ends_with('), (r'\bends_with\(', 'starts_with('),
         (r'\.take\(\)', '.clone()'), (r'\beq_ignore_ascii_case\(', 'eq('), (r'\.trim\(\)', ''), (r'\.trim_end\(\)', ''),
         (r'\.trim_start\(\)', ''), (r'\bto_lowercase\(\)', 'to_string()'), (r'\bu64::MAX\b', 'u32::MAX as u64'),
         (r'\bi64::MAX\b', 'i32::MAX as i64'), (r'\bchar_indices\(\)', 'bytes().enumerate().map(|(i, b)| (i, b as char))'),
         (r'\bchars\(\)\.count\(\)', 'len()'), (r'\.len_utf8\(\)', '.len_utf16()')]
CONST = [(r'(?<![\w\.])0(?![\w\.])', '1'), (r'(?<![\w\.])1(?![\w\.])', '0'), (r'(?<![\w\.])1(?![\w\.])', '2'),
         (r'(?<![\w\.])1024(?![\w\.])', '1000'), (r'(?<![\w\.])60(?![\w\.])', '61'), (r'(?<![\w\.])24(?![\w\.])', '23'),
         (r'(?<![\w\.])12(?![\w\.])', '11'), (r'(?<![\w\.])7(?![\w\.])', '6')]
OPS = [('rel', REL), ('arith', ARITH), ('bool', BOOL), ('call', CALLS), ('const', CONST)]

STMT_DROP = re.compile(r'^\s*(self\.|[a-z_][\w\.]*\.|[a-z_]\w*\(|[A-Z]\w*::|\*?[a-z_][\w\.]*\s*[\+\-]?=[^=]|drop\(|let _ = |break;|continue;)')
SWALLOW = re.compile(r'^(\s*)([^=]*\))\?;\s*$')


def scan(path, text):
    """yield (line_no, op, new_line_or_None) for library code: not tests, not hooks, not comments/attributes."""
    lines = text.split('\n')
    out = []
    in_test = False
    skip_depth = None   # brace depth tracking for #[cfg(log4rs_verif)] / #[cfg(test)] items
    pending_skip = False
    depth = 0
    for i, line in enumerate(lines):
        s = line.strip()
        if re.match(r'#\[cfg\((test|log4rs_verif|all\(test|windows|target_os = "windows")', s):
            pending_skip = True
            continue
        opens, closes = line.count('{'), line.count('}')
        if pending_skip and skip_depth is None:
            if s.startswith('#['):
                continue
            # the item that the cfg applies to starts here
            if opens > closes:
                skip_depth = depth
                depth += opens - closes
                pending_skip = False
                continue
            depth += opens - closes
            pending_skip = False   # single-line item (use ...; / let ...;)
            continue
        depth_before = depth
        depth += opens - closes
        if skip_depth is not None:
            if depth <= skip_depth:
                skip_depth = None
            continue
        if not s or s.startswith('//') or s.startswith('#[') or s.startswith('#!') or s.startswith('use ') or s.startswith('pub use '):
            continue
        if 'debug_assert' in s or s.startswith('trace!') or s.startswith('assert'):
            continue
        code = line.split(' //')[0]
        # strip string literals for matching purposes (keep positions by masking)
        masked = re.sub(r'"(\\.|[^"\\])*"', lambda m: '"' + '_' * (len(m.group(0)) - 2) + '"', code)
        masked = re.sub(r"'(\\.|[^'\\])'", lambda m: "'_'" if len(m.group(0)) == 3 else m.group(0), masked)
        for opname, table in OPS:
            for pat, rep in table:
                for m in re.finditer(pat, masked):
                    new = code[:m.start()] + rep + code[m.end():]
                    if new != code:
                        out.append((i + 1, '%s:%s->%s@%d' % (opname, m.group(0).strip() or pat, rep.strip(), m.start()), new))
        if STMT_DROP.match(line) and s.endswith(';') and not s.startswith('let ') and opens == closes and depth_before > 0 \
                and line.count('(') == line.count(')'):
            out.append((i + 1, 'drop-stmt', line[:len(line) - len(line.lstrip())] + '();' if False else ''))
        m = SWALLOW.match(code)
        if m and opens == closes:
            out.append((i + 1, 'swallow-err', '%slet _ = %s;' % (m.group(1), m.group(2).strip())))
        if re.match(r'^\s*return\b.*;$', code) and depth_before > 1 and 'Err' not in code:
            pass
    return out


def enumerate_mutants():
    muts = []
    for root, _, files in os.walk(os.path.join(REPO, 'src')):
        for f in sorted(files):
            if not f.endswith('.rs'):
                continue
            full = os.path.join(root, f)
            rel = os.path.relpath(full, REPO)
            text = open(full, encoding='utf-8').read()
            for (ln, op, new) in scan(rel, text):
                mid = hashlib.sha1(('%s:%d:%s:%s' % (rel, ln, op, new)).encode()).hexdigest()[:10]
                muts.append({'id': mid, 'file': rel, 'line': ln, 'op': op, 'new': new})
    muts.sort(key=lambda m: (m['file'], m['line'], m['op']))
    return muts


# ---------------------------------------------------------------- lanes

def sh(cmd, cwd, timeout, env=None):
    e = dict(os.environ)
    e['CARGO_NET_OFFLINE'] = 'true'
    if env:
        e.update(env)
    try:
        p = subprocess.run(cmd, cwd=cwd, shell=True, stdout=subprocess.PIPE, stderr=subprocess.STDOUT, timeout=timeout, env=e,
                           start_new_session=True)
        return p.returncode, p.stdout.decode('utf-8', 'replace')
    except subprocess.TimeoutExpired as ex:
        subprocess.run('pkill -9 -f %s || true' % cwd, shell=True)
        return 124, (ex.stdout or b'').decode('utf-8', 'replace')


def setup_lane(k):
    lane = os.path.join(TMP, 'lane%d' % k)
    if os.path.exists(lane):
        shutil.rmtree(lane)
    os.makedirs(lane)
    subprocess.check_call(['git', 'clone', '-q', REPO, lane + '/repo'])
    subprocess.check_call('rsync -a --exclude .git --exclude fuzz/target --exclude fuzz/corpus --exclude "replays/*/fail-*" %s/ %s/verif/' % (VERIF, lane), shell=True)
    for f in ('harness/Cargo.toml', 'fuzz/Cargo.toml'):
        p = os.path.join(lane, 'verif', f)
        t = open(p).read().replace('path = "/repo"', 'path = "%s/repo"' % lane)
        open(p, 'w').write(t)
    if os.path.isdir(os.path.join(REPO, 'target')):
        subprocess.call('rsync -a %s/target/ %s/repo/target/' % (REPO, lane), shell=True)
    return lane


def test_result(out):
    m = re.search(r'test result: \w+\. (\d+) passed; (\d+) failed', out)
    return (int(m.group(1)), int(m.group(2))) if m else None


def run_mutant(lane, m, widen, baseline):
    repo = lane + '/repo'
    path = os.path.join(repo, m['file'])
    orig = open(path, encoding='utf-8').read()
    lines = orig.split('\n')
    old = lines[m['line'] - 1]
    if m['new'] == '':
        lines[m['line'] - 1] = ''
    else:
        tail = old[len(old.split(' //')[0]):]
        lines[m['line'] - 1] = m['new'] + tail
    res = dict(m)
    res['old'] = old
    t0 = time.time()
    try:
        open(path, 'w', encoding='utf-8').write('\n'.join(lines))
        code, out = sh('cargo test --offline --lib 2>&1 | tail -80', repo, 900)
        tr = test_result(out)
        if tr is None:
            res['verdict'] = 'uncompilable' if 'error' in out else 'test-run-trouble'
            return res
        if tr != baseline:
            res['verdict'] = 'killed-by-repo-tests'
            res['tests'] = tr
            return res
        code, out = sh('cargo test --offline --test color_control 2>&1 | tail -20', repo, 600)
        tr2 = test_result(out)
        if tr2 is None or tr2[1] != 0:
            res['verdict'] = 'killed-by-repo-tests'
            return res
        ids = list(checks_for(m['file']))
        caught, missed, errs = [], [], []

        def run_ids(idlist):
            for cid in idlist:
                code, out = sh('./check %s quick' % cid, lane + '/verif', 600)
                if code == 1 and 'VIOLATION' in out:
                    sig = re.search(r'sig=(\S+)', out)
                    caught.append('%s:%s' % (cid, sig.group(1) if sig else '?'))
                    return True
                elif code == 0:
                    missed.append(cid)
                else:
                    errs.append('%s:exit%d:%s' % (cid, code, out.strip().split('\n')[-1][:160]))
                    if 'build failed' in out:
                        return True
            return False
        done = run_ids(ids)
        if not done and widen:
            run_ids([c for c in ALL if c not in ids])
        res['caught'] = caught
        res['missed'] = missed
        res['errors'] = errs
        res['verdict'] = 'caught' if caught else ('harness-build-failed' if any('build failed' in e or 'exit2' in e for e in errs) and not missed else ('error' if errs and not missed else 'survived'))
        return res
    finally:
        open(path, 'w', encoding='utf-8').write(orig)
        subprocess.call('rm -f %s/verif/replays/*/fail-*.json' % lane, shell=True)
        res['wall_s'] = round(time.time() - t0, 1)


def lane_worker(k, q, outpath, lock, widen):
    lane = setup_lane(k)
    code, out = sh('cargo test --offline --lib 2>&1 | tail -40', lane + '/repo', 1800)
    baseline = test_result(out)
    if baseline is None:
        print('lane %d: baseline test run failed\n%s' % (k, out), flush=True)
        return
    code, out = sh('./check --build', lane + '/verif', 3600)
    if code != 0:
        print('lane %d: harness build failed\n%s' % (k, out[-2000:]), flush=True)
        return
    print('lane %d ready, baseline %s' % (k, baseline), flush=True)
    while True:
        try:
            m = q.get_nowait()
        except queue.Empty:
            break
        r = run_mutant(lane, m, widen, baseline)
        with lock:
            with open(outpath, 'a') as f:
                f.write(json.dumps(r, ensure_ascii=False) + '\n')
        print('lane %d %s %s:%d %s -> %s %s (%.0fs)' % (k, r['id'], r['file'], r['line'], r['op'], r['verdict'], ','.join(r.get('caught', [])), r.get('wall_s', 0)), flush=True)
    shutil.rmtree(lane, ignore_errors=True)


def main():
    ap = argparse.ArgumentParser()
    ap.add_argument('cmd', choices=['list', 'run', 'summary'])
    ap.add_argument('file', nargs='?')
    ap.add_argument('--lanes', type=int, default=2)
    ap.add_argument('--out', default=os.path.join(VERIF, 'mutsweep', 'results.jsonl'))
    ap.add_argument('--only', default=None)
    ap.add_argument('--ops', default=None)
    ap.add_argument('--limit', type=int, default=0)
    ap.add_argument('--stride', type=int, default=1, help='take every n-th mutant (after filtering), offset --phase')
    ap.add_argument('--phase', type=int, default=0)
    ap.add_argument('--widen', action='store_true')
    ap.add_argument('--retry', default=None, help='comma list of verdicts to run again (default: none)')
    a = ap.parse_args()
    if a.cmd == 'summary':
        rows = [json.loads(l) for l in open(a.file or a.out)]
        latest = {}
        for r in rows:
            latest[r['id']] = r
        rows = list(latest.values())
        for r in rows:
            # a mutant that makes a check run into its time limit or a watchdog is neither caught nor survived: the
            # checks report a hang as infrastructure trouble (exit 2), never as a violation
            if r['verdict'] in ('survived', 'error') and any('exit124' in e or 'hung beyond' in e for e in r.get('errors', [])):
                r['verdict'] = 'hang(check ran into its time limit)'
        from collections import Counter
        c = Counter(r['verdict'] for r in rows)
        print('mutants judged: %d' % len(rows))
        for k, v in c.most_common():
            print('  %-24s %d' % (k, v))
        elig = [r for r in rows if r['verdict'] in ('caught', 'survived')]
        print('eligible (compile + repo tests pass): %d, caught %d (%.1f%%)' % (len(elig), sum(r['verdict'] == 'caught' for r in elig), 100.0 * sum(r['verdict'] == 'caught' for r in elig) / max(1, len(elig))))
        byfile = {}
        for r in elig:
            d = byfile.setdefault(r['file'], [0, 0])
            d[0] += 1
            d[1] += r['verdict'] == 'caught'
        for f, (n, cgt) in sorted(byfile.items()):
            print('  %-70s %3d/%3d' % (f, cgt, n))
        print('survivors:')
        for r in rows:
            if r['verdict'] == 'survived':
                print('  %s %s:%d %s | %s' % (r['id'], r['file'], r['line'], r['op'], r['old'].strip()[:110]))
        return
    muts = enumerate_mutants()
    if a.only:
        muts = [m for m in muts if re.search(a.only, m['file'])]
    if a.ops:
        muts = [m for m in muts if re.search(a.ops, m['op'])]
    if a.cmd == 'list':
        for m in muts:
            print(m['id'], '%s:%d' % (m['file'], m['line']), m['op'], '|', m['new'].strip()[:100])
        print(len(muts), 'mutants', file=sys.stderr)
        return
    os.makedirs(os.path.dirname(a.out), exist_ok=True)
    done = {}
    if os.path.exists(a.out):
        for l in open(a.out):
            r = json.loads(l)
            done[r['id']] = r['verdict']
    retry = set((a.retry or '').split(','))
    muts = muts[a.phase::a.stride]
    todo = [m for m in muts if m['id'] not in done or done[m['id']] in retry]
    if a.limit:
        todo = todo[:a.limit]
    print('%d mutants to run (%d already judged)' % (len(todo), len(done)), flush=True)
    q = queue.Queue()
    # interleave files so that lanes do not all rebuild the same dependency chain and partial results are spread
    for m in sorted(todo, key=lambda m: m['id']):   # id = hash: a fixed shuffle, so partial results are spread over all files
        q.put(m)
    lock = threading.Lock()
    ts = [threading.Thread(target=lane_worker, args=(k, q, a.out, lock, a.widen)) for k in range(a.lanes)]
    for t in ts:
        t.start()
    for t in ts:
        t.join()


if __name__ == '__main__':
    main()
