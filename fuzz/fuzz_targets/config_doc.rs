#![no_main]
// C14 ("loading never panics"): the bytes are a YAML document (seeded with the repository's sample
// configurations); parsing it as a RawConfig and deserialising every trigger / roller / encoder /
// filter section it contains must never unwind. No appender is built, so no file is touched.
use libfuzzer_sys::fuzz_target;
include!("common.rs");

fn walk(v: &serde_yaml::Value, out: &mut Vec<serde_yaml::Value>) {
    match v {
        serde_yaml::Value::Mapping(m) => {
            if m.contains_key("kind") {
                out.push(v.clone());
            }
            for (_, c) in m {
                walk(c, out);
            }
        }
        serde_yaml::Value::Sequence(s) => {
            for c in s {
                walk(c, out);
            }
        }
        _ => {}
    }
}

fuzz_target!(|data: &[u8]| {
    prepare();
    let Ok(text) = std::str::from_utf8(data) else { return };
    let r = lv::engine::catch(|| {
        let _ = serde_yaml::from_str::<log4rs::config::RawConfig>(text);
        if let Ok(v) = serde_yaml::from_str::<serde_yaml::Value>(text) {
            let mut sections = vec![];
            walk(&v, &mut sections);
            let d = log4rs::config::Deserializers::default();
            for s in sections.iter().take(16) {
                let Some(kind) = s.get("kind").and_then(|k| k.as_str()) else { continue };
                // console/file/rolling_file would open files: only file-free component kinds
                if matches!(kind, "file" | "rolling_file" | "console") {
                    continue;
                }
                let mut m = s.clone();
                if let serde_yaml::Value::Mapping(mm) = &mut m {
                    mm.remove("kind");
                }
                let Ok(val) = serde_yaml::from_value::<serde_value_shim::Value>(m) else { continue };
                let _ = d.deserialize::<dyn log4rs::append::rolling_file::policy::compound::trigger::Trigger>(kind, val.0.clone());
                let _ = d.deserialize::<dyn log4rs::append::rolling_file::policy::compound::roll::Roll>(kind, val.0.clone());
                let _ = d.deserialize::<dyn log4rs::encode::Encode>(kind, val.0.clone());
                let _ = d.deserialize::<dyn log4rs::filter::Filter>(kind, val.0.clone());
            }
        }
    });
    if let Err(p) = r {
        report("C14", Err(lv::engine::Failure { sig: "C14:panic:load".into(), msg: format!("loading panicked: {}\n{}", p, text) }));
    }
});

mod serde_value_shim {
    // Deserializers::deserialize takes a serde_value::Value; go through serde to obtain one.
    pub struct Value(pub serde_value::Value);
    impl<'de> serde::Deserialize<'de> for Value {
        fn deserialize<D: serde::Deserializer<'de>>(d: D) -> Result<Self, D::Error> {
            serde_value::Value::deserialize(d).map(Value)
        }
    }
}
