#![no_main]
// C12: bytes -> record (strings cut from the raw input: arbitrary Unicode incl. controls, quotes, backslashes),
// MDC map, sink script (short and interrupted writes), constructor route; oracle = the strict round-trip check of
// the property-based tier (one line, strict RFC 8259, every field equal, absent fields omitted).
use arbitrary::Unstructured;
use libfuzzer_sys::fuzz_target;
use lv::pat::Rec;
include!("common.rs");

fn text(u: &mut Unstructured) -> String {
    let n = u.int_in_range(0..=24usize).unwrap_or(0);
    let b = u.bytes(n.min(u.len())).unwrap_or(&[]);
    String::from_utf8_lossy(b).to_string()
}

fuzz_target!(|data: &[u8]| {
    prepare();
    let mut u = Unstructured::new(data);
    let level = u.int_in_range(0..=4u8).unwrap_or(0);
    let ctor = u.int_in_range(0..=2u8).unwrap_or(0);
    let script: Vec<u8> = (0..u.int_in_range(0..=4usize).unwrap_or(0)).map(|_| *u.choose(&[0u8, 1, 2, 3, 4, 255]).unwrap_or(&0)).collect();
    let line = if u.ratio(1, 2).unwrap_or(false) { Some(u.arbitrary::<u32>().unwrap_or(0)) } else { None };
    let prior_failure = if u.ratio(1, 4).unwrap_or(false) { Some(u.int_in_range(0..=200usize).unwrap_or(0)) } else { None };
    let opt = |u: &mut Unstructured| if u.ratio(1, 2).unwrap_or(false) { Some(text(u)) } else { None };
    let module = opt(&mut u);
    let file = opt(&mut u);
    let target = text(&mut u);
    let mdc: Vec<(String, String)> = (0..u.int_in_range(0..=3usize).unwrap_or(0)).map(|_| (text(&mut u), text(&mut u))).collect();
    let thread = text(&mut u).replace('\0', "0");
    let msg: Vec<String> = (0..u.int_in_range(1..=3usize).unwrap_or(1)).map(|_| text(&mut u)).collect();
    let case = lv::c12::Case { rec: Rec { level, msg, target, module, file, line, mdc }, thread: Some(thread), script, unnamed_thread: false, prior_failure, ctor, prior_shifted_mdc: u.ratio(1, 3).unwrap_or(false), late_mdc: u.ratio(1, 3).unwrap_or(false) };
    report("C12", lv::c12::check(&case, &mut lv::engine::Obs::default()));
});
