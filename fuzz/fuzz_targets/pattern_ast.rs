#![no_main]
// C09/C10: bytes -> pattern AST (hand-decoded through arbitrary::Unstructured) -> printed pattern;
// oracle = reference renderer computed from the AST (the check of the property-based tier).
use arbitrary::Unstructured;
use libfuzzer_sys::fuzz_target;
use lv::pat::*;
include!("common.rs");

const TEXT: [&str; 16] = ["a", "é", "漢", "😀", "{", "}", "(", ")", "\\", ":", " ", "x{", "\u{301}", "%", "\n", "ab"];

fn text(u: &mut Unstructured) -> String {
    let n = u.int_in_range(0..=4).unwrap_or(0);
    (0..n).map(|_| *u.choose(&TEXT).unwrap_or(&"a")).collect()
}

fn spec(u: &mut Unstructured) -> Option<Spec> {
    if !u.ratio(2, 3).unwrap_or(false) {
        return None;
    }
    let align = if u.ratio(1, 2).unwrap_or(false) { Some(if u.ratio(1, 2).unwrap_or(false) { Align::Left } else { Align::Right }) } else { None };
    let fill = if align.is_some() && u.ratio(1, 2).unwrap_or(false) { Some(*u.choose(&['*', 'é', '😀', '}', '<', '0', ':', '(']).unwrap_or(&'*')) } else { None };
    let mut min = if u.ratio(2, 3).unwrap_or(false) { Some(u.int_in_range(0..=12usize).unwrap_or(0)) } else { None };
    let mut max = if u.ratio(1, 2).unwrap_or(false) { Some(u.int_in_range(0..=12usize).unwrap_or(0)) } else { None };
    if let (Some(a), Some(b)) = (min, max) {
        if a > b {
            min = Some(b);
            max = Some(a);
        }
    }
    Some(Spec { fill, align, min, max })
}

fn nodes(u: &mut Unstructured, depth: usize) -> Pat {
    let n = u.int_in_range(0..=4).unwrap_or(0);
    let mut out: Pat = vec![];
    for _ in 0..n {
        let k = u.int_in_range(0..=17u8).unwrap_or(0);
        let long = u.ratio(1, 2).unwrap_or(false);
        let node = match k {
            0 | 1 => {
                let t = text(u);
                if t.is_empty() { continue; }
                Node::Lit { text: t, esc: u.arbitrary().unwrap_or(0) }
            }
            2 => Node::Fmt { kind: Kind::Level, long, spec: spec(u) },
            3 | 4 => Node::Fmt { kind: Kind::Message, long, spec: spec(u) },
            5 => Node::Fmt { kind: Kind::Target, long, spec: spec(u) },
            6 => Node::Fmt { kind: Kind::Module, long, spec: spec(u) },
            7 => Node::Fmt { kind: Kind::File, long, spec: spec(u) },
            8 => Node::Fmt { kind: Kind::Line, long, spec: spec(u) },
            9 => Node::Fmt { kind: Kind::Newline, long, spec: spec(u) },
            10 => {
                let key = { let t = text(u); if t.is_empty() { "k".to_string() } else { t } };
                let default = if u.ratio(1, 2).unwrap_or(false) { let t = text(u); if t.is_empty() { None } else { Some(t) } } else { None };
                Node::Fmt { kind: Kind::Mdc { key, default }, long, spec: spec(u) }
            }
            // the thread formatter is left out: under libFuzzer's C main the Rust main thread has no name
            11 => Node::Fmt { kind: Kind::Tid, long, spec: spec(u) },
            12 if depth < 4 => Node::Fmt { kind: Kind::Group(nodes(u, depth + 1)), long, spec: spec(u) },
            13 if depth < 4 => Node::Fmt { kind: Kind::Highlight(nodes(u, depth + 1)), long, spec: spec(u) },
            14 if depth < 4 => Node::Fmt { kind: Kind::Debug(nodes(u, depth + 1)), long, spec: spec(u) },
            15 if depth < 4 => Node::Fmt { kind: Kind::Release(nodes(u, depth + 1)), long, spec: spec(u) },
            16 => Node::Fmt { kind: Kind::ThreadId, long, spec: spec(u) },
            _ => Node::Fmt { kind: Kind::Pid, long, spec: spec(u) },
        };
        match (out.last_mut(), &node) {
            (Some(Node::Lit { text, .. }), Node::Lit { text: t2, .. }) => text.push_str(t2),
            _ => out.push(node),
        }
    }
    out
}

fuzz_target!(|data: &[u8]| {
    prepare();
    let mut u = Unstructured::new(data);
    let pat = nodes(&mut u, 0);
    let msg: Vec<String> = (0..u.int_in_range(1..=3).unwrap_or(1)).map(|_| text(&mut u)).collect();
    let rec = Rec {
        level: u.int_in_range(0..=4u8).unwrap_or(0),
        msg,
        target: text(&mut u),
        module: if u.ratio(1, 2).unwrap_or(false) { Some(text(&mut u)) } else { None },
        file: if u.ratio(1, 2).unwrap_or(false) { Some(text(&mut u)) } else { None },
        line: if u.ratio(1, 2).unwrap_or(false) { Some(u.arbitrary().unwrap_or(1)) } else { None },
        mdc: vec![("k".into(), text(&mut u))],
    };
    let script: Vec<u8> = (0..u.int_in_range(0..=4).unwrap_or(0)).map(|_| u.int_in_range(0..=4u8).unwrap_or(0)).collect();
    let case = lv::c09::Case { pat, recs: vec![rec], script, thread: None, prior_unwind: None };
    report("C09", lv::c09::check(&case, &mut lv::engine::Obs::default()));
});
