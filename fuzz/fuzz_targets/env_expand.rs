#![no_main]
// C19: bytes choose tokens and the set/unset state + value of each pool variable; oracle = single-pass reference.
use arbitrary::Unstructured;
use libfuzzer_sys::fuzz_target;
include!("common.rs");

const TOKENS: [&str; 36] = [
    "a", "log", "é", " ", "-", ".", "_", "$", "{", "}", "$ENV", "$ENV{", "ENV{", "$$", "/", "$ENV{LvA}", "$ENV{LvAB}", "$ENV{_lvx}", "$ENV{lv.1}", "$ENV{élv1}", "$ENV{LvZ9}",
    "$ENV{Lv\u{663}x}", "$ENV{Lv\u{b2}}", "$ENV{\u{2167}Lv}", "$ENV{\u{663}}",
    "$ENV{Q}", "$ENV{z}",
    "$ENV{LvNEVERSET}", "$ENV{}", "$ENV{.a}", "$ENV{Lv-A}", "$ENV{Lv A}", "$ENV{Lv$A}", "$ENV{LvA", "LvA}", "}}",
];
const VALUES: [&str; 10] = ["val", "", "{", "}", "ENV{LvAB}", "LvAB}", "sub/dir", "ü", "x y", "ENV{LvA}{"];

fuzz_target!(|data: &[u8]| {
    prepare();
    let mut u = Unstructured::new(data);
    let vars: Vec<Option<String>> = (0..lv::c19::NAMES.len()).map(|_| if u.ratio(2, 3).unwrap_or(false) { Some(u.choose(&VALUES).unwrap_or(&"val").to_string()) } else { None }).collect();
    let n = u.int_in_range(0..=12).unwrap_or(0);
    let path: String = (0..n).map(|_| *u.choose(&TOKENS).unwrap_or(&"a")).collect();
    let case = lv::c19::Case { path, vars };
    report("C19", lv::c19::check_bulk(&case, &mut lv::engine::Obs::default()));
});
