#![no_main]
// C20: bytes -> structured literal (digits, decoration, whitespace, unit, carrier); oracle = u128 reference.
use arbitrary::Unstructured;
use libfuzzer_sys::fuzz_target;
use lv::c20::*;
include!("common.rs");

const UNITS: [&str; 30] = ["", "b", "kb", "mb", "gb", "tb", "kib", "mib", "gib", "tib", "KB", "Mb", "GiB", "second", "seconds", "minute", "minutes", "hour", "hours", "day", "days", "week", "weeks", "month", "months", "year", "years", "Hours", "kbb", "secondss"];

fuzz_target!(|data: &[u8]| {
    prepare();
    let mut u = Unstructured::new(data);
    let nd = u.int_in_range(1..=30usize).unwrap_or(1);
    let mut digits: String = (0..nd).map(|_| char::from(b'0' + u.int_in_range(0..=9u8).unwrap_or(0))).collect();
    if digits.len() > 1 {
        digits = digits.trim_start_matches('0').to_string();
        if digits.is_empty() {
            digits = "0".into();
        }
    }
    let interval = u.ratio(1, 2).unwrap_or(false);
    let deco = match u.int_in_range(0..=9u8).unwrap_or(0) {
        0 => Deco::Minus,
        1 => Deco::Plus,
        2 => Deco::Fraction,
        3 => Deco::Exponent,
        4 => Deco::LeadingZeros,
        _ => Deco::None,
    };
    let unit = u.choose(&UNITS).unwrap_or(&"").to_string();
    let gap = if unit.is_empty() { "" } else { *u.choose(&["", " ", "  ", "\t"]).unwrap_or(&"") }.to_string();
    let carrier = if unit.is_empty() {
        u.choose(&[Carrier::YamlQuoted, Carrier::JsonString, Carrier::TomlString, Carrier::YamlScalar, Carrier::JsonScalar, Carrier::TomlScalar]).unwrap_or(&Carrier::YamlQuoted).clone()
    } else {
        u.choose(&[Carrier::YamlPlain, Carrier::YamlQuoted, Carrier::JsonString, Carrier::TomlString]).unwrap_or(&Carrier::YamlQuoted).clone()
    };
    let lit = Lit { interval, digits, deco, gap, unit, lead: String::new(), trail: String::new(), carrier };
    report("C20", check(&lit, &mut lv::engine::Obs::default()));
});
