#![no_main]
// C11: any pattern string is safe. The bytes are the pattern (lossy UTF-8); the oracle is the one of
// the soup part of the property-based check: no unwind at construction or encoding, valid UTF-8.
use libfuzzer_sys::fuzz_target;
include!("common.rs");

fuzz_target!(|data: &[u8]| {
    prepare();
    let s = String::from_utf8_lossy(data).to_string();
    let rec = lv::pat::Rec { level: (data.len() % 5) as u8, msg: vec!["héllo".into(), " wörld".into()], target: "a::b".into(), module: None, file: Some("f.rs".into()), line: Some(7), mdc: vec![("k".into(), "v".into())] };
    let case = lv::c11::Soup { s, rec };
    report("C11", lv::c11::check_soup(&case, &mut lv::engine::Obs::default()));
});
