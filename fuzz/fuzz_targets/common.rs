// Shared by the targets (included with include!): panic-hook replacement and failure reporting.
// libfuzzer-sys installs a panic hook that aborts the process, which defeats catch_unwind; the
// harness hook records the message and returns, so the in-target oracle can classify a panic.
fn prepare() {
    static ONCE: std::sync::Once = std::sync::Once::new();
    ONCE.call_once(|| {
        lv::engine::install_quiet_panic_hook();
        std::env::set_var("TZ", "<+0545>-5:45");
        std::env::set_var("LV_SET", "envdir");
        std::env::set_var("LV_BRACES", "b{}r");
        std::env::set_var("LV_SLASH", "bill/api");
    });
}

/// An oracle failure inside a fuzz target: print the VIOLATION details and abort, so that libFuzzer
/// keeps the input as a crash artifact (the saved input is the reproducible unit).
fn report(property: &str, r: lv::engine::CaseResult) {
    if let Err(f) = r {
        eprintln!("FUZZ-ORACLE-FAILURE property={} sig={} :: {}", property, f.sig, f.msg);
        std::process::abort();
    }
}
