#![no_main]
// C13 (and C01 through the probes): bytes -> builder inputs (appender names incl. duplicates and the empty name,
// logger names over letters and colons, references incl. dangling ones, levels, additive flags) and probe targets;
// oracle = the reference validity rule and valid-part model of the property-based tier.
use arbitrary::Unstructured;
use libfuzzer_sys::fuzz_target;
include!("common.rs");

const APPS: [&str; 7] = ["A0", "A1", "A2", "A3", "", " ", "é"];
const REFS: [&str; 9] = ["A0", "A1", "A2", "A3", "", " ", "é", "nope", "ghost"];
const PARTS: [&str; 12] = ["a", "b", "ab", "é", ":", "::", "::", ":::", "::::", "\u{43a}", "\u{13a}", "\u{a73a}"];

fn name(u: &mut Unstructured) -> String {
    let n = u.int_in_range(0..=6usize).unwrap_or(0);
    (0..n).map(|_| *u.choose(&PARTS).unwrap_or(&"a")).collect()
}

fuzz_target!(|data: &[u8]| {
    prepare();
    let mut u = Unstructured::new(data);
    let appenders: Vec<String> = (0..u.int_in_range(0..=6usize).unwrap_or(0)).map(|_| u.choose(&APPS).unwrap_or(&"A0").to_string()).collect();
    let refs = |u: &mut Unstructured| -> Vec<String> { (0..u.int_in_range(0..=3usize).unwrap_or(0)).map(|_| u.choose(&REFS).unwrap_or(&"A0").to_string()).collect() };
    let root_level = u.int_in_range(0..=5u8).unwrap_or(5);
    let root_refs = refs(&mut u);
    let mut loggers: Vec<lv::c13::RawLogger> = vec![];
    for _ in 0..u.int_in_range(0..=6usize).unwrap_or(0) {
        let dup = !loggers.is_empty() && u.ratio(1, 4).unwrap_or(false);
        let n = if dup { loggers[u.choose_index(loggers.len()).unwrap_or(0)].name.clone() } else { name(&mut u) };
        loggers.push(lv::c13::RawLogger { name: n, level: u.int_in_range(0..=5u8).unwrap_or(5), additive: u.ratio(2, 3).unwrap_or(true), refs: refs(&mut u) });
    }
    let mut targets: Vec<String> = vec!["zz".to_string()];
    for l in &loggers {
        if u.ratio(1, 2).unwrap_or(false) {
            targets.push(format!("{}::x", l.name));
            targets.push(l.name.clone());
        }
    }
    targets.push(name(&mut u));
    targets.truncate(5);
    let case = lv::c13::Case { appenders, root_level, root_refs, loggers, targets };
    report("C13", lv::c13::check(&case, &mut lv::engine::Obs::default()));
});
