//! C07 — fixed-window roller keeps the newest `count` files at base..base+count-1; delete roller.

use crate::engine::*;
use crate::ensure;
use crate::fsx::*;
use log4rs::append::rolling_file::policy::compound::roll::{delete::DeleteRoller, fixed_window::FixedWindowRoller, Roll};
use proptest::prelude::*;
use serde::{Deserialize, Serialize};
use std::path::{Path, PathBuf};

pub const PATTERNS: [&str; 19] = [
    // ".." after something that is not one plain directory: a variable worth two components, a symbolic link to a
    // directory elsewhere (`linkdir -> elsewhere/deep`) - the archive names are what the file system makes of them
    "$ENV{LV_SLASH}/../up.{}.log",
    "linkdir/../via.{}.log",
    "$ENV{LV_BRACES}.{}.log",
    "$ENV{LV_BRACES}/{}",
    "a.{}.log",
    "arch/{}/a.log",
    "a.{}.log.gz",
    "a.{}.zst",
    "d{}/f{}.log",
    "é{}.log",
    "sub dir/a.{}",
    "$ENV{LV_SET}/a.{}.log",
    "$ENV{LV_UNSET}.{}",
    "deep/er/x{}y.gz",
    "{}",
    "$ENV{LV_SET}{}/b.{}.zst",
    // the index is in the file name as written and in a directory component only once the variable is expanded
    "arch/{}.$ENV{LV_SLASH}.log",
    "$ENV{LV_SLASH}.{}",
    "x{}$ENV{LV_SLASH}/f.gz",
];

pub fn lookup(name: &str) -> Option<String> {
    match name {
        // (read from the environment: a case may change it between two rolls)
        "LV_SET" => std::env::var("LV_SET").ok(),
        "LV_SLASH" => Some("bill/api".to_string()),
        // a value that itself contains the index placeholder is inserted verbatim
        "LV_BRACES" => Some("b{}r".to_string()),
        _ => None,
    }
}

pub fn archive_name(pattern: &str, idx: u64) -> String {
    physical(&expand_ref(&pattern.replace("{}", &idx.to_string()), &lookup))
}

/// Where a relative name with `.` / `..` components leads in the harness's directory layout (`linkdir` is a symbolic
/// link to `elsewhere/deep`); names without such components are returned as they are.
pub fn physical(name: &str) -> String {
    if !name.split('/').any(|c| c == ".." || c == "." || c == "linkdir") {
        return name.to_string();
    }
    let mut stack: Vec<&str> = vec![];
    for c in name.split('/') {
        match c {
            "" | "." => {}
            ".." => {
                stack.pop();
            }
            "linkdir" if stack.is_empty() => stack = vec!["elsewhere", "deep"],
            c => stack.push(c),
        }
    }
    stack.join("/")
}

#[derive(Serialize, Deserialize, Debug, Clone)]
pub struct Case {
    pub delete_roller: bool,
    pub base: u32,
    pub count: u32,
    pub pattern: String,
    /// pre-existing archives: (index offset relative to base, may be negative or beyond the window; content)
    pub initial: Vec<(i64, Vec<u8>)>,
    pub bystanders: Vec<(String, Vec<u8>)>,
    pub bystander_dirs: Vec<String>,
    pub active: String,
    pub rolls: Vec<Vec<u8>>,
    /// the rolled file lives on another filesystem than the archives (rename fails with EXDEV: copy fallback)
    #[serde(default)]
    pub cross_device: bool,
    /// the first rolled file holds this many incompressible bytes (seed, length) instead of `rolls[0]`
    #[serde(default)]
    pub big: Option<(u64, u32)>,
    /// (background rotation build) temp-file look-alikes `<stem>.<unix seconds>` of the coming seconds lie around
    #[serde(default)]
    pub leftovers: bool,
    /// before these rolls (indices) somebody clears the archive directories away (logrotate-style cleanup, a
    /// remounted volume): the roller has to set them up again
    #[serde(default)]
    pub wipe_before: Vec<u8>,
    /// before this roll (index) the variable the pattern refers to gets another value: from then on the archive names
    /// are the ones the pattern resolves to NOW, and the archives under the earlier names are nobody's business
    #[serde(default)]
    pub env_switch_before: Option<u8>,
    /// the rolled file is a symbolic link (`current.log -> data/app-3.log`): the link is what gets archived (reading
    /// the archive gives the content), the file it points to is a bystander
    #[serde(default)]
    pub active_symlink: bool,
    /// the window is this wide instead (33-70 slots)
    #[serde(default)]
    pub wide: Option<u32>,
    /// bystanders whose names are the pattern with something that merely looks like an index: 007, +3, 03, "3 ", 0x3 ...
    #[serde(default)]
    pub lookalikes: bool,
    /// the roller is given the pattern as a RELATIVE path (the process's working directory is `cwd-a` below the case
    /// directory); with Some(k) the process changes its working directory to `cwd-b` before roll k: a relative name
    /// means what it means where the process is when the name is used
    #[serde(default)]
    pub relative: Option<Option<u8>>,
    /// before this roll (index) the roller is asked to roll something that is not there (kind 0: no file at the path) or
    /// not a file (kind 1: a non-empty directory): whether it reports an error or shrugs, no archive may be lost over it
    #[serde(default)]
    pub futile_roll_before: Option<(u8, u8)>,
}

/// `\xHH` escapes in a generated name stand for raw bytes (file names that are not valid UTF-8)
pub fn os_path(s: &str) -> PathBuf {
    use std::os::unix::ffi::OsStringExt;
    let b = s.as_bytes();
    let mut out = vec![];
    let mut i = 0;
    while i < b.len() {
        if b[i] == b'\\' && i + 3 < b.len() && b[i + 1] == b'x' {
            out.push(u8::from_str_radix(&s[i + 2..i + 4], 16).unwrap());
            i += 4;
        } else {
            out.push(b[i]);
            i += 1;
        }
    }
    PathBuf::from(std::ffi::OsString::from_vec(out))
}

pub fn incompressible(seed: u64, len: usize) -> Vec<u8> {
    let mut x = seed | 1;
    (0..len)
        .map(|_| {
            x ^= x << 13;
            x ^= x >> 7;
            x ^= x << 17;
            (x >> 24) as u8
        })
        .collect()
}

fn content() -> impl Strategy<Value = Vec<u8>> {
    prop_oneof![
        1 => Just(vec![]),
        5 => prop::collection::vec(any::<u8>(), 1..=40),
        1 => (any::<u8>(), 9_000usize..12_000).prop_map(|(b, n)| (0..n).map(|i| b.wrapping_add((i % 251) as u8)).collect()),
    ]
}

pub fn strategy() -> impl Strategy<Value = Case> {
    (
        prop::bool::weighted(0.1),
        0u32..=6,
        prop_oneof![4 => Just(0u8), 2 => Just(1), 1 => Just(2), 1 => Just(3), 1 => Just(4), 1 => Just(5), 1 => Just(6)],
        any::<u16>(),
        0u8..5,
        prop::collection::vec((any::<u16>(), content()), 0..=6),
        prop::collection::vec((any::<u16>(), content()), 0..=3),
        prop::collection::vec(content(), 1..=10),
        any::<u16>(),
        (prop::bool::weighted(0.2), prop::option::weighted(0.08, (any::<u64>(), 70_000u32..400_000)), prop::bool::weighted(0.3), prop_oneof![3 => Just(vec![]), 1 => prop::collection::vec(1u8..8, 1..=2)], prop::option::weighted(0.3, 1u8..6), prop::bool::weighted(0.2), prop::option::weighted(0.1, 33u32..=70), prop::bool::weighted(0.3), prop::option::weighted(0.15, prop::option::weighted(0.6, 1u8..6)), prop::option::weighted(0.25, (0u8..6, 0u8..2))),
    )
        .prop_map(|(delete_roller, count, base_kind, pat, init_kind, init, by, rolls, act, (cross_device, big, leftovers, wipe_before, env_switch_before, active_symlink, wide, lookalikes, relative, futile_roll_before))| {
            let count = wide.unwrap_or(count);
            let base: u32 = match base_kind {
                0 => 0,
                1 => 1,
                2 => 3,
                3 => 9,
                4 => 99,
                5 => u32::MAX - count,                     // base+count representable
                _ => (u32::MAX - count).saturating_add(1), // all indices representable, base+count is not
            };
            let pattern = pick(&PATTERNS[..], pat).to_string();
            let c = count as i64;
            let mut initial: Vec<(i64, Vec<u8>)> = vec![];
            match init_kind {
                0 => {}
                1 => {
                    // contiguous prefix of the window (what the roller itself produces)
                    let k = if c == 0 { 0 } else { (init.len() as i64).min(c) };
                    for j in 0..k {
                        initial.push((j, init[j as usize].1.clone()));
                    }
                }
                2 => {
                    // gaps inside the window
                    for (o, b) in &init {
                        let off = if c == 0 { 0 } else { (*o as i64 * c) >> 16 };
                        if !initial.iter().any(|(x, _)| *x == off) {
                            initial.push((off, b.clone()));
                        }
                    }
                }
                _ => {
                    // archives outside the window (below base, at and beyond base+count) next to a prefix
                    for (n, (o, b)) in init.iter().enumerate() {
                        let off = match n % 3 {
                            0 => -1 - ((*o as i64) % 3),
                            1 => c + ((*o as i64) % 4),
                            _ => (n as i64 / 3).min((c - 1).max(0)),
                        };
                        if !initial.iter().any(|(x, _)| *x == off) && (base as i64 + off) >= 0 && (base as i64 + off) <= u32::MAX as i64 {
                            initial.push((off, b.clone()));
                        }
                    }
                    if c == 0 {
                        initial.retain(|(o, _)| *o != 0);
                    }
                }
            }
            let names = ["other.txt", "a.log.bak", "keep/inner.txt", "a.x.log", "arch/readme", "envdir/zz"];
            let bystanders = by.iter().map(|(i, b)| (pick(&names[..], *i).to_string(), b.clone())).collect();
            let actives = ["active.log", "logs/cur.log", "a.log", "active.log", "caf\\xE9.log", "d\\xFFir/cur.log"];
            Case {
                delete_roller,
                base,
                count,
                pattern,
                initial,
                bystanders,
                bystander_dirs: vec!["emptydir".into()],
                active: pick(&actives[..], act).to_string(),
                rolls,
                cross_device,
                big,
                leftovers,
                wipe_before,
                env_switch_before,
                active_symlink,
                wide,
                lookalikes,
                relative,
                futile_roll_before,
            }
        })
}

fn write_file(p: &Path, b: &[u8]) {
    if let Some(parent) = p.parent() {
        std::fs::create_dir_all(parent).unwrap();
    }
    std::fs::write(p, b).unwrap();
}

pub fn check(tmp: &Path, case: &Case, obs: &mut Obs) -> CaseResult {
    let dir = scratch(tmp, "c07");
    std::env::set_var("LV_SET", "envdir");
    let r = check_in(&dir, case, obs);
    let _ = std::env::set_current_dir("/");
    std::env::set_var("LV_SET", "envdir");
    if case.cross_device {
        if let Some(a) = other_fs_dir(&dir) {
            let _ = std::fs::remove_dir_all(a);
        }
    }
    let _ = std::fs::remove_dir_all(&dir);
    r
}

fn check_in(dir: &Path, case: &Case, obs: &mut Obs) -> CaseResult {
    // (a pattern that leaves the working directory through a link is kept absolute)
    let relative = case.relative.is_some() && !case.pattern.contains("linkdir") && !case.delete_roller;
    let cwd_prefix = std::cell::Cell::new("");
    if relative {
        std::fs::create_dir_all(dir.join("cwd-a")).unwrap();
        std::fs::create_dir_all(dir.join("cwd-b")).unwrap();
        std::env::set_current_dir(dir.join("cwd-a")).unwrap();
        cwd_prefix.set("cwd-a");
    }
    let pattern_abs = if relative { case.pattern.clone() } else { format!("{}/{}", dir.display(), case.pattern) };
    let name = |off: i64| -> String {
        let n = archive_name(&case.pattern, (case.base as i64 + off) as u64);
        if cwd_prefix.get().is_empty() {
            n
        } else {
            format!("{}/{}", cwd_prefix.get(), n)
        }
    };
    let c = case.count as i64;
    if case.pattern.contains("linkdir") {
        std::fs::create_dir_all(dir.join("elsewhere/deep")).unwrap();
        write_file(&dir.join("elsewhere/deep/resident.txt"), b"lives here");
        std::os::unix::fs::symlink("elsewhere/deep", dir.join("linkdir")).unwrap();
    }
    // initial state (archives whose names collide through a pattern without effect are skipped)
    let mut initial: Vec<(i64, Vec<u8>)> = vec![];
    for (off, b) in &case.initial {
        let n = name(*off);
        if initial.iter().any(|(o, _)| name(*o) == n) {
            continue;
        }
        // stored bytes: archives of a compressing pattern are compressed files in real life; raw bytes are
        // fine for shifting (a rename), so arbitrary content is used
        write_file(&dir.join(&n), b);
        initial.push((*off, b.clone()));
    }
    // the key under which snapshots list the rolled file
    let active_key = os_path(&case.active).to_string_lossy().to_string();
    let mut protected: Vec<String> = vec![];
    for (n, b) in &case.bystanders {
        let clash = (-4..c + 8).any(|o| (case.base as i64 + o) >= 0 && name(o) == *n) || *n == active_key;
        if clash || dir.join(n).exists() {
            continue;
        }
        write_file(&dir.join(n), b);
        protected.push(n.clone());
    }
    if case.lookalikes && !case.delete_roller {
        for (k, s) in ["007", "+3", "03", "3 ", " 3", "0x3", "1e1", "\u{663}", "-1", "3.0"].iter().enumerate() {
            let n = physical(&expand_ref(&case.pattern.replace("{}", s), &lookup));
            let clash = (-4..c + 8).any(|o| (case.base as i64 + o) >= 0 && name(o) == n) || n == active_key || n.starts_with('/');
            if clash || std::fs::symlink_metadata(dir.join(&n)).is_ok() || dir.join(&n).parent().map_or(false, |p| p.is_file()) {
                continue;
            }
            write_file(&dir.join(&n), format!("look-alike #{}", k).as_bytes());
            protected.push(n);
        }
    }
    if case.pattern.contains("{}/") && !case.delete_roller && !case.pattern.contains("linkdir") {
        // the index sits in a directory component: the slot directories are shared with somebody else's files (a
        // second appender with the same layout, `arch/{}/a.log` next to `arch/{}/b.log`) - bystanders like any other
        for o in -1..c + 2 {
            if (case.base as i64 + o) < 0 || (case.base as i64 + o) > u32::MAX as i64 {
                continue;
            }
            let slot = name(o);
            let Some((parent, _)) = slot.rsplit_once('/') else { continue };
            let n = format!("{}/neighbour-of-another-appender.log", parent);
            let clash = (-4..c + 8).any(|o| (case.base as i64 + o) >= 0 && name(o) == n) || n == active_key || n.starts_with('/');
            if clash || std::fs::symlink_metadata(dir.join(&n)).is_ok() || dir.join(parent).is_file() || std::fs::symlink_metadata(dir.join(parent)).map_or(false, |m| m.file_type().is_symlink()) {
                continue;
            }
            write_file(&dir.join(&n), format!("neighbour at offset {}", o).as_bytes());
            protected.push(n);
        }
        obs.class("neighbours-inside-the-slot-directories");
    }
    for d in &case.bystander_dirs {
        std::fs::create_dir_all(dir.join(d)).unwrap();
    }

    let roller: Box<dyn Roll> = if case.delete_roller {
        Box::new(DeleteRoller::new())
    } else {
        match FixedWindowRoller::builder().base(case.base).build(&pattern_abs, case.count) {
            Ok(r) => Box::new(r),
            Err(e) => return fail("C07:builder", format!("FixedWindowRoller::build({:?}, {}) failed: {}", case.pattern, case.count, e)),
        }
    };
    #[cfg(feature = "bg")]
    let fw_for_wait: Option<FixedWindowRoller> = if case.delete_roller { None } else { FixedWindowRoller::builder().base(case.base).build(&pattern_abs, case.count).ok() };
    let alt = if case.cross_device { other_fs_dir(dir) } else { None };
    let active = match &alt {
        Some(a) => a.join(os_path(&case.active)),
        None => dir.join(os_path(&case.active)),
    };
    let gap_free_start = {
        let mut offs: Vec<i64> = initial.iter().map(|(o, _)| *o).filter(|o| *o >= 0 && *o < c).collect();
        offs.sort();
        offs.iter().enumerate().all(|(i, o)| *o == i as i64)
    };
    let mut exact = gap_free_start;
    let mut evicted = false;
    let mut wiped = false;
    let mut switched = false;
    let big_content = case.big.map(|(seed, len)| incompressible(seed, len as usize));
    for (ri, content) in case.rolls.iter().enumerate() {
        let content = match (&big_content, ri) {
            (Some(b), 0) => b,
            _ => content,
        };
        if case.env_switch_before.map(|k| k as usize % case.rolls.len()) == Some(ri) && ri > 0 && case.pattern.contains("$ENV{LV_SET}") && !case.delete_roller {
            std::env::set_var("LV_SET", "envdir-tuesday");
            // nothing exists under the new names yet
            exact = true;
            switched = true;
        }
        if relative && case.relative.flatten().map(|k| k as usize % case.rolls.len()) == Some(ri) && ri > 0 {
            std::env::set_current_dir(dir.join("cwd-b")).unwrap();
            cwd_prefix.set("cwd-b");
            // nothing exists under the names the pattern leads to from here
            exact = true;
            obs.class("working-directory-changes-between-rolls");
        }
        if case.wipe_before.contains(&(ri as u8)) && !case.delete_roller && !case.pattern.contains("linkdir") && !relative {
            // the top-level directory of every archive name that lives in a sub-directory goes away
            let mut gone = false;
            for o in 0..c {
                let n = name(o);
                if let Some((top, _)) = n.split_once('/') {
                    let p = dir.join(top);
                    if p.is_dir() && p != active.parent().unwrap_or(dir) {
                        let _ = std::fs::remove_dir_all(&p);
                        gone = true;
                    }
                }
            }
            if gone {
                wiped = true;
                exact = true; // an empty window is gap-free
            }
        }
        if let (Some((k, kind)), false, false) = (case.futile_roll_before, case.delete_roller, cfg!(feature = "bg")) {
            if k as usize % case.rolls.len() == ri && c >= 1 && alt.is_none() {
                let _ = std::fs::remove_file(&active);
                if kind % 2 == 1 {
                    std::fs::create_dir_all(active.join("not-a-log-file")).unwrap();
                    std::fs::write(active.join("not-a-log-file/x"), b"x").unwrap();
                }
                let window = |s: &Snap| -> Vec<(i64, Vec<u8>)> { (0..c).filter_map(|o| s.files.get(&name(o)).map(|b| (o, b.clone()))).collect() };
                let before = snap_following_links(dir);
                let r = catch(|| roller.roll(&active));
                if let Err(p) = r {
                    return fail("C07:panic", format!("asked to roll {} before roll #{}, the roller panicked: {}", if kind % 2 == 1 { "a directory" } else { "a file that is not there" }, ri, p));
                }
                let after = snap_following_links(dir);
                let (wb, wa) = (window(&before), window(&after));
                let lb: Vec<&Vec<u8>> = wb.iter().map(|x| &x.1).collect();
                // (a compressing roller creates the new archive over the old base name before it reads the source: what it
                // leaves there after failing is a leftover of the attempt; with a window of one the old archive is what a
                // completed rotation would have replaced, and it is gone by then)
                let compressing = case.pattern.ends_with(".gz") || case.pattern.ends_with(".zst");
                let judge = |la: &[&Vec<u8>]| -> bool {
                    let kept_all = la == &lb[..];
                    // (a window with gaps: the shift may push the oldest out although there was room, as in the main oracle)
                    let gaps = !wb.iter().enumerate().all(|(i, x)| x.0 == i as i64);
                    // (the exemption for compressing rollers concerns a source that can be opened but not read - a directory;
                    // a source that is not there is found out before the archive is created)
                    let oldest_pushed_out = (c >= 2 || (compressing && kind % 2 == 1)) && (wb.len() as i64 == c || gaps) && !lb.is_empty() && la == &lb[..lb.len() - 1];
                    kept_all || oldest_pushed_out
                };
                let la_all: Vec<&Vec<u8>> = wa.iter().map(|x| &x.1).collect();
                let la_rest: Vec<&Vec<u8>> = wa.iter().skip(1).map(|x| &x.1).collect();
                let leftover = !judge(&la_all) && compressing && wa.first().map_or(false, |x| x.0 == 0) && judge(&la_rest);
                let (kept_all, oldest_pushed_out) = (judge(&la_all) || leftover, false);
                ensure!(
                    kept_all || oldest_pushed_out,
                    "C07:archive-lost-over-a-futile-roll",
                    "before roll #{} the roller was asked to roll {} (it answered {}): archives by index before {:?}, after {:?} - an archive was lost although nothing was rolled", ri, if kind % 2 == 1 { "a directory" } else { "a file that is not there" }, if matches!(r, Ok(Ok(()))) { "Ok" } else { "Err" }, wb.iter().map(|x| (x.0, x.1.len())).collect::<Vec<_>>(), wa.iter().map(|x| (x.0, x.1.len())).collect::<Vec<_>>()
                );
                for (f, b) in &before.files {
                    if (0..c).any(|o| name(o) == *f) || f.starts_with(&format!("{}/", active_key)) || *f == active_key {
                        continue;
                    }
                    ensure!(after.files.get(f) == Some(b), "C07:bystander-touched", "futile roll before roll #{}: file {:?} outside the window changed", ri, f);
                }
                // the path is cleared for the real roll; the window may have a gap at the base now
                let _ = std::fs::remove_dir_all(&active);
                if leftover {
                    let _ = std::fs::remove_file(dir.join(name(0)));
                }
                for o in 0..c {
                    // (a directory "rolled" into the window is not an archive of ours)
                    let p = dir.join(name(o));
                    if p.is_dir() {
                        let _ = std::fs::remove_dir_all(&p);
                    }
                }
                let offs: Vec<i64> = window(&snap_following_links(dir)).iter().map(|x| x.0).collect();
                exact = offs.iter().enumerate().all(|(i, o)| *o == i as i64);
                obs.class("futile-roll-attempt");
            }
        }
        if case.active_symlink {
            let target = dir.join(format!("linked-data/app-{}.log", ri));
            write_file(&target, content);
            if let Some(parent) = active.parent() {
                std::fs::create_dir_all(parent).unwrap();
            }
            let _ = std::fs::remove_file(&active);
            std::os::unix::fs::symlink(&target, &active).unwrap();
        } else {
            write_file(&active, content);
        }
        #[allow(unused_mut)]
        let mut leftover_names: Vec<std::ffi::OsString> = vec![];
        #[cfg(feature = "bg")]
        if case.leftovers && alt.is_none() && !case.delete_roller {
            // what an aborted background rotation leaves behind; none of these is the roller's to touch
            let now = std::time::SystemTime::now().duration_since(std::time::UNIX_EPOCH).unwrap().as_secs();
            for k in 0..4 {
                let mut p = active.clone();
                p.set_extension(format!("{}", now + k));
                write_file(&p, format!("leftover {}", k).as_bytes());
                leftover_names.push(p.file_name().unwrap().to_os_string());
            }
        }
        let before = snap_following_links(dir);
        let res = catch(|| roller.roll(&active));
        #[cfg(feature = "bg")]
        {
            // the roller handed to the appender and this clone do not share state; wait by observing the temp file
            let _ = &fw_for_wait;
            if !wait_bg_idle_except(&active, &leftover_names) {
                return fail("C07:panic:background-rotation", format!("roll #{} (base {}, count {}): the background rotation thread panicked inside the library and the rolled file was never archived", ri, case.base, case.count));
            }
        }
        match res {
            Err(p) => {
                let sig = if p.contains("overflow") { "C07:panic:index-overflow" } else { "C07:panic" };
                return fail(sig, format!("roll #{} panicked (base {}, count {}): {}", ri, case.base, case.count, p));
            }
            Ok(Err(e)) => return fail("C07:roll-error", format!("roll #{} returned an error on an unobstructed directory: {}", ri, e)),
            Ok(Ok(())) => {}
        }
        obs.sub_evals += 1;
        let after = snap_following_links(dir);
        ensure!(std::fs::symlink_metadata(&active).is_err(), "C07:rolled-file-remains", "roll #{}: the rolled file still exists at its original path{}", ri, if active.exists() { "" } else { " (as a symbolic link that leads nowhere)" });
        // window contents before/after by ascending offset
        let window = |s: &Snap| -> Vec<(i64, Vec<u8>)> { (0..c).filter_map(|o| s.files.get(&name(o)).map(|b| (o, b.clone()))).collect() };
        let wb = window(&before);
        let wa = window(&after);
        if case.delete_roller || c == 0 {
            let mut expect = before.files.clone();
            expect.remove(&active_key);
            ensure!(after.files == expect, "C07:delete-side-effects", "roll #{} with {}: files other than the rolled one changed: before {:?} after {:?}", ri, if case.delete_roller { "the delete roller" } else { "count 0" }, before.files.keys().collect::<Vec<_>>(), after.files.keys().collect::<Vec<_>>());
            for n in &leftover_names {
                let _ = std::fs::remove_file(active.parent().unwrap().join(n));
            }
            continue;
        }
        ensure!(wa.len() as i64 <= c, "C07:too-many-archives", "roll #{}: {} archives inside a window of {}", ri, wa.len(), c);
        // the newest archive holds the rolled bytes (after decompression when requested)
        let n0 = name(0);
        let raw0 = match after.files.get(&n0) {
            Some(b) => b,
            None => return fail("C07:newest-missing", format!("roll #{}: {:?} (index base) does not exist after the roll; files: {:?}", ri, n0, after.files.keys().collect::<Vec<_>>())),
        };
        let dec0 = decoded(&n0, raw0).map_err(|e| Failure { sig: "C07:archive-undecodable".into(), msg: format!("roll #{}: {:?} cannot be decompressed: {}", ri, n0, e) })?;
        ensure!(dec0 == *content, "C07:newest-content", "roll #{}: {:?} holds {} bytes, the rolled file had {} (content differs)", ri, n0, dec0.len(), content.len());
        if exact {
            // exact shift: name(base+j) holds what name(base+j-1) held
            let k = wb.len() as i64;
            for j in 1..c {
                let want = if j <= k { Some(&wb[(j - 1) as usize].1) } else { None };
                let got = after.files.get(&name(j));
                ensure!(got == want, "C07:shift", "roll #{}: index base+{} ({:?}) holds {:?} bytes, expected {:?} (what base+{} held)", ri, j, name(j), got.map(|b| b.len()), want.map(|b| b.len()), j - 1);
            }
            if k == c {
                evicted = true;
            }
        } else {
            // gaps tolerated: ordered contents after = [rolled] ++ before[..k], k in {len, len-1}; nothing moves down
            let list_b: Vec<&Vec<u8>> = wb.iter().map(|x| &x.1).collect();
            let list_a: Vec<&Vec<u8>> = wa.iter().skip(1).map(|x| &x.1).collect();
            let full = list_a == list_b;
            let minus1 = !list_b.is_empty() && list_a == list_b[..list_b.len() - 1];
            ensure!(
                (full && wb.len() as i64 + 1 <= c) || minus1,
                "C07:gap-shift",
                "roll #{} over a window with gaps: archives (by index) before {:?} after {:?}: not [rolled] ++ before (minus at most the oldest)", ri, wb.iter().map(|x| (x.0, x.1.len())).collect::<Vec<_>>(), wa.iter().map(|x| (x.0, x.1.len())).collect::<Vec<_>>()
            );
            // once the window is contiguous from base it stays exact
            let offs: Vec<i64> = wa.iter().map(|x| x.0).collect();
            if offs.iter().enumerate().all(|(i, o)| *o == i as i64) {
                exact = true;
            }
        }
        // nothing outside the managed names is created, modified or removed
        let managed: Vec<String> = (0..c).map(name).collect();
        for (f, b) in &before.files {
            if managed.contains(f) || *f == active_key {
                continue;
            }
            ensure!(after.files.get(f) == Some(b), "C07:bystander-touched", "roll #{}: file {:?} outside the window was {}", ri, f, if after.files.contains_key(f) { "modified" } else { "removed" });
        }
        for f in after.files.keys() {
            ensure!(managed.contains(f) || before.files.contains_key(f), "C07:stray-file", "roll #{}: new file {:?} outside the managed names", ri, f);
        }
        for n in &leftover_names {
            let _ = std::fs::remove_file(active.parent().unwrap().join(n));
        }
    }
    let _ = protected;
    let dir_component = case.pattern[..case.pattern.rfind('/').unwrap_or(0)].contains("{}");
    let compression = case.pattern.ends_with(".gz") || case.pattern.ends_with(".zst");
    obs.nontrivial = (case.count >= 3 && evicted) || !gap_free_start || dir_component || compression;
    obs.class(format!("count={}", case.count));
    obs.class_if(evicted, "eviction-reached");
    obs.class_if(!gap_free_start, "initial-gaps");
    obs.class_if(dir_component, "index-in-directory");
    obs.class_if(compression, "compression");
    obs.class_if(case.pattern.contains("$ENV"), "env-reference");
    obs.class_if(case.base as u64 + case.count as u64 > u32::MAX as u64, "base+count-overflows-u32");
    obs.class_if(case.delete_roller, "delete-roller");
    obs.class_if(wiped, "archive-directory-cleared-between-rolls");
    obs.class_if(switched, "variable-changes-value-between-rolls");
    obs.class_if(case.big.is_some(), "rolled-file>=70kB-incompressible");
    obs.class_if(case.active.contains("\\x"), "rolled-file-name-not-utf8");
    #[cfg(feature = "bg")]
    obs.class_if(case.leftovers && alt.is_none() && !case.delete_roller, "temp-file-look-alikes-present");
    obs.class_if(alt.is_some(), "rolled-file-on-another-filesystem");
    obs.class_if(case.pattern.contains("/../"), "pattern-with-dot-dot-after-a-link-or-variable");
    obs.class_if(relative, "relative-pattern");
    obs.class_if(case.active_symlink, "rolled-file-is-a-symbolic-link");
    obs.class_if(case.wide.is_some(), "window-of-33-to-70");
    obs.class_if(case.lookalikes, "index-look-alike-bystanders");
    obs.class_if(case.initial.iter().any(|(o, _)| *o < 0 || *o >= c), "archives-outside-window");
    Ok(())
}

/// background rotation renames the rolled file to `<stem>.<unix seconds>` first: wait until it is gone
/// (false: the background thread died of a panic inside the library - it is not coming back)
#[cfg(feature = "bg")]
pub fn wait_bg_idle(active: &Path) -> bool {
    wait_bg_idle_except(active, &[])
}

#[cfg(feature = "bg")]
pub fn wait_bg_idle_except(active: &Path, except: &[std::ffi::OsString]) -> bool {
    let panics_before = crate::engine::library_panics_total();
    let p = active.to_path_buf();
    let parent = p.parent().unwrap().to_path_buf();
    let stem = p.file_stem().unwrap().to_string_lossy().to_string();
    let deadline = std::time::Instant::now() + std::time::Duration::from_secs(20);
    loop {
        let busy = std::fs::read_dir(&parent)
            .map(|rd| {
                rd.flatten().filter(|e| !except.contains(&e.file_name())).any(|e| {
                    let n = e.file_name().to_string_lossy().to_string();
                    n.strip_prefix(&format!("{}.", stem)).map_or(false, |rest| rest.len() >= 9 && rest.chars().all(|c| c.is_ascii_digit()))
                })
            })
            .unwrap_or(false);
        if !busy {
            // the rename into place is the last step; give the thread a moment to release the lock
            std::thread::sleep(std::time::Duration::from_micros(300));
            return true;
        }
        if crate::engine::library_panics_total() > panics_before || (std::time::Instant::now() > deadline && crate::engine::library_panics_total() > 0) {
            // a panic inside the library on a thread of its own, and the rolled file is still waiting: that was the rotation
            std::thread::sleep(std::time::Duration::from_millis(50));
            return false;
        }
        if std::time::Instant::now() > deadline {
            eprintln!("[lv] background rotation did not finish within 20 s: infrastructure trouble");
            std::process::exit(2);
        }
        std::thread::sleep(std::time::Duration::from_micros(200));
    }
}

pub fn run(run: &Run) {
    let tmp = run.tmp.clone();
    let f = move |c: &Case, o: &mut Obs| check(&tmp, c, o);
    run.run_replays::<Case>("rolls", &f);
    run.search("rolls", run.tier.pick(1_500, 60_000), strategy(), &f);
    if run.worker.0 == 0 {
        // one roller through 400 successive rolls (more than any 8-bit bookkeeping can count)
        for (count, pattern) in [(3u32, "a.{}.log"), (5, "arch/{}/a.log.gz")] {
            let rolls: Vec<Vec<u8>> = (0..400u32).map(|i| format!("roll {}\n", i).into_bytes()).collect();
            run.eval_one("rolls", &Case { delete_roller: false, base: 1, count, pattern: pattern.to_string(), initial: vec![], bystanders: vec![("other.txt".into(), b"keep".to_vec())], bystander_dirs: vec![], active: "active.log".into(), rolls, cross_device: false, big: None, leftovers: false, wipe_before: vec![120, 250], env_switch_before: None, active_symlink: false, wide: None, lookalikes: false, relative: None, futile_roll_before: None }, &f);
        }
    }
    run.note(format!("build: {}", if cfg!(feature = "bg") { "background_rotation" } else { "foreground rotation" }));
}

pub fn replay(part: &str, case: serde_json::Value) -> Option<CaseResult> {
    match part {
        "rolls" => {
            let tmp = std::env::temp_dir().join(format!("lv-replay-{}", std::process::id()));
            std::fs::create_dir_all(&tmp).ok()?;
            let r = check(&tmp, &serde_json::from_value(case).ok()?, &mut Obs::default());
            let _ = std::fs::remove_dir_all(&tmp);
            Some(r)
        }
        _ => None,
    }
}

pub fn meta() -> EvidenceMeta {
    EvidenceMeta {
        level: "exploration",
        rule: "cases = roller configuration (base in {0,1,3,9,99,u32::MAX-count,u32::MAX-count+1}, count 0-6, 17 patterns (incl. an index that lands in a directory component only after the variable is expanded; the variable's value may change between two rolls): index in file name / directory component / twice, non-ASCII, spaces, $ENV{set}/$ENV{unset} references, .gz/.zst) x initial directory (empty, contiguous prefix, gaps, archives outside the window, bystander files/dirs) x 1-10 successive Roll::roll calls (the archive directories may be cleared away between two of them) on freshly written files (empty, small, ~10 kB, 70-400 kB incompressible; file and directory names that are not valid UTF-8; in the background-rotation build temp-file look-alikes <stem>.<unix second> for the coming seconds lie in the directory); oracle over full recursive snapshots before/after each roll: rolled path gone, index base holds the rolled bytes (decompressed with flate2/zstd when requested), exact shift base+j <- base+j-1 for gap-free windows, oldest evicted only when the window was full, with gaps the charitable ordered-list relation, every file outside the managed names byte-identical and no new file elsewhere; count 0 / delete roller: only the rolled file disappears. Further inputs (rounds 10-14): the rolled file may be a symbolic link (the link is archived, its target is a bystander, nothing may remain at the path); windows of 33-70 slots; bystanders whose names merely look like an index (007, +3, '3 ', 0x3 ...); patterns with '..' after a symbolic link to a directory or a variable worth two components; relative patterns and a change of the working directory between two rolls; futile roll attempts (nothing / a non-empty directory at the rolled path) over which no archive may be lost. non-trivial = eviction reached with count >= 3, or initial gaps, or index in a directory component, or compression".into(),
        assumptions: vec!["archive names computed with the harness's own single-pass $ENV expander".into()],
        mutants_caught: vec![],
    }
}
