//! `patast`: pattern AST, printer (AST -> pattern string), reference renderer (AST x record -> text),
//! capture sink, record description. The reference output is computed from the AST, never by
//! re-parsing the printed string.

use log4rs::encode::{self, Style};
use proptest::prelude::*;
use serde::{Deserialize, Serialize};
use std::fmt;
use std::io;

// ---------------------------------------------------------------------------------------------
// AST

#[derive(Serialize, Deserialize, Debug, Clone, PartialEq)]
pub enum Align {
    Left,
    Right,
}

#[derive(Serialize, Deserialize, Debug, Clone, PartialEq, Default)]
pub struct Spec {
    /// only together with an explicit alignment (grammar: [[fill] align])
    pub fill: Option<char>,
    pub align: Option<Align>,
    pub min: Option<usize>,
    pub max: Option<usize>,
}

#[derive(Serialize, Deserialize, Debug, Clone, PartialEq)]
pub enum Zone {
    Utc,
    Local,
}

#[derive(Serialize, Deserialize, Debug, Clone, PartialEq)]
pub enum Kind {
    Level,
    Message,
    Target,
    Module,
    File,
    Line,
    Thread,
    ThreadId,
    Pid,
    Tid,
    Newline,
    Mdc { key: String, default: Option<String> },
    /// second-granularity date: fmt is a free composition of whole-second strftime items
    Date { fmt: Option<String>, zone: Option<Zone> },
    Group(Vec<Node>),
    Highlight(Vec<Node>),
    Debug(Vec<Node>),
    Release(Vec<Node>),
}

#[derive(Serialize, Deserialize, Debug, Clone, PartialEq)]
pub enum Node {
    /// literal text; `esc` bit i chooses backslash (1) or doubling (0) for the i-th special character
    Lit { text: String, esc: u32 },
    Fmt { kind: Kind, long: bool, spec: Option<Spec> },
}

pub type Pat = Vec<Node>;

pub const SPECIALS: [char; 5] = ['{', '}', '(', ')', '\\'];

fn names(kind: &Kind) -> (&'static str, &'static str) {
    match kind {
        Kind::Level => ("l", "level"),
        Kind::Message => ("m", "message"),
        Kind::Target => ("t", "target"),
        Kind::Module => ("M", "module"),
        Kind::File => ("f", "file"),
        Kind::Line => ("L", "line"),
        Kind::Thread => ("T", "thread"),
        Kind::ThreadId => ("I", "thread_id"),
        Kind::Pid => ("P", "pid"),
        Kind::Tid => ("i", "tid"),
        Kind::Newline => ("n", "n"),
        Kind::Mdc { .. } => ("X", "mdc"),
        Kind::Date { .. } => ("d", "date"),
        Kind::Group(_) => ("", ""),
        Kind::Highlight(_) => ("h", "highlight"),
        Kind::Debug(_) => ("D", "debug"),
        Kind::Release(_) => ("R", "release"),
    }
}

// ---------------------------------------------------------------------------------------------
// Printer

fn print_text(out: &mut String, text: &str, esc: u32, in_arg: bool) {
    let mut i = 0u32;
    for c in text.chars() {
        if SPECIALS.contains(&c) {
            let backslash = (esc >> (i % 32)) & 1 == 1;
            i += 1;
            // inside an argument the first ')' ends the argument: only the backslash form is unambiguous
            if backslash || (in_arg && c == ')') {
                out.push('\\');
                out.push(c);
            } else {
                out.push(c);
                out.push(c);
            }
        } else {
            out.push(c);
        }
    }
}

fn print_spec(out: &mut String, spec: &Spec) {
    out.push(':');
    if let Some(a) = &spec.align {
        if let Some(f) = spec.fill {
            out.push(f);
        }
        out.push(match a {
            Align::Left => '<',
            Align::Right => '>',
        });
    }
    if let Some(m) = spec.min {
        out.push_str(&m.to_string());
    }
    if let Some(m) = spec.max {
        out.push('.');
        out.push_str(&m.to_string());
    }
}

fn spec_is_empty(s: &Spec) -> bool {
    s.align.is_none() && s.min.is_none() && s.max.is_none()
}

/// Prints a pattern. `flip_alias` prints every formatter with its other name (metamorphic check).
pub fn print(pat: &Pat, flip_alias: bool) -> String {
    let mut out = String::new();
    print_nodes(&mut out, pat, flip_alias, false);
    out
}

fn print_nodes(out: &mut String, pat: &[Node], flip: bool, in_arg: bool) {
    for (idx, n) in pat.iter().enumerate() {
        match n {
            Node::Lit { text, esc } => print_text(out, text, *esc, in_arg),
            Node::Fmt { kind, long, spec } => {
                out.push('{');
                let (s, l) = names(kind);
                out.push_str(if *long != flip { l } else { s });
                match kind {
                    Kind::Mdc { key, default } => {
                        out.push('(');
                        print_text(out, key, 0xAAAA_AAAA, true);
                        out.push(')');
                        if let Some(d) = default {
                            out.push('(');
                            print_text(out, d, 0x5555_5555, true);
                            out.push(')');
                        }
                    }
                    Kind::Date { fmt, zone } => {
                        if let Some(f) = fmt {
                            out.push('(');
                            print_text(out, f, 0xCCCC_CCCC, true);
                            out.push(')');
                            if let Some(z) = zone {
                                out.push_str(match z {
                                    Zone::Utc => "(utc)",
                                    Zone::Local => "(local)",
                                });
                            }
                        }
                    }
                    Kind::Group(c) | Kind::Highlight(c) | Kind::Debug(c) | Kind::Release(c) => {
                        out.push('(');
                        print_nodes(out, c, flip, true);
                        out.push(')');
                    }
                    _ => {}
                }
                if let Some(sp) = spec {
                    // "{m:}" followed by text starting with '<' or '>' is read as fill '}' + alignment:
                    // the documented grammar is ambiguous there, so the bare ':' is not printed
                    let next_starts_with_align = match pat.get(idx + 1) {
                        Some(Node::Lit { text, .. }) => text.starts_with('<') || text.starts_with('>'),
                        _ => false,
                    };
                    if !(spec_is_empty(sp) && next_starts_with_align) {
                        print_spec(out, sp);
                    }
                }
                out.push('}');
            }
        }
    }
}

// ---------------------------------------------------------------------------------------------
// Records

#[derive(Serialize, Deserialize, Debug, Clone, PartialEq)]
pub struct Rec {
    /// index into LEVELS
    pub level: u8,
    /// the message as the pieces a Display implementation hands to the formatter (split at char boundaries)
    pub msg: Vec<String>,
    pub target: String,
    pub module: Option<String>,
    pub file: Option<String>,
    pub line: Option<u32>,
    pub mdc: Vec<(String, String)>,
}

impl Rec {
    pub fn message(&self) -> String {
        self.msg.iter().filter(|p| p.as_str() != LATE_MDC_PIECE).map(|p| p.as_str()).collect()
    }
    pub fn level(&self) -> log::Level {
        crate::model::route::LEVELS[self.level as usize % 5]
    }
}

macro_rules! msg_lit0 {
    () => {
        "connection established"
    };
}
macro_rules! msg_lit1 {
    () => {
        "the quick brown fox jumps over the lazy dog, twice: the quick brown fox jumps over the lazy dog"
    };
}
macro_rules! msg_lit2 {
    () => {
        "héllo wörld 漢字 😀 done"
    };
}
macro_rules! msg_lit3 {
    () => {
        "x"
    };
}
macro_rules! msg_lit4 {
    () => {
        "éééé"
    };
}
macro_rules! msg_lit5 {
    () => {
        "漢字"
    };
}
macro_rules! msg_lit6 {
    () => {
        "😀😀😀"
    };
}
macro_rules! msg_lit7 {
    () => {
        "ab\u{301}c\u{308}de"
    };
}
/// Messages that reach the encoder as argument-free literals (see `with_rec`); the short multi-byte ones have far
/// more bytes than characters, so that small widths fall between the two counts.
pub const MSG_LITERALS: [&str; 8] = [msg_lit0!(), msg_lit1!(), msg_lit2!(), msg_lit3!(), msg_lit4!(), msg_lit5!(), msg_lit6!(), msg_lit7!()];

/// A message piece that stands for "an argument whose Display inserts `LATE_MDC` into the MDC and prints nothing".
pub const LATE_MDC_PIECE: &str = "\u{1}late-mdc\u{1}";
pub const LATE_MDC: (&str, &str) = ("late-key", "late \"value\"");

struct Pieces<'a>(&'a [String]);
impl<'a> fmt::Display for Pieces<'a> {
    fn fmt(&self, f: &mut fmt::Formatter<'_>) -> fmt::Result {
        use fmt::Write;
        for p in self.0 {
            if p == LATE_MDC_PIECE {
                // an argument whose Display has a side effect on the diagnostic context (it assigns a request id
                // lazily, say) and prints nothing itself
                log_mdc::insert(LATE_MDC.0, LATE_MDC.1);
                continue;
            }
            // a piece of one character arrives the way a `char` argument (or a fill character) does
            let mut cs = p.chars();
            match (cs.next(), cs.next()) {
                (Some(c), None) => f.write_char(c)?,
                _ => f.write_str(p)?,
            }
        }
        Ok(())
    }
}

/// Builds the log::Record described by `rec` and hands it to `f` (MDC installed around the call).
pub fn with_rec<R>(rec: &Rec, f: impl FnOnce(&log::Record) -> R) -> R {
    log_mdc::clear();
    for (k, v) in &rec.mdc {
        log_mdc::insert(k.clone(), v.clone());
    }
    let disp = Pieces(&rec.msg);
    // the strings of consecutive records live at the same addresses (reused buffers): what a formatter may remember
    // about an earlier record must not be keyed by where its text happened to be
    let (target, module, file) = FIELD_BUFFERS.with(|b| {
        let mut b = b.borrow_mut();
        let mut put = |i: usize, s: &str| -> String {
            b[i].clear();
            b[i].push_str(s);
            std::mem::take(&mut b[i])
        };
        (put(0, &rec.target), rec.module.as_deref().map(|m| put(1, m)), rec.file.as_deref().map(|x| put(2, x)))
    });
    // module path / file strings from STATIC_SITES travel the way the log macros hand them over: as `&'static str`
    // (`module_path_static` / `file_static`), which a record keeps apart from borrowed strings
    let module_static = module.as_deref().and_then(|m| static_sites().iter().find(|s| **s == m).copied());
    let file_static = file.as_deref().and_then(|x| static_sites().iter().find(|s| **s == x).copied());
    let build = |args: fmt::Arguments| -> R {
        let mut b = log::Record::builder();
        b.args(args).level(rec.level()).target(&target).line(rec.line);
        match module_static {
            Some(s) => b.module_path_static(Some(s)),
            None => b.module_path(module.as_deref()),
        };
        match file_static {
            Some(s) => b.file_static(Some(s)),
            None => b.file(file.as_deref()),
        };
        f(&b.build())
    };
    // a message that is one of the compiled-in literals is handed over the way `info!("literal")` does it:
    // `Arguments::as_str()` is `Some`, no formatting machinery involved
    let lit = if rec.msg.len() == 1 { MSG_LITERALS.iter().position(|l| *l == rec.msg[0]) } else { None };
    let r = match lit {
        Some(0) => build(format_args!(msg_lit0!())),
        Some(1) => build(format_args!(msg_lit1!())),
        Some(2) => build(format_args!(msg_lit2!())),
        Some(3) => build(format_args!(msg_lit3!())),
        Some(4) => build(format_args!(msg_lit4!())),
        Some(5) => build(format_args!(msg_lit5!())),
        Some(6) => build(format_args!(msg_lit6!())),
        Some(7) => build(format_args!(msg_lit7!())),
        _ => build(format_args!("{}", disp)),
    };
    log_mdc::clear();
    // hand the buffers back (capacity and address are kept)
    FIELD_BUFFERS.with(|b| {
        let mut b = b.borrow_mut();
        b[0] = target;
        if let Some(m) = module {
            b[1] = m;
        }
        if let Some(x) = file {
            b[2] = x;
        }
    });
    r
}

/// Compile-time strings for module path and file (what `module_path!()` / `file!()` produce can hold anything a path
/// can: backslashes on Windows, quotes, spaces, non-ASCII); a record built from them carries `&'static str`s.
pub const STATIC_SITES: [&str; 10] = ["src\\bin\\tool.rs", "C:\\new\\table\\b.rs", "a\"b\".rs", "tab\there", "line\nbreak.rs", "\u{1}ctl\u{7f}", "app::\\w::m", "plain/static.rs", "\u{fc}n\u{ef}\\\u{107}.rs", ""];

/// STATIC_SITES plus, for the longer ones, a leading part of the very same string: two `&'static str`s that start at
/// the same address and differ in length (`module_path!()` cut down to its parent module, `file!()` without `.rs`).
pub fn static_sites() -> &'static [&'static str] {
    static ALL: std::sync::OnceLock<Vec<&'static str>> = std::sync::OnceLock::new();
    ALL.get_or_init(|| {
        let mut v: Vec<&'static str> = STATIC_SITES.to_vec();
        for s in STATIC_SITES {
            if s.len() >= 6 {
                let mut cut = s.len() - 3;
                while !s.is_char_boundary(cut) {
                    cut -= 1;
                }
                let part: &'static str = &s[..cut];
                if !v.contains(&part) {
                    v.push(part);
                }
            }
        }
        v
    })
}

/// The other string of `static_sites()` that starts at the same address.
pub fn static_twin(s: &str) -> Option<&'static str> {
    let me = static_sites().iter().find(|x| **x == s)?;
    static_sites().iter().find(|x| x.as_ptr() == me.as_ptr() && x.len() != me.len()).copied()
}

thread_local! {
    static FIELD_BUFFERS: std::cell::RefCell<[String; 3]> = std::cell::RefCell::new([String::with_capacity(4096), String::with_capacity(4096), String::with_capacity(4096)]);
}

// ---------------------------------------------------------------------------------------------
// Capture sink

#[derive(Debug, Clone, PartialEq)]
pub enum Ev {
    Bytes(Vec<u8>),
    Style(Style),
}

/// A harness `encode::Write` which records bytes and style calls and accepts, per write call,
/// a scripted number of bytes (short writes may cut inside a multi-byte character, as a pipe may).
pub struct CapW {
    pub events: Vec<Ev>,
    pub script: Vec<u8>,
    pub pos: usize,
    pub cut_inside_char: bool,
    pub write_calls: u64,
    /// refuse output beyond this many bytes (a runaway padding loop ends with an error instead of filling memory)
    pub limit: Option<usize>,
    pub written: usize,
    /// the previous write call was answered with `ErrorKind::Interrupted` (never twice in a row)
    pub just_interrupted: bool,
    pub interrupts: u64,
}

/// Script value: this write call is interrupted (EINTR) before anything is written; callers such as `write_all`
/// and `write_fmt` retry, and nothing may be lost, duplicated or charged to a width budget because of it.
pub const SCRIPT_INTERRUPT: u8 = 255;

impl CapW {
    pub fn new(script: Vec<u8>) -> CapW {
        CapW { events: vec![], script, pos: 0, cut_inside_char: false, write_calls: 0, limit: None, written: 0, just_interrupted: false, interrupts: 0 }
    }
    pub fn bytes(&self) -> Vec<u8> {
        let mut v = vec![];
        for e in &self.events {
            if let Ev::Bytes(b) = e {
                v.extend_from_slice(b);
            }
        }
        v
    }
    pub fn styles(&self) -> Vec<Style> {
        self.events
            .iter()
            .filter_map(|e| if let Ev::Style(s) = e { Some(s.clone()) } else { None })
            .collect()
    }
}

impl io::Write for CapW {
    fn write(&mut self, buf: &[u8]) -> io::Result<usize> {
        self.write_calls += 1;
        if buf.is_empty() {
            return Ok(0);
        }
        if let Some(l) = self.limit {
            if self.written + buf.len() > l {
                return Err(io::Error::new(io::ErrorKind::Other, "verif: output limit exceeded"));
            }
        }
        let n = if self.script.is_empty() {
            buf.len()
        } else {
            let k = self.script[self.pos % self.script.len()];
            self.pos += 1;
            if k == SCRIPT_INTERRUPT && !self.just_interrupted {
                self.just_interrupted = true;
                self.interrupts += 1;
                return Err(io::Error::new(io::ErrorKind::Interrupted, "verif: EINTR"));
            }
            let k = if k == SCRIPT_INTERRUPT { 0 } else { k as usize };
            if k == 0 { buf.len() } else { k.min(buf.len()) }
        };
        self.just_interrupted = false;
        self.written += n;
        if n < buf.len() && (buf[n] & 0xC0) == 0x80 {
            self.cut_inside_char = true;
        }
        match self.events.last_mut() {
            Some(Ev::Bytes(b)) => b.extend_from_slice(&buf[..n]),
            _ => self.events.push(Ev::Bytes(buf[..n].to_vec())),
        }
        Ok(n)
    }
    fn flush(&mut self) -> io::Result<()> {
        Ok(())
    }
}

impl encode::Write for CapW {
    fn set_style(&mut self, style: &Style) -> io::Result<()> {
        self.events.push(Ev::Style(style.clone()));
        Ok(())
    }
}

// ---------------------------------------------------------------------------------------------
// Reference renderer

/// Width law of the statement: cut to the first M characters, then pad with the fill character
/// on the chosen side up to m characters (Unicode scalar values).
pub fn apply_spec(s: &str, spec: &Option<Spec>) -> String {
    let Some(sp) = spec else { return s.to_string() };
    let mut t: String = match sp.max {
        Some(m) => s.chars().take(m).collect(),
        None => s.to_string(),
    };
    if let Some(min) = sp.min {
        let n = t.chars().count();
        if n < min {
            let pad: String = std::iter::repeat(sp.fill.unwrap_or(' ')).take(min - n).collect();
            match sp.align {
                Some(Align::Right) => t = format!("{}{}", pad, t),
                _ => t.push_str(&pad),
            }
        }
    }
    t
}

pub struct Env {
    pub thread_name: String,
    pub debug_build: bool,
    /// whole second (unix) assumed for every date node
    pub now_secs: i64,
}

pub fn render(pat: &[Node], rec: &Rec, env: &Env) -> String {
    let mut out = String::new();
    for n in pat {
        match n {
            Node::Lit { text, .. } => out.push_str(text),
            Node::Fmt { kind, spec, .. } => {
                let raw = match kind {
                    Kind::Level => match rec.level() {
                        log::Level::Error => "ERROR".to_string(),
                        log::Level::Warn => "WARN".to_string(),
                        log::Level::Info => "INFO".to_string(),
                        log::Level::Debug => "DEBUG".to_string(),
                        log::Level::Trace => "TRACE".to_string(),
                    },
                    Kind::Message => rec.message(),
                    Kind::Target => rec.target.clone(),
                    Kind::Module => rec.module.clone().unwrap_or_else(|| "???".into()),
                    Kind::File => rec.file.clone().unwrap_or_else(|| "???".into()),
                    Kind::Line => rec.line.map(|l| l.to_string()).unwrap_or_else(|| "???".into()),
                    Kind::Thread => env.thread_name.clone(),
                    Kind::ThreadId | Kind::Tid => thread_id::get().to_string(),
                    Kind::Pid => std::process::id().to_string(),
                    Kind::Newline => "\n".to_string(),
                    Kind::Mdc { key, default } => {
                        // last insertion wins (map semantics)
                        match rec.mdc.iter().rev().find(|(k, _)| k == key) {
                            Some((_, v)) => v.clone(),
                            None => default.clone().unwrap_or_default(),
                        }
                    }
                    Kind::Date { fmt, zone } => render_date(fmt.as_deref(), zone, env.now_secs),
                    Kind::Group(c) | Kind::Highlight(c) => render(c, rec, env),
                    Kind::Debug(c) => if env.debug_build { render(c, rec, env) } else { String::new() },
                    Kind::Release(c) => if !env.debug_build { render(c, rec, env) } else { String::new() },
                };
                out.push_str(&apply_spec(&raw, spec));
            }
        }
    }
    out
}

/// What a pattern sends to the writer, in order: text and style requests. A highlight group of a record whose
/// level has a colour asks for that style before its content and for the default style after it; style requests
/// have no width, so a width spec neither counts nor drops them, and padding goes before (right alignment) or after
/// (left alignment) everything the formatter produced.
#[derive(Debug, Clone, PartialEq)]
pub enum Item {
    Text(String),
    StyleOn,
    StyleOff,
}

pub fn render_items(pat: &[Node], rec: &Rec, env: &Env) -> Vec<Item> {
    let mut out: Vec<Item> = vec![];
    for n in pat {
        match n {
            Node::Lit { text, .. } => out.push(Item::Text(text.clone())),
            Node::Fmt { kind, spec, .. } => {
                let inner: Vec<Item> = match kind {
                    Kind::Group(c) => render_items(c, rec, env),
                    Kind::Highlight(c) => {
                        let mut v = vec![];
                        let coloured = rec.level() != log::Level::Debug;
                        if coloured {
                            v.push(Item::StyleOn);
                        }
                        v.extend(render_items(c, rec, env));
                        if coloured {
                            v.push(Item::StyleOff);
                        }
                        v
                    }
                    Kind::Debug(c) => if env.debug_build { render_items(c, rec, env) } else { vec![] },
                    Kind::Release(c) => if !env.debug_build { render_items(c, rec, env) } else { vec![] },
                    _ => vec![Item::Text(render(&[Node::Fmt { kind: kind.clone(), long: false, spec: None }], rec, env))],
                };
                out.extend(apply_spec_items(inner, spec));
            }
        }
    }
    merge_items(out)
}

fn merge_items(v: Vec<Item>) -> Vec<Item> {
    let mut out: Vec<Item> = vec![];
    for it in v {
        match (out.last_mut(), &it) {
            (_, Item::Text(t)) if t.is_empty() => {}
            (Some(Item::Text(a)), Item::Text(b)) => a.push_str(b),
            _ => out.push(it),
        }
    }
    out
}

fn apply_spec_items(items: Vec<Item>, spec: &Option<Spec>) -> Vec<Item> {
    let Some(sp) = spec else { return items };
    let mut budget = sp.max.unwrap_or(usize::MAX);
    let mut kept = 0usize;
    let mut out = vec![];
    for it in items {
        match it {
            Item::Text(t) => {
                let cut: String = t.chars().take(budget).collect();
                let n = cut.chars().count();
                budget -= n;
                kept += n;
                out.push(Item::Text(cut));
            }
            other => out.push(other),
        }
    }
    if let Some(min) = sp.min {
        if kept < min {
            let pad: String = std::iter::repeat(sp.fill.unwrap_or(' ')).take(min - kept).collect();
            match sp.align {
                Some(Align::Right) => out.insert(0, Item::Text(pad)),
                _ => out.push(Item::Text(pad)),
            }
        }
    }
    out
}

/// The capture writer's log in the same vocabulary.
pub fn items_of_events(events: &[Ev]) -> Vec<Item> {
    merge_items(
        events
            .iter()
            .map(|e| match e {
                Ev::Bytes(b) => Item::Text(String::from_utf8_lossy(b).to_string()),
                Ev::Style(s) => if *s == Style::new() { Item::StyleOff } else { Item::StyleOn },
            })
            .collect(),
    )
}

pub fn render_date(fmt: Option<&str>, zone: &Option<Zone>, secs: i64) -> String {
    use chrono::TimeZone;
    let fmt = fmt.expect("second-granularity date nodes always carry a format");
    match zone {
        Some(Zone::Utc) => chrono::Utc.timestamp_opt(secs, 0).unwrap().format(fmt).to_string(),
        _ => chrono::Local.timestamp_opt(secs, 0).unwrap().format(fmt).to_string(),
    }
}

pub fn has_date(pat: &[Node]) -> bool {
    pat.iter().any(|n| match n {
        Node::Fmt { kind: Kind::Date { .. }, .. } => true,
        Node::Fmt { kind: Kind::Group(c) | Kind::Highlight(c) | Kind::Debug(c) | Kind::Release(c), .. } => has_date(c),
        _ => false,
    })
}

pub fn depth(pat: &[Node]) -> usize {
    pat.iter()
        .map(|n| match n {
            Node::Fmt { kind: Kind::Group(c) | Kind::Highlight(c) | Kind::Debug(c) | Kind::Release(c), .. } => 1 + depth(c),
            _ => 1,
        })
        .max()
        .unwrap_or(0)
}

pub fn count_nodes(pat: &[Node], pred: &dyn Fn(&Node) -> bool) -> usize {
    pat.iter()
        .map(|n| {
            let me = if pred(n) { 1 } else { 0 };
            me + match n {
                Node::Fmt { kind: Kind::Group(c) | Kind::Highlight(c) | Kind::Debug(c) | Kind::Release(c), .. } => count_nodes(c, pred),
                _ => 0,
            }
        })
        .sum()
}

/// Encode `rec` with `encoder` on the current thread; returns the sink.
pub fn encode_with(encoder: &dyn log4rs::encode::Encode, rec: &Rec, script: Vec<u8>) -> (CapW, Result<(), String>) {
    encode_limited(encoder, rec, script, None)
}

pub fn encode_limited(encoder: &dyn log4rs::encode::Encode, rec: &Rec, script: Vec<u8>, limit: Option<usize>) -> (CapW, Result<(), String>) {
    let mut w = CapW::new(script);
    w.limit = limit;
    let r = with_rec(rec, |r| encoder.encode(&mut w, r)).map_err(|e| format!("{}", e));
    (w, r)
}

// ---------------------------------------------------------------------------------------------
// Generators

/// Interesting characters: ASCII, 2/3/4-byte code points, combining mark, pattern syntax, newline.
pub const CHARS: [char; 28] = [
    'a', 'b', 'Z', '0', '9', ' ', '-', '_', '.', ':', '<', '>', '%', 'é', 'ß', '€', '漢', '😀', '𝄞', '\u{0301}', '{', '}', '(',
    ')', '\\', '\n', '/', '$',
];

pub fn text_char() -> impl Strategy<Value = char> {
    prop_oneof![
        6 => any::<u16>().prop_map(|i| *crate::engine::pick(&CHARS[..], i)),
        1 => any::<char>().prop_filter("no surrogates/controls", |c| !c.is_control() || *c == '\n'),
    ]
}

pub fn text(max: usize) -> impl Strategy<Value = String> {
    prop_oneof![
        60 => prop::collection::vec(text_char(), 0..=max).prop_map(|v| v.into_iter().collect::<String>()),
        // now and then something long (a few hundred characters, beyond small fixed-size buffers)
        1 => (prop::collection::vec(text_char(), 1..=3), 100usize..400).prop_map(|(v, n)| v.into_iter().collect::<String>().repeat(n)),
    ]
}

/// literal text for top-level/argument positions
pub fn lit() -> impl Strategy<Value = Node> {
    let specials_heavy = prop::collection::vec(prop::sample::select(vec!['{', '}', '(', ')', '\\', 'x', ':']), 1..=4)
        .prop_map(|v| v.into_iter().collect::<String>());
    (prop_oneof![3 => text(6), 2 => specials_heavy], any::<u32>()).prop_filter_map("empty literal", |(t, e)| {
        if t.is_empty() { None } else { Some(Node::Lit { text: t, esc: e }) }
    })
}

pub fn fill_char() -> impl Strategy<Value = char> {
    prop_oneof![
        3 => Just(' '),
        3 => prop::sample::select(vec!['*', '0', '-', '_', 'x']),
        2 => prop::sample::select(vec!['é', '€', '😀', '\u{0301}']),
        3 => prop::sample::select(vec!['{', '}', '(', ')', '\\', ':', '<', '>', '.', '5']),
    ]
}

pub fn width() -> impl Strategy<Value = usize> {
    prop_oneof![
        10 => 0usize..=12,
        1 => 13usize..=300,
    ]
}

pub fn spec() -> impl Strategy<Value = Spec> {
    (
        prop::option::weighted(0.6, (prop::option::weighted(0.6, fill_char()), prop::bool::ANY)),
        prop::option::weighted(0.7, width()),
        prop::option::weighted(0.6, width()),
    )
        .prop_flat_map(|(fa, min, max)| {
            // now and then a maximum that does not fit 32 bits (cutting at 4 294 967 296 characters cuts nothing)
            let huge = prop_oneof![
                30 => Just(None),
                1 => prop::sample::select(vec![u32::MAX as usize, 1usize << 32, (1usize << 32) + 3, (1usize << 32) + 300, 1usize << 33, (1usize << 40) + 5, 1usize << 63, usize::MAX - 1, usize::MAX]).prop_map(Some),
            ];
            (Just((fa, min, max)), huge)
        })
        .prop_map(|((fa, min, max), huge)| {
            let max = if huge.is_some() { huge } else { max };
            let (fill, align) = match fa {
                Some((f, right)) => (f, Some(if right { Align::Right } else { Align::Left })),
                None => (None, None),
            };
            // the statement quantifies over m <= M when both are given
            let (min, max) = match (min, max) {
                (Some(a), Some(b)) if a > b => (Some(b), Some(a)),
                x => x,
            };
            Spec { fill, align, min, max }
        })
}

/// strftime items of whole-second granularity plus literal text
pub const DATE_ITEMS: [&str; 28] = [
    // (format text that happens to spell a zone name is format text)
    "utc", "local",
    "%Y", "%m", "%d", "%H", "%M", "%S", "%j", "%a", "%b", "%e", "%y", "%z", "%:z", "%Z", "%T", "%D", "%F", "%s", "%%", "-", ":", " ", "T",
    "/", "at", "(",
];

pub fn date_fmt() -> impl Strategy<Value = String> {
    prop_oneof![
        12 => prop::collection::vec(any::<u16>(), 1..=6).prop_map(|v| v.into_iter().map(|i| *crate::engine::pick(&DATE_ITEMS[..], i)).collect::<Vec<_>>().concat()),
        // long formats: many items and stretches of literal text - the rendered date runs to 100-400 bytes
        1 => (prop::collection::vec(any::<u16>(), 8..=24), prop::sample::select(vec!["", " on the day ", " - literal text of some forty characters - ", "T", " \u{e9}\u{e9}\u{e9} ", " week "]), 0usize..40).prop_map(|(v, sep, pad)| {
            let items: Vec<&str> = v.into_iter().map(|i| *crate::engine::pick(&DATE_ITEMS[..], i)).collect();
            format!("{}{}", "x".repeat(pad), items.join(sep))
        }),
    ]
}

pub fn mdc_key() -> impl Strategy<Value = String> {
    prop_oneof![
        4 => prop::sample::select(vec!["k", "user_id", "é", "a b"]).prop_map(|s| s.to_string()),
        1 => text(4).prop_filter("non-empty key", |s| !s.is_empty()),
    ]
}

fn leaf_kind() -> impl Strategy<Value = Kind> {
    prop_oneof![
        3 => Just(Kind::Level),
        5 => Just(Kind::Message),
        3 => Just(Kind::Target),
        2 => Just(Kind::Module),
        2 => Just(Kind::File),
        2 => Just(Kind::Line),
        1 => Just(Kind::Thread),
        1 => Just(Kind::ThreadId),
        1 => Just(Kind::Pid),
        1 => Just(Kind::Tid),
        1 => Just(Kind::Newline),
        3 => (mdc_key(), prop::option::of(text(5).prop_filter("explicit empty default () is not generated", |s| !s.is_empty())))
            .prop_map(|(key, default)| Kind::Mdc { key, default }),
        2 => (date_fmt(), prop::option::of(prop::bool::ANY))
            .prop_map(|(f, z)| Kind::Date { fmt: Some(f), zone: z.map(|u| if u { Zone::Utc } else { Zone::Local }) }),
    ]
}

fn fmt_node(kind: impl Strategy<Value = Kind>, spec_weight: f64) -> impl Strategy<Value = Node> {
    (kind, prop::bool::ANY, prop::option::weighted(spec_weight, spec()))
        .prop_map(|(kind, long, spec)| Node::Fmt { kind, long, spec })
}

fn merge_lits(v: Vec<Node>) -> Vec<Node> {
    // adjacent literals are merged so that the printed escapes stay unambiguous
    let mut out: Vec<Node> = vec![];
    for n in v {
        match (out.last_mut(), &n) {
            (Some(Node::Lit { text, .. }), Node::Lit { text: t2, .. }) => text.push_str(t2),
            _ => out.push(n),
        }
    }
    out
}

/// Pattern strategy; `spec_weight` boosts spec-bearing shapes (C10).
pub fn pattern(spec_weight: f64) -> impl Strategy<Value = Pat> {
    let leaf = prop_oneof![
        2 => lit(),
        5 => fmt_node(leaf_kind(), spec_weight),
    ];
    let node = leaf.prop_recursive(4, 24, 4, move |inner| {
        let children = prop::collection::vec(inner, 0..=4).prop_map(merge_lits);
        prop_oneof![
            3 => fmt_node(children.clone().prop_map(Kind::Group), spec_weight),
            2 => fmt_node(children.clone().prop_map(Kind::Highlight), spec_weight),
            1 => fmt_node(children.clone().prop_map(Kind::Debug), spec_weight),
            1 => fmt_node(children.prop_map(Kind::Release), spec_weight),
        ]
    });
    prop::collection::vec(node, 0..=5).prop_map(merge_lits)
}

pub fn rec_text() -> impl Strategy<Value = String> {
    prop_oneof![
        25 => Just(String::new()),
        75 => "[a-z:]{1,12}",
        100 => text(12),
        // now and then a value around the sizes of typical I/O buffers (4/8/16/64 KiB), handed over in one piece
        2 => (prop::sample::select(vec![4095usize, 4096, 4097, 8191, 8192, 8193, 16384, 16385, 65536, 70_000]), prop::sample::select(vec!['a', 'é', '漢', '😀']), 0usize..3)
            .prop_map(|(n, c, lead)| format!("{}{}", "x".repeat(lead), c.to_string().repeat((n - lead) / c.len_utf8()))),
    ]
}

/// message split into 1-6 pieces at character positions
pub fn msg_pieces() -> impl Strategy<Value = Vec<String>> {
    (rec_text(), prop::collection::vec(any::<u16>(), 0..=5)).prop_map(|(s, cuts)| {
        let chars: Vec<char> = s.chars().collect();
        let mut pos: Vec<usize> = cuts.iter().map(|c| (*c as usize * (chars.len() + 1)) >> 16).collect();
        pos.sort();
        let mut out = vec![];
        let mut prev = 0;
        for p in pos {
            out.push(chars[prev..p].iter().collect::<String>());
            prev = p;
        }
        out.push(chars[prev..].iter().collect::<String>());
        out
    })
}

pub fn rec() -> impl Strategy<Value = Rec> {
    (
        0u8..5,
        prop_oneof![6 => msg_pieces(), 1 => prop::sample::select(MSG_LITERALS.to_vec()).prop_map(|l| vec![l.to_string()])],
        rec_text(),
        prop::option::weighted(0.7, prop_oneof![5 => rec_text(), 1 => prop::sample::select(static_sites().to_vec()).prop_map(|s| s.to_string())]),
        prop::option::weighted(0.7, prop_oneof![5 => rec_text(), 1 => prop::sample::select(static_sites().to_vec()).prop_map(|s| s.to_string())]),
        prop::option::weighted(0.7, prop_oneof![Just(0u32), Just(1), Just(u32::MAX), any::<u32>()]),
        prop::collection::vec((mdc_key(), text(6)), 0..=4),
    )
        .prop_map(|(level, msg, target, module, file, line, mdc)| Rec { level, msg, target, module, file, line, mdc })
}

/// downstream short-write script (0 = accept everything)
pub fn write_script() -> impl Strategy<Value = Vec<u8>> {
    prop_oneof![
        2 => Just(vec![]),
        3 => prop::collection::vec(0u8..=4, 1..=6),
        2 => prop::collection::vec(prop_oneof![6 => 0u8..=4, 2 => Just(SCRIPT_INTERRUPT)], 1..=6),
        1 => Just(vec![1]),
    ]
}
