//! C18 — console output obeys tty_only and colour policy; ANSI sequences are well-formed.

use crate::engine::*;
use crate::ensure;
use crate::pat::*;
use log4rs::append::console::{ConsoleAppender, Target};
use log4rs::append::Append;
use log4rs::encode::pattern::PatternEncoder;
use log4rs::encode::writer::ansi::AnsiWriter;
use log4rs::encode::{Color, Style, Write as EncWrite};
use proptest::prelude::*;
use serde::{Deserialize, Serialize};
use std::sync::Arc;
use std::io::{Read, Write};
use std::os::unix::io::{FromRawFd, RawFd};
use std::path::Path;
use std::process::{Command, Stdio};
use std::time::{Duration, Instant};

// ---- the child: a console appender and five records, nothing else on stdout/stderr -------------------

#[derive(Serialize, Deserialize, Debug, Clone)]
pub struct Cell {
    /// None = unset
    pub no_color: Option<String>,
    pub clicolor: Option<String>,
    pub clicolor_force: Option<String>,
    pub stdout_tty: bool,
    pub stderr_tty: bool,
    pub target_stderr: bool,
    pub tty_only: bool,
    pub pat: Pat,
    /// the child also builds (afterwards) an unrestricted appender for the other stream and logs through it too
    #[serde(default)]
    pub also_other: bool,
    /// how many times the five records are logged (shared-pipe stress)
    #[serde(default)]
    pub repeat: usize,
    /// a sixth record whose message is an argument-free literal (`info!("...")`: `Arguments::as_str()` is `Some`)
    #[serde(default)]
    pub literal: Option<u8>,
    /// the builder is told `tty_only` before it is told the target
    #[serde(default)]
    pub tty_only_first: bool,
    /// between the third and the fourth record the encoder refuses one record (append reports the error); the
    /// records after it must appear as usual
    #[serde(default)]
    pub refuse_one: bool,
    /// the appender is built by the `console` deserializer from a configuration section (target, tty_only, encoder
    /// pattern; keys left out where the value is the documented default) instead of the builder
    #[serde(default)]
    pub via_config: bool,
    /// further environment of the child (None = removed): variables other conventions look at - TERM, FORCE_COLOR,
    /// COLORTERM, CI ... - none of which has a say in the colour policy of the statement
    #[serde(default)]
    pub extra_env: Vec<(String, Option<String>)>,
    /// this many threads log the five records `repeat` times each through the ONE appender, at the same time, with a
    /// message that takes a moment to format (part threads)
    #[serde(default)]
    pub threads: u8,
}

/// A message whose formatting takes a moment (another thread gets the chance to call append meanwhile).
struct SlowMsg<'a>(&'a str);

impl<'a> std::fmt::Display for SlowMsg<'a> {
    fn fmt(&self, f: &mut std::fmt::Formatter) -> std::fmt::Result {
        std::thread::sleep(Duration::from_micros(300));
        f.write_str(self.0)
    }
}

/// What the encoder has written of the record it gives up on half-way.
const PARTIAL: &str = "<<partial record of the target appender ";

/// Refuses records whose message is "refuse-me"; everything else goes to the real encoder.
#[derive(Debug)]
struct Refusing(PatternEncoder);

impl log4rs::encode::Encode for Refusing {
    fn encode(&self, w: &mut dyn EncWrite, record: &log::Record) -> anyhow::Result<()> {
        if record.args().to_string() == "refuse-me" {
            anyhow::bail!("verif: the encoder refuses this record");
        }
        if record.args().to_string() == "refuse-me-half-way" {
            // part of the record is out already when the encoder gives up
            w.write_all(PARTIAL.as_bytes())?;
            anyhow::bail!("verif: the encoder gives up half-way through this record");
        }
        self.0.encode(w, record)
    }
}

macro_rules! x16 {
    ($s:expr) => {
        concat!($s, $s, $s, $s, $s, $s, $s, $s, $s, $s, $s, $s, $s, $s, $s, $s)
    };
}
macro_rules! lit0 {
    () => {
        "plain literal message"
    };
}
macro_rules! lit1 {
    () => {
        concat!("first line\n", x16!(x16!(x16!("x"))), "|tail")
    };
}
macro_rules! lit2 {
    () => {
        concat!(x16!(x16!(x16!("ab"))), x16!(x16!("c")), "|end of a long single line")
    };
}
macro_rules! lit3 {
    () => {
        ""
    };
}
macro_rules! lit4 {
    () => {
        concat!(x16!(x16!("é")), "\n", x16!(x16!(x16!("漢"))), "\n", x16!(x16!("z")))
    };
}
pub const LITERALS: [&str; 5] = [lit0!(), lit1!(), lit2!(), lit3!(), lit4!()];

fn with_literal_record<R>(k: u8, f: impl FnOnce(&log::Record) -> R) -> R {
    let b = |args: std::fmt::Arguments| -> R {
        debug_assert!(args.as_str().is_some());
        f(&log::Record::builder().args(args).level(log::Level::Info).target("app::mod").module_path(Some("m")).line(Some(3)).build())
    };
    match k % 5 {
        0 => b(format_args!(lit0!())),
        1 => b(format_args!(lit1!())),
        2 => b(format_args!(lit2!())),
        3 => b(format_args!(lit3!())),
        _ => b(format_args!(lit4!())),
    }
}

fn records() -> Vec<Rec> {
    (0..5u8)
        .map(|l| Rec { level: l, msg: vec![format!("msg{} é", l)], target: "app::mod".into(), module: Some("m".into()), file: None, line: Some(3), mdc: vec![] })
        .collect()
}

/// What the child logs through the target appender, in order.
fn records_of(cell: &Cell) -> Vec<Rec> {
    let mut v = records();
    if let Some(k) = cell.literal {
        v.push(Rec { level: 2, msg: vec![LITERALS[k as usize % 5].to_string()], target: "app::mod".into(), module: Some("m".into()), file: None, line: Some(3), mdc: vec![] });
    }
    v
}

fn target_is_tty(cell: &Cell) -> bool {
    if cell.target_stderr { cell.stderr_tty } else { cell.stdout_tty }
}

pub fn child_main(args: &[String]) -> i32 {
    let Some(file) = args.first() else { return 2 };
    let cell: Cell = serde_json::from_str(&std::fs::read_to_string(file).expect("case file")).expect("case json");
    let target = if cell.target_stderr { Target::Stderr } else { Target::Stdout };
    let encoder = Box::new(Refusing(PatternEncoder::new(&print(&cell.pat, false))));
    let app: Box<dyn Append> = if cell.via_config && !cell.refuse_one {
        use serde_value::Value as V;
        let s = |x: &str| V::String(x.to_string());
        let mut enc = std::collections::BTreeMap::new();
        enc.insert(s("kind"), s("pattern"));
        enc.insert(s("pattern"), s(&print(&cell.pat, false)));
        let mut m = std::collections::BTreeMap::new();
        // documented defaults: target stdout, tty_only false - left out in every other cell that has them
        if cell.target_stderr || cell.tty_only_first {
            m.insert(s("target"), s(if cell.target_stderr { "stderr" } else { "stdout" }));
        }
        if cell.tty_only || !cell.tty_only_first {
            m.insert(s("tty_only"), V::Bool(cell.tty_only));
        }
        m.insert(s("encoder"), V::Map(enc));
        match log4rs::config::Deserializers::default().deserialize::<dyn Append>("console", V::Map(m)) {
            Ok(a) => a,
            Err(_) => return 5,
        }
    } else if cell.tty_only_first {
        Box::new(ConsoleAppender::builder().tty_only(cell.tty_only).encoder(encoder).target(target).build())
    } else {
        Box::new(ConsoleAppender::builder().target(target).tty_only(cell.tty_only).encoder(encoder).build())
    };
    let other = if cell.also_other {
        Some(
            ConsoleAppender::builder()
                .target(if cell.target_stderr { Target::Stdout } else { Target::Stderr })
                .encoder(Box::new(PatternEncoder::new(&print(&cell.pat, false))))
                .build(),
        )
    } else {
        None
    };
    if cell.threads >= 2 {
        let app: Arc<Box<dyn Append>> = Arc::new(app);
        let failed = Arc::new(std::sync::atomic::AtomicBool::new(false));
        let barrier = Arc::new(std::sync::Barrier::new(cell.threads as usize));
        let hs: Vec<_> = (0..cell.threads)
            .map(|_| {
                let (app, failed, barrier, repeat) = (app.clone(), failed.clone(), barrier.clone(), cell.repeat.max(1));
                std::thread::spawn(move || {
                    barrier.wait();
                    for _ in 0..repeat {
                        for r in records() {
                            let text = r.message();
                            let rec_ok = app
                                .append(&log::Record::builder().args(format_args!("{}", SlowMsg(&text))).level(r.level()).target(&r.target).module_path(r.module.as_deref()).line(r.line).build())
                                .is_ok();
                            if !rec_ok {
                                failed.store(true, std::sync::atomic::Ordering::SeqCst);
                            }
                        }
                    }
                })
            })
            .collect();
        for h in hs {
            if h.join().is_err() {
                return 6;
            }
        }
        if failed.load(std::sync::atomic::Ordering::SeqCst) {
            return 3;
        }
        unsafe { libc::_exit(0) }
    }
    for _ in 0..cell.repeat.max(1) {
        for (i, r) in records().into_iter().enumerate() {
            if cell.refuse_one && i == 3 {
                let refused = Rec { level: 0, msg: vec!["refuse-me".into()], target: "app::mod".into(), module: None, file: None, line: None, mdc: vec![] };
                // (an appender that does not write at all - tty_only off a terminal - never reaches the encoder)
                let r = with_rec(&refused, |rec| app.append(rec));
                if r.is_ok() && !(cell.tty_only && !target_is_tty(&cell)) {
                    return 4;
                }
            }
            if with_rec(&r, |rec| app.append(rec)).is_err() {
                return 3;
            }
        }
    }
    if let Some(k) = cell.literal {
        if with_literal_record(k, |rec| app.append(rec)).is_err() {
            return 3;
        }
    }
    if cell.refuse_one && other.is_some() {
        // the last thing the target appender does: an encoder that gives up half-way. What it had written belongs to the
        // target stream; the appender of the other stream, logging next on the same thread, writes its own records only
        let refused = Rec { level: 0, msg: vec!["refuse-me-half-way".into()], target: "app::mod".into(), module: None, file: None, line: None, mdc: vec![] };
        let r = with_rec(&refused, |rec| app.append(rec));
        if r.is_ok() && !(cell.tty_only && !target_is_tty(&cell)) {
            return 4;
        }
    }
    if let Some(o) = other {
        for r in records() {
            if with_rec(&r, |rec| o.append(rec)).is_err() {
                return 3;
            }
        }
    }
    // the process ends here and now, without the runtime's farewell flush of stdout: what an append has returned
    // from is on the stream already (a crash right after logging must not lose the record)
    unsafe { libc::_exit(0) }
}

// ---- pty plumbing ------------------------------------------------------------------------------------------

fn open_pty() -> Result<(RawFd, RawFd), String> {
    let mut master: libc::c_int = 0;
    let mut slave: libc::c_int = 0;
    let r = unsafe { libc::openpty(&mut master, &mut slave, std::ptr::null_mut(), std::ptr::null(), std::ptr::null()) };
    if r != 0 {
        return Err(format!("openpty failed: {}", std::io::Error::last_os_error()));
    }
    unsafe {
        let mut t: libc::termios = std::mem::zeroed();
        if libc::tcgetattr(slave, &mut t) == 0 {
            libc::cfmakeraw(&mut t);
            libc::tcsetattr(slave, libc::TCSANOW, &t);
        }
    }
    Ok((master, slave))
}

/// Reads a pty master until the child is gone and the line has been silent for a while. The parent keeps a slave
/// descriptor open meanwhile: on Linux, output still travelling through the line discipline is discarded when the
/// last slave closes, which would look like a truncated stream.
fn drain(fd: RawFd, child_gone: Arc<std::sync::atomic::AtomicBool>) -> std::thread::JoinHandle<Vec<u8>> {
    std::thread::spawn(move || {
        let mut f = unsafe { std::fs::File::from_raw_fd(fd) };
        let mut out = vec![];
        let mut buf = [0u8; 4096];
        let mut silent_after_exit = 0;
        loop {
            let mut p = libc::pollfd { fd, events: libc::POLLIN, revents: 0 };
            let r = unsafe { libc::poll(&mut p, 1, 20) };
            if r > 0 && (p.revents & libc::POLLIN) != 0 {
                match f.read(&mut buf) {
                    Ok(0) => break,
                    Ok(n) => {
                        out.extend_from_slice(&buf[..n]);
                        silent_after_exit = 0;
                    }
                    Err(e) if e.kind() == std::io::ErrorKind::Interrupted => continue,
                    Err(_) => break,
                }
            } else if r > 0 {
                break; // POLLHUP/POLLERR without data
            } else if child_gone.load(std::sync::atomic::Ordering::SeqCst) {
                silent_after_exit += 1;
                if silent_after_exit >= 5 {
                    break;
                }
            }
        }
        out
    })
}

struct ChildRun {
    stdout: Vec<u8>,
    stderr: Vec<u8>,
    code: Option<i32>,
}

fn run_cell(tmp: &Path, cell: &Cell) -> Result<ChildRun, String> {
    let exe = std::env::current_exe().map_err(|e| e.to_string())?;
    let dir = scratch(tmp, "c18");
    let file = dir.join("cell.json");
    std::fs::write(&file, serde_json::to_string(cell).unwrap()).map_err(|e| e.to_string())?;
    let mut cmd = Command::new(exe);
    cmd.arg("child").arg("c18").arg(&file).stdin(Stdio::null());
    for k in ["NO_COLOR", "CLICOLOR", "CLICOLOR_FORCE"] {
        cmd.env_remove(k);
    }
    if let Some(v) = &cell.no_color {
        cmd.env("NO_COLOR", v);
    }
    if let Some(v) = &cell.clicolor {
        cmd.env("CLICOLOR", v);
    }
    if let Some(v) = &cell.clicolor_force {
        cmd.env("CLICOLOR_FORCE", v);
    }
    for (k, v) in &cell.extra_env {
        match v {
            Some(v) => cmd.env(k, v),
            None => cmd.env_remove(k),
        };
    }
    let mut masters: [Option<RawFd>; 2] = [None, None];
    let mut kept_slaves: Vec<RawFd> = vec![];
    let child_gone = Arc::new(std::sync::atomic::AtomicBool::new(false));
    if cell.stdout_tty {
        let (m, s) = open_pty()?;
        masters[0] = Some(m);
        kept_slaves.push(unsafe { libc::fcntl(s, libc::F_DUPFD_CLOEXEC, 3) });
        cmd.stdout(unsafe { Stdio::from_raw_fd(s) });
    } else {
        cmd.stdout(Stdio::piped());
    }
    if cell.stderr_tty {
        let (m, s) = open_pty()?;
        masters[1] = Some(m);
        kept_slaves.push(unsafe { libc::fcntl(s, libc::F_DUPFD_CLOEXEC, 3) });
        cmd.stderr(unsafe { Stdio::from_raw_fd(s) });
    } else {
        cmd.stderr(Stdio::piped());
    }
    let mut child = cmd.spawn().map_err(|e| e.to_string())?;
    drop(cmd); // closes the descriptors handed to the child; `kept_slaves` stay open until the masters are drained
    let h_out = match masters[0] {
        Some(m) => drain(m, child_gone.clone()),
        None => {
            let mut p = child.stdout.take().unwrap();
            std::thread::spawn(move || {
                let mut v = vec![];
                let _ = p.read_to_end(&mut v);
                v
            })
        }
    };
    let h_err = match masters[1] {
        Some(m) => drain(m, child_gone.clone()),
        None => {
            let mut p = child.stderr.take().unwrap();
            std::thread::spawn(move || {
                let mut v = vec![];
                let _ = p.read_to_end(&mut v);
                v
            })
        }
    };
    let start = Instant::now();
    let status = loop {
        match child.try_wait().map_err(|e| e.to_string())? {
            Some(s) => break s,
            None => {
                if start.elapsed() > Duration::from_secs(30) {
                    let _ = child.kill();
                    eprintln!("[lv] C18 child hung: infrastructure trouble");
                    std::process::exit(2);
                }
                std::thread::sleep(Duration::from_micros(200));
            }
        }
    };
    child_gone.store(true, std::sync::atomic::Ordering::SeqCst);
    let stdout = h_out.join().unwrap_or_default();
    let stderr = h_err.join().unwrap_or_default();
    for s in kept_slaves {
        if s >= 0 {
            unsafe { libc::close(s) };
        }
    }
    let _ = std::fs::remove_dir_all(&dir);
    Ok(ChildRun { stdout, stderr, code: status.code() })
}

// ---- oracle -------------------------------------------------------------------------------------------------

/// Splits output into plain text and escape sequences; Err on a malformed sequence.
pub fn strip_sgr(b: &[u8]) -> Result<(Vec<u8>, Vec<Vec<u8>>), String> {
    let mut text = vec![];
    let mut seqs = vec![];
    let mut i = 0;
    while i < b.len() {
        if b[i] == 0x1b {
            // ESC [ (digits (; digits)*)? m
            let start = i;
            if i + 1 >= b.len() || b[i + 1] != b'[' {
                return Err(format!("ESC not followed by '[' at byte {}", i));
            }
            i += 2;
            let mut need_digit = false;
            let mut any = false;
            loop {
                if i >= b.len() {
                    return Err(format!("unterminated escape sequence at byte {}", start));
                }
                match b[i] {
                    b'0'..=b'9' => {
                        need_digit = false;
                        any = true;
                        i += 1;
                    }
                    b';' if any && !need_digit => {
                        need_digit = true;
                        i += 1;
                    }
                    b'm' if !need_digit => {
                        i += 1;
                        break;
                    }
                    c => return Err(format!("byte {:#x} inside an escape sequence at {}", c, i)),
                }
            }
            seqs.push(b[start..i].to_vec());
        } else {
            text.push(b[i]);
            i += 1;
        }
    }
    Ok((text, seqs))
}

fn colour_enabled(cell: &Cell, target_tty: bool, strict_zero: bool) -> bool {
    // strict_zero: the value "0" counts as "set" (the statement's wording); otherwise "0" means off (the informal standard)
    let on = |v: &Option<String>| -> bool {
        match v {
            None => false,
            Some(s) => strict_zero || s != "0",
        }
    };
    if on(&cell.no_color) {
        return false;
    }
    if on(&cell.clicolor_force) {
        return true;
    }
    if cell.clicolor.as_deref() == Some("0") {
        return false;
    }
    target_tty
}

fn env_class(cell: &Cell) -> String {
    let set = |v: &Option<String>| v.as_deref().map_or(false, |s| s != "0");
    if set(&cell.no_color) {
        "NO_COLOR"
    } else if set(&cell.clicolor_force) {
        "CLICOLOR_FORCE"
    } else if cell.clicolor.as_deref() == Some("0") {
        "CLICOLOR=0"
    } else {
        "auto"
    }
    .to_string()
}

fn has_highlight(p: &[Node]) -> bool {
    count_nodes(p, &|n| matches!(n, Node::Fmt { kind: Kind::Highlight(_), .. })) > 0
}

pub fn check_cell(tmp: &Path, cell: &Cell, obs: &mut Obs) -> CaseResult {
    let run = match run_cell(tmp, cell) {
        Ok(r) => r,
        Err(e) => {
            eprintln!("[lv] C18: cannot run a child with the requested terminals ({}): infrastructure trouble, not a pass", e);
            std::process::exit(2);
        }
    };
    ensure!(run.code == Some(0), "C18:child-failed", "child exited with {:?}; stderr {:?}", run.code, String::from_utf8_lossy(&run.stderr));
    let (target_bytes, other_bytes, target_tty) = if cell.target_stderr { (&run.stderr, &run.stdout, cell.stderr_tty) } else { (&run.stdout, &run.stderr, cell.stdout_tty) };
    let cls = format!("{}:{}", env_class(cell), if target_tty { "tty" } else { "pipe" });
    let env = Env { thread_name: "main".into(), debug_build: cfg!(debug_assertions), now_secs: 0 };
    let expected: String = records_of(cell).iter().map(|r| render(&cell.pat, r, &env)).collect();
    // the partial output of the record the target's encoder gave up on belongs to the target stream, at its very end -
    // if it gets there at all: the appender does not flush after a failed encode, and the child ends without a farewell
    // flush. What is asserted is that it shows up nowhere else (the other stream is compared exactly below).
    let partial_due = cell.refuse_one && cell.also_other && (!cell.tty_only || target_tty);
    let trimmed: Vec<u8>;
    let partial_at = if partial_due { target_bytes.windows(PARTIAL.len()).rposition(|w| w == PARTIAL.as_bytes()) } else { None };
    let target_bytes: &Vec<u8> = match partial_at {
        Some(p) => {
            // (nothing but escape sequences may follow it)
            let tail = strip_sgr(&target_bytes[p + PARTIAL.len()..]).map(|x| x.0).unwrap_or_else(|_| vec![b'?']);
            ensure!(tail.is_empty(), "C18:text-differs", "text follows the partial output of the last (failed) record on the target stream: {:?}", String::from_utf8_lossy(&tail));
            trimmed = target_bytes[..p].to_vec();
            &trimmed
        }
        None => target_bytes,
    };
    obs.class_if(partial_due, "encoder-gave-up-half-way-before-the-other-appender-logged");
    if cell.also_other {
        // the second appender (unrestricted) owns the other stream: its colour decision follows ITS stream
        let other_tty = if cell.target_stderr { cell.stdout_tty } else { cell.stderr_tty };
        let (text, seqs) = strip_sgr(other_bytes).map_err(|e| Failure { sig: "C18:malformed-escape".into(), msg: format!("{} in {:?}", e, String::from_utf8_lossy(other_bytes)) })?;
        let expected_other: String = records().iter().map(|r| render(&cell.pat, r, &env)).collect();
        ensure!(text == expected_other.as_bytes(), "C18:text-differs", "second appender (other stream, terminal={}): {:?}, expected {:?}", other_tty, String::from_utf8_lossy(&text), expected_other);
        let (e1, e2) = (colour_enabled(cell, other_tty, false), colour_enabled(cell, other_tty, true));
        if e1 == e2 {
            if !e1 {
                ensure!(seqs.is_empty(), format!("C18:escapes-when-disabled:second-appender:{}", if other_tty { "tty" } else { "pipe" }), "a process with appenders on both streams: the appender on the {} stream wrote {} escape sequence(s) although colour is disabled there", if other_tty { "terminal" } else { "non-terminal" }, seqs.len());
            } else if has_highlight(&cell.pat) {
                ensure!(!seqs.is_empty(), format!("C18:no-escapes-when-enabled:second-appender:{}", if other_tty { "tty" } else { "pipe" }), "a process with appenders on both streams: the appender on the terminal stream wrote no escape sequence");
            }
        }
        obs.class("appenders-on-both-streams");
    } else {
        ensure!(other_bytes.is_empty(), "C18:wrong-stream", "{} bytes appeared on the stream that is not the target: {:?}", other_bytes.len(), String::from_utf8_lossy(other_bytes));
    }
    let should_write = !cell.tty_only || target_tty;
    if !should_write {
        ensure!(
            target_bytes.is_empty(),
            format!("C18:tty-only:{}", cls),
            "tty_only appender wrote {} bytes although its target is not a terminal (NO_COLOR={:?} CLICOLOR={:?} CLICOLOR_FORCE={:?})", target_bytes.len(), cell.no_color, cell.clicolor, cell.clicolor_force
        );
    } else {
        let (text, seqs) = strip_sgr(target_bytes).map_err(|e| Failure { sig: "C18:malformed-escape".into(), msg: format!("{} in {:?}", e, String::from_utf8_lossy(target_bytes)) })?;
        ensure!(
            text == expected.as_bytes(),
            if text.is_empty() && cell.tty_only { format!("C18:tty-only:{}", cls) } else { "C18:text-differs".to_string() },
            "target stream (terminal={}, tty_only={}, NO_COLOR={:?} CLICOLOR={:?} CLICOLOR_FORCE={:?}) carries {:?} after stripping escapes, expected {:?}", target_tty, cell.tty_only, cell.no_color, cell.clicolor, cell.clicolor_force, String::from_utf8_lossy(&text), expected
        );
        let e1 = colour_enabled(cell, target_tty, false);
        let e2 = colour_enabled(cell, target_tty, true);
        if e1 == e2 {
            if !e1 {
                ensure!(seqs.is_empty(), format!("C18:escapes-when-disabled:{}", cls), "colour is disabled (NO_COLOR={:?} CLICOLOR={:?} CLICOLOR_FORCE={:?}, terminal={}) but {} escape sequence(s) were written", cell.no_color, cell.clicolor, cell.clicolor_force, target_tty, seqs.len());
            } else if has_highlight(&cell.pat) {
                ensure!(!seqs.is_empty(), format!("C18:no-escapes-when-enabled:{}", cls), "colour is enabled (NO_COLOR={:?} CLICOLOR={:?} CLICOLOR_FORCE={:?}, terminal={}) and the pattern highlights, but no escape sequence was written", cell.no_color, cell.clicolor, cell.clicolor_force, target_tty);
            }
        } else {
            obs.class("env-value-0-ambiguous(either accepted)");
        }
        // with colour on, every style request of the pattern arrives as one sequence, in its place between the text
        if e1 && e2 {
            let mut got: Vec<Item> = vec![];
            let mut i = 0;
            let b = target_bytes;
            let mut si = 0;
            let mut text_run: Vec<u8> = vec![];
            while i < b.len() {
                if b[i] == 0x1b {
                    let seq = &seqs[si];
                    si += 1;
                    i += seq.len();
                    if !text_run.is_empty() {
                        got.push(Item::Text(String::from_utf8_lossy(&text_run).to_string()));
                        text_run.clear();
                    }
                    got.push(if seq.as_slice() == b"\x1b[0m" || seq.as_slice() == b"\x1b[m" { Item::StyleOff } else { Item::StyleOn });
                } else {
                    text_run.push(b[i]);
                    i += 1;
                }
            }
            if !text_run.is_empty() {
                got.push(Item::Text(String::from_utf8_lossy(&text_run).to_string()));
            }
            let mut want: Vec<Item> = vec![];
            for r in records_of(cell).iter() {
                for it in render_items(&cell.pat, r, &env) {
                    match (want.last_mut(), &it) {
                        (Some(Item::Text(a)), Item::Text(t)) => a.push_str(t),
                        _ => want.push(it),
                    }
                }
            }
            ensure!(got == want, "C18:style-sequence", "colour is enabled: the stream carries {:?}; the pattern asks for {:?}", got, want);
        }
        // every styled stretch is followed by a reset
        let mut styled = false;
        for s in &seqs {
            styled = !(s.as_slice() == b"\x1b[0m" || s.as_slice() == b"\x1b[m");
        }
        ensure!(!styled, "C18:missing-reset", "the last escape sequence {:?} is not a reset", seqs.last().map(|s| String::from_utf8_lossy(s).to_string()));
    }
    let tty_colour_disagree = (colour_enabled(cell, target_tty, false) != target_tty) && should_write;
    obs.nontrivial = tty_colour_disagree || (cell.tty_only && !target_tty) || (cell.tty_only && cell.no_color.is_some());
    obs.class(format!("cell={}", cls));
    obs.class_if(cell.tty_only, "tty_only");
    obs.class_if(tty_colour_disagree, "tty-and-colour-decision-disagree");
    Ok(())
}

fn sanitize(p: Pat) -> Pat {
    p.into_iter()
        .map(|n| match n {
            Node::Fmt { kind, long, spec } => {
                let kind = match kind {
                    Kind::Date { .. } | Kind::Thread | Kind::ThreadId | Kind::Pid | Kind::Tid => Kind::Level,
                    Kind::Group(c) => Kind::Group(sanitize(c)),
                    Kind::Highlight(c) => Kind::Highlight(sanitize(c)),
                    Kind::Debug(c) => Kind::Debug(sanitize(c)),
                    Kind::Release(c) => Kind::Release(sanitize(c)),
                    k => k,
                };
                Node::Fmt { kind, long, spec }
            }
            // raw ESC in literal text would be indistinguishable from styling
            Node::Lit { text, esc } => Node::Lit { text: text.replace('\u{1b}', "?"), esc },
        })
        .collect()
}

fn cell_pattern() -> impl Strategy<Value = Pat> {
    // always at least one highlight group around the level, plus generated structure
    (pattern(0.4), pattern(0.4), prop::option::of(spec())).prop_map(|(inner, tail, sp)| {
        let mut p = vec![Node::Fmt { kind: Kind::Highlight(sanitize(inner)), long: false, spec: sp }];
        p.push(Node::Lit { text: " ".into(), esc: 0 });
        p.extend(sanitize(tail));
        p.push(Node::Fmt { kind: Kind::Newline, long: false, spec: None });
        // merge adjacent literals
        let mut out: Pat = vec![];
        for n in p {
            match (out.last_mut(), &n) {
                (Some(Node::Lit { text, .. }), Node::Lit { text: t2, .. }) => text.push_str(t2),
                _ => out.push(n),
            }
        }
        out
    })
}

fn cell_at(idx: usize, pat: Pat) -> Cell {
    let v = |k: usize| -> Option<String> {
        match k {
            0 => None,
            1 => Some("0".into()),
            _ => Some("1".into()),
        }
    };
    let mut i = idx;
    let nc = i % 3;
    i /= 3;
    let cc = i % 3;
    i /= 3;
    let cf = i % 3;
    i /= 3;
    let so = i % 2;
    i /= 2;
    let se = i % 2;
    i /= 2;
    let tg = i % 2;
    i /= 2;
    let to = i % 2;
    Cell { no_color: v(nc), clicolor: v(cc), clicolor_force: v(cf), stdout_tty: so == 1, stderr_tty: se == 1, target_stderr: tg == 1, tty_only: to == 1, pat, also_other: false, repeat: 1, literal: None, tty_only_first: false, refuse_one: false, via_config: false, extra_env: vec![], threads: 0 }
}

pub const CELLS: usize = 27 * 2 * 2 * 2 * 2;

// ---- the style space -----------------------------------------------------------------------------------------

const COLORS: [Option<Color>; 9] =
    [None, Some(Color::Black), Some(Color::Red), Some(Color::Green), Some(Color::Yellow), Some(Color::Blue), Some(Color::Magenta), Some(Color::Cyan), Some(Color::White)];
const INTENSE: [Option<bool>; 3] = [None, Some(false), Some(true)];

fn mk_style(t: usize, b: usize, i: usize) -> Style {
    let mut s = Style::new();
    if let Some(c) = COLORS[t] {
        s.text(c);
    }
    if let Some(c) = COLORS[b] {
        s.background(c);
    }
    if let Some(x) = INTENSE[i] {
        s.intense(x);
    }
    s
}

#[derive(Serialize, Deserialize, Debug, Clone)]
pub struct StyleCase {
    pub prev: (usize, usize, usize),
    pub style: (usize, usize, usize),
}

#[derive(Debug, Clone, Copy, PartialEq, Default)]
struct Sgr {
    fg: Option<u8>,
    bg: Option<u8>,
    bold: bool,
}

/// Harness SGR interpreter: 0 reset, 30-37, 40-47, 1, 22.
fn apply_sgr(state: &mut Sgr, seq: &[u8]) -> Result<(), String> {
    let body = &seq[2..seq.len() - 1];
    let params: Vec<&[u8]> = if body.is_empty() { vec![b"0"] } else { body.split(|c| *c == b';').collect() };
    for p in params {
        let n: u32 = std::str::from_utf8(p).ok().and_then(|s| s.parse().ok()).ok_or("bad parameter")?;
        match n {
            0 => *state = Sgr::default(),
            1 => state.bold = true,
            22 => state.bold = false,
            30..=37 => state.fg = Some((n - 30) as u8),
            40..=47 => state.bg = Some((n - 40) as u8),
            other => return Err(format!("unexpected SGR parameter {}", other)),
        }
    }
    Ok(())
}

fn color_index(c: Option<Color>) -> Option<u8> {
    c.map(|c| match c {
        Color::Black => 0,
        Color::Red => 1,
        Color::Green => 2,
        Color::Yellow => 3,
        Color::Blue => 4,
        Color::Magenta => 5,
        Color::Cyan => 6,
        Color::White => 7,
    })
}

pub fn check_style(c: &StyleCase, obs: &mut Obs) -> CaseResult {
    let prev = mk_style(c.prev.0, c.prev.1, c.prev.2);
    let style = mk_style(c.style.0, c.style.1, c.style.2);
    let mut state = Sgr::default();
    let mut w = AnsiWriter(Vec::<u8>::new());
    for (which, s) in [("previous", &prev), ("requested", &style)] {
        let before = w.0.len();
        match catch(|| w.set_style(s)) {
            Err(p) => {
                let sig = if p.contains("index out of bounds") { "C18:panic:ansi-buffer" } else { "C18:panic:set_style" };
                return fail(sig, format!("AnsiWriter::set_style({:?}) panicked: {}", s, p));
            }
            Ok(Err(e)) => return fail("C18:set_style-error", format!("set_style returned {}", e)),
            Ok(Ok(())) => {}
        }
        let emitted = w.0[before..].to_vec();
        let (text, seqs) = strip_sgr(&emitted).map_err(|e| Failure { sig: "C18:malformed-escape".into(), msg: format!("{} style {:?} emitted {:?}: {}", which, s, String::from_utf8_lossy(&emitted), e) })?;
        ensure!(text.is_empty() && seqs.len() == 1, "C18:not-one-sequence", "{} style {:?} emitted {:?}: expected exactly one SGR sequence", which, s, String::from_utf8_lossy(&emitted));
        apply_sgr(&mut state, &seqs[0]).map_err(|e| Failure { sig: "C18:malformed-escape".into(), msg: e })?;
    }
    let want = Sgr { fg: color_index(COLORS[c.style.0]), bg: color_index(COLORS[c.style.1]), bold: INTENSE[c.style.2] == Some(true) };
    ensure!(state == want, "C18:wrong-attributes", "after {:?} then {:?} a terminal shows {:?}, requested {:?} (unspecified attributes at their defaults)", prev, style, state, want);
    obs.nontrivial = c.style.0 != 0 && c.style.1 != 0 && c.style.2 != 0;
    Ok(())
}

#[derive(Serialize, Deserialize, Debug, Clone)]
pub struct Interleave {
    pub ops: Vec<(Option<(usize, usize, usize)>, Vec<u8>)>,
}

pub fn check_interleave(c: &Interleave, obs: &mut Obs) -> CaseResult {
    let mut w = AnsiWriter(Vec::<u8>::new());
    let mut want = vec![];
    for (style, bytes) in &c.ops {
        if let Some(s) = style {
            match catch(|| w.set_style(&mk_style(s.0, s.1, s.2))) {
                Err(p) => return fail(if p.contains("index out of bounds") { "C18:panic:ansi-buffer" } else { "C18:panic:set_style" }, p),
                Ok(r) => r.map_err(|e| Failure { sig: "C18:set_style-error".into(), msg: e.to_string() })?,
            }
        }
        w.write_all(bytes).unwrap();
        want.extend_from_slice(bytes);
    }
    let (text, seqs) = strip_sgr(&w.0).map_err(|e| Failure { sig: "C18:malformed-escape".into(), msg: e })?;
    ensure!(text == want, "C18:text-differs", "bytes written through the AnsiWriter were altered");
    ensure!(seqs.len() == c.ops.iter().filter(|o| o.0.is_some()).count(), "C18:not-one-sequence", "{} sequences for {} style requests", seqs.len(), c.ops.iter().filter(|o| o.0.is_some()).count());
    obs.nontrivial = seqs.len() >= 2;
    Ok(())
}

/// Several processes write highlighted records to ONE pipe at the same time: whatever the interleaving of
/// their write calls, every escape sequence in the combined stream must be well-formed (one style request =
/// one sequence that is not torn apart).
#[derive(Serialize, Deserialize, Debug, Clone)]
pub struct Shared {
    pub children: usize,
    pub repeat: usize,
}

pub fn check_shared(tmp: &Path, c: &Shared, obs: &mut Obs) -> CaseResult {
    let exe = std::env::current_exe().map_err(|e| Failure { sig: "C18:harness".into(), msg: e.to_string() })?;
    let dir = scratch(tmp, "c18s");
    let pat = vec![
        Node::Fmt { kind: Kind::Highlight(vec![Node::Fmt { kind: Kind::Message, long: false, spec: None }]), long: false, spec: None },
        Node::Fmt { kind: Kind::Newline, long: false, spec: None },
    ];
    let cell = Cell { no_color: None, clicolor: None, clicolor_force: Some("1".into()), stdout_tty: false, stderr_tty: false, target_stderr: true, tty_only: false, pat, also_other: false, repeat: c.repeat, literal: None, tty_only_first: false, refuse_one: false, via_config: false, extra_env: vec![], threads: 0 };
    let file = dir.join("cell.json");
    std::fs::write(&file, serde_json::to_string(&cell).unwrap()).unwrap();
    let mut fds = [0 as libc::c_int; 2];
    if unsafe { libc::pipe(fds.as_mut_ptr()) } != 0 {
        eprintln!("[lv] pipe() failed: infrastructure trouble");
        std::process::exit(2);
    }
    let reader = drain(fds[0], Arc::new(std::sync::atomic::AtomicBool::new(false)));
    let mut kids = vec![];
    for _ in 0..c.children {
        let w = unsafe { libc::dup(fds[1]) };
        let mut cmd = Command::new(&exe);
        cmd.arg("child").arg("c18").arg(&file).stdin(Stdio::null()).stdout(Stdio::null()).stderr(unsafe { Stdio::from_raw_fd(w) });
        for k in ["NO_COLOR", "CLICOLOR"] {
            cmd.env_remove(k);
        }
        cmd.env("CLICOLOR_FORCE", "1");
        kids.push(cmd.spawn().map_err(|e| Failure { sig: "C18:harness".into(), msg: e.to_string() })?);
        drop(cmd);
    }
    unsafe { libc::close(fds[1]) };
    for mut k in kids {
        let st = k.wait().map_err(|e| Failure { sig: "C18:harness".into(), msg: e.to_string() })?;
        ensure!(st.code() == Some(0), "C18:child-failed", "child exited with {:?}", st.code());
    }
    let bytes = reader.join().unwrap_or_default();
    let _ = std::fs::remove_dir_all(&dir);
    let (text, seqs) = strip_sgr(&bytes).map_err(|e| Failure { sig: "C18:torn-escape".into(), msg: format!("{} processes sharing one pipe: {} (around {:?})", c.children, e, String::from_utf8_lossy(&bytes[..bytes.len().min(120)])) })?;
    let want_lines = c.children * c.repeat.max(1) * 5;
    let lines = text.iter().filter(|b| **b == b'\n').count();
    ensure!(lines == want_lines, "C18:text-differs", "{} lines arrived, {} were written", lines, want_lines);
    obs.sub_evals += seqs.len() as u64;
    obs.nontrivial = true;
    Ok(())
}

/// Several threads of one process log through one console appender at the same time: every record arrives, whole,
/// with its escape sequences intact - with colour on (forced on a pipe / terminal) and off alike.
#[derive(Serialize, Deserialize, Debug, Clone)]
pub struct Threads {
    pub threads: u8,
    pub repeat: usize,
    pub colour: bool,
    pub stderr: bool,
    pub tty: bool,
}

pub fn check_threads(tmp: &Path, c: &Threads, obs: &mut Obs) -> CaseResult {
    let pat = vec![
        Node::Fmt { kind: Kind::Highlight(vec![Node::Fmt { kind: Kind::Level, long: false, spec: None }, Node::Lit { text: " ".into(), esc: 0 }, Node::Fmt { kind: Kind::Message, long: false, spec: None }]), long: false, spec: None },
        Node::Fmt { kind: Kind::Newline, long: false, spec: None },
    ];
    let cell = Cell {
        no_color: if c.colour { None } else { Some("1".into()) },
        clicolor: None,
        clicolor_force: if c.colour { Some("1".into()) } else { None },
        stdout_tty: c.tty && !c.stderr,
        stderr_tty: c.tty && c.stderr,
        target_stderr: c.stderr,
        tty_only: false,
        pat: pat.clone(),
        also_other: false,
        repeat: c.repeat,
        literal: None,
        tty_only_first: false,
        refuse_one: false,
        via_config: false,
        extra_env: vec![],
        threads: c.threads,
    };
    let run = match run_cell(tmp, &cell) {
        Ok(r) => r,
        Err(e) => {
            eprintln!("[lv] C18: cannot run a child with the requested terminals ({}): infrastructure trouble, not a pass", e);
            std::process::exit(2);
        }
    };
    ensure!(run.code == Some(0), "C18:child-failed", "child with {} logging threads exited with {:?}; stderr {:?}", c.threads, run.code, String::from_utf8_lossy(&run.stderr[..run.stderr.len().min(300)]));
    let bytes = if c.stderr { &run.stderr } else { &run.stdout };
    let (text, seqs) = strip_sgr(bytes).map_err(|e| Failure { sig: "C18:torn-escape".into(), msg: format!("{} threads through one appender: {}", c.threads, e) })?;
    let env = Env { thread_name: "main".into(), debug_build: cfg!(debug_assertions), now_secs: 0 };
    let expected: Vec<String> = records().iter().map(|r| render(&pat, r, &env)).collect();
    let text = String::from_utf8_lossy(&text).to_string();
    let mut counts = vec![0usize; expected.len()];
    for line in text.split_inclusive('\n') {
        match expected.iter().position(|e| e == line) {
            Some(i) => counts[i] += 1,
            None => return fail("C18:text-differs", format!("{} threads through one appender (colour {}): the stream holds {:?}, which is none of the records logged (records interleaved or cut)", c.threads, c.colour, line)),
        }
    }
    let want = c.threads as usize * c.repeat.max(1);
    ensure!(counts.iter().all(|n| *n == want), "C18:text-differs", "{} threads x {} rounds through one appender (colour {}): each of the five records must arrive {} times, arrived {:?} (a record was dropped or duplicated)", c.threads, c.repeat, c.colour, want, counts);
    if c.colour {
        ensure!(seqs.len() >= want * 5, "C18:no-escapes-when-enabled:threads", "colour is forced but only {} escape sequences arrived for {} highlighted records", seqs.len(), want * 5);
    } else {
        ensure!(seqs.is_empty(), "C18:escapes-when-disabled:threads", "colour is disabled but {} escape sequences arrived", seqs.len());
    }
    obs.sub_evals += (want * 5) as u64;
    obs.nontrivial = true;
    obs.class(format!("threads-through-one-appender:colour={}", c.colour));
    Ok(())
}

/// The public `ConsoleWriter` used directly, without an appender: style requests and text through the writer itself and
/// through its `lock()`, in generated order, colour forced on a pipe. Every style request - also the same style twice in
/// a row, also after somebody else reset the terminal - yields one sequence that sets exactly the requested attributes.
#[derive(Serialize, Deserialize, Debug, Clone)]
pub struct RawWriter {
    /// (through lock()?, style, text)
    pub ops: Vec<(bool, Option<(usize, usize, usize)>, String)>,
    pub stderr: bool,
}

pub fn raw_writer_child(c: &RawWriter) -> i32 {
    use log4rs::encode::writer::console::ConsoleWriter;
    let Some(mut w) = (if c.stderr { ConsoleWriter::stderr() } else { ConsoleWriter::stdout() }) else { return 7 };
    for (locked, style, text) in &c.ops {
        let r: std::io::Result<()> = if *locked {
            let mut l = w.lock();
            (|| {
                if let Some(s) = style {
                    l.set_style(&mk_style(s.0, s.1, s.2))?;
                }
                l.write_all(text.as_bytes())?;
                l.flush()
            })()
        } else {
            (|| {
                if let Some(s) = style {
                    w.set_style(&mk_style(s.0, s.1, s.2))?;
                }
                w.write_all(text.as_bytes())?;
                w.flush()
            })()
        };
        if r.is_err() {
            return 3;
        }
    }
    0
}

pub fn check_raw_writer(tmp: &Path, c: &RawWriter, obs: &mut Obs) -> CaseResult {
    let exe = std::env::current_exe().map_err(|e| Failure { sig: "C18:harness".into(), msg: e.to_string() })?;
    let dir = scratch(tmp, "c18r");
    let file = dir.join("raw.json");
    std::fs::write(&file, serde_json::to_string(c).unwrap()).unwrap();
    let out = Command::new(exe).arg("child").arg("c18raw").arg(&file).env_remove("NO_COLOR").env_remove("CLICOLOR").env("CLICOLOR_FORCE", "1").stdin(Stdio::null()).output().map_err(|e| Failure { sig: "C18:harness".into(), msg: e.to_string() })?;
    let _ = std::fs::remove_dir_all(&dir);
    ensure!(out.status.code() == Some(0), "C18:child-failed", "child exited with {:?}", out.status.code());
    let b = if c.stderr { &out.stderr } else { &out.stdout };
    let mut i = 0usize;
    for (k, (locked, style, text)) in c.ops.iter().enumerate() {
        if let Some(s) = style {
            let how = if *locked { "through lock()" } else { "on the writer itself" };
            ensure!(b.len() > i + 2 && b[i] == 0x1b && b[i + 1] == b'[', "C18:style-request-without-sequence", "operation #{}: style {:?} was requested {} (colour forced) but no escape sequence starts at byte {} of the stream: {:?}", k, mk_style(s.0, s.1, s.2), how, i, String::from_utf8_lossy(&b[i.min(b.len())..(i + 24).min(b.len())]));
            let end = match b[i..].iter().position(|x| *x == b'm') {
                Some(e) => i + e + 1,
                None => return fail("C18:malformed-escape", format!("operation #{}: unterminated escape sequence", k)),
            };
            let mut state = Sgr { fg: Some(9), bg: Some(9), bold: true };
            apply_sgr(&mut state, &b[i..end]).map_err(|e| Failure { sig: "C18:malformed-escape".into(), msg: format!("operation #{}: {}", k, e) })?;
            let want = Sgr { fg: color_index(COLORS[s.0]), bg: color_index(COLORS[s.1]), bold: INTENSE[s.2] == Some(true) };
            ensure!(state == want, "C18:wrong-attributes", "operation #{}: style {:?} requested {}: the sequence {:?} leaves a terminal at {:?}, requested {:?}", k, mk_style(s.0, s.1, s.2), how, String::from_utf8_lossy(&b[i..end]), state, want);
            i = end;
        }
        ensure!(b.len() >= i + text.len() && &b[i..i + text.len()] == text.as_bytes(), "C18:text-differs", "operation #{}: the text {:?} does not follow at byte {}: {:?}", k, text, i, String::from_utf8_lossy(&b[i.min(b.len())..(i + 40).min(b.len())]));
        i += text.len();
        obs.sub_evals += 1;
    }
    ensure!(i == b.len(), "C18:text-differs", "{} bytes after the last operation: {:?}", b.len() - i, String::from_utf8_lossy(&b[i..]));
    obs.nontrivial = true;
    obs.class("console-writer-used-directly");
    Ok(())
}

pub fn raw_writer_strategy() -> impl Strategy<Value = RawWriter> {
    // few distinct styles, so that the same style is asked for again and again
    let style = prop::sample::select(vec![(2usize, 0usize, 0usize), (2, 0, 0), (3, 0, 2), (0, 0, 0), (0, 0, 0), (2, 4, 1), (8, 1, 2)]);
    (prop::collection::vec((prop::bool::weighted(0.4), prop::option::weighted(0.75, style), prop::sample::select(vec!["", "x", "text ", "\n", "é"]).prop_map(|s| s.to_string())), 1..=14), prop::bool::ANY).prop_map(|(ops, stderr)| RawWriter { ops, stderr })
}

// ---- a target that is a device but not a terminal ---------------------------------------------------------------

/// The target stream is redirected to a character device that is no terminal (here: the full device, reached through
/// a symbolic link in the scratch directory; `> /dev/null` in a unit file is the everyday case). "Only when the target
/// is a TTY" is about terminals: a tty_only appender stays silent - and with this device that is observable, because
/// every byte written to it is refused: all appends of a silent appender succeed.
#[derive(Serialize, Deserialize, Debug, Clone)]
pub struct Device {
    pub target_stderr: bool,
    pub tty_only: bool,
    pub via_config: bool,
    pub force_colour: bool,
}

pub fn device_child(c: &Device) -> i32 {
    let target = if c.target_stderr { Target::Stderr } else { Target::Stdout };
    let app: Box<dyn Append> = if c.via_config {
        use serde_value::Value as V;
        let s = |x: &str| V::String(x.to_string());
        let mut m = std::collections::BTreeMap::new();
        m.insert(s("target"), s(if c.target_stderr { "stderr" } else { "stdout" }));
        m.insert(s("tty_only"), V::Bool(c.tty_only));
        match log4rs::config::Deserializers::default().deserialize::<dyn Append>("console", V::Map(m)) {
            Ok(a) => a,
            Err(_) => return 5,
        }
    } else {
        Box::new(ConsoleAppender::builder().target(target).tty_only(c.tty_only).encoder(Box::new(PatternEncoder::new("{h({l})} {m}{n}"))).build())
    };
    let mut errors = 0;
    for r in records() {
        let text = r.message();
        if app.append(&log::Record::builder().args(format_args!("{}", text)).level(r.level()).target("t").build()).is_err() {
            errors += 1;
        }
    }
    10 + errors
}

pub fn check_device(tmp: &Path, c: &Device, obs: &mut Obs) -> CaseResult {
    if !crate::fsx::full_device_ok() {
        obs.class("device:no-full-device(skipped)");
        return Ok(());
    }
    let exe = std::env::current_exe().map_err(|e| Failure { sig: "C18:harness".into(), msg: e.to_string() })?;
    let dir = scratch(tmp, "c18d");
    let file = dir.join("device.json");
    std::fs::write(&file, serde_json::to_string(c).unwrap()).unwrap();
    let link = dir.join("device");
    std::os::unix::fs::symlink("/dev/full", &link).map_err(|e| Failure { sig: "C18:harness".into(), msg: e.to_string() })?;
    let dev = std::fs::OpenOptions::new().write(true).open(&link).map_err(|e| Failure { sig: "C18:harness".into(), msg: e.to_string() })?;
    let mut cmd = Command::new(exe);
    cmd.arg("child").arg("c18dev").arg(&file).env_remove("NO_COLOR").env_remove("CLICOLOR").env_remove("CLICOLOR_FORCE").stdin(Stdio::null());
    if c.force_colour {
        cmd.env("CLICOLOR_FORCE", "1");
    }
    if c.target_stderr {
        cmd.stderr(Stdio::from(dev)).stdout(Stdio::piped());
    } else {
        cmd.stdout(Stdio::from(dev)).stderr(Stdio::piped());
    }
    let out = cmd.output().map_err(|e| Failure { sig: "C18:harness".into(), msg: e.to_string() });
    let _ = std::fs::remove_dir_all(&dir);
    let out = out?;
    let code = out.status.code().unwrap_or(-1);
    ensure!((10..=15).contains(&code), "C18:child-failed", "child exited with {:?} (stderr/stdout of the other stream: {:?})", out.status.code(), String::from_utf8_lossy(if c.target_stderr { &out.stdout } else { &out.stderr }));
    let other = if c.target_stderr { &out.stdout } else { &out.stderr };
    ensure!(other.is_empty(), "C18:wrong-stream", "the stream that is not the target carries {} bytes", other.len());
    obs.sub_evals += 1;
    obs.nontrivial = c.tty_only;
    obs.class(if c.tty_only { "device:tty_only" } else { "device:always" });
    if c.tty_only {
        ensure!(code == 10, "C18:tty-only:device", "tty_only appender whose target is a character device that is no terminal: {} of 5 appends reported an error, i.e. the appender wrote to it", code - 10);
    }
    Ok(())
}

pub fn run(run: &Run) {
    let tmp = run.tmp.clone();
    {
        let t = tmp.clone();
        let f = move |c: &Device, o: &mut Obs| check_device(&t, c, o);
        run.run_replays::<Device>("device", &f);
        if run.worker.0 == 1 % run.worker.1 {
            for k in 0..16u8 {
                run.eval_one("device", &Device { target_stderr: k & 1 == 1, tty_only: k & 2 == 2, via_config: k & 4 == 4, force_colour: k & 8 == 8 }, &f);
            }
        }
    }
    {
        let t = tmp.clone();
        let f = move |c: &RawWriter, o: &mut Obs| check_raw_writer(&t, c, o);
        run.run_replays::<RawWriter>("raw-writer", &f);
        run.search("raw-writer", run.tier.pick(60, 2_000), raw_writer_strategy(), &f);
    }
    if run.worker.0 == 2 % run.worker.1 {
        for (i, (threads, repeat)) in [(2u8, 40usize), (4, 25), (8, 12), (3, 30)].into_iter().enumerate() {
            for colour in [true, false] {
                let t = tmp.clone();
                run.eval_one("threads", &Threads { threads, repeat, colour, stderr: i % 2 == 0, tty: i == 1 }, &move |c: &Threads, o: &mut Obs| check_threads(&t, c, o));
            }
        }
    }
    if run.worker.0 == 0 {
        let t9 = tmp.clone();
        run.eval_one("shared-pipe", &Shared { children: 3, repeat: run.tier.pick(600, 6000) }, &move |c: &Shared, o: &mut Obs| check_shared(&t9, c, o));
    }
    let t1 = tmp.clone();
    run.run_replays::<Cell>("matrix", &move |c: &Cell, o: &mut Obs| check_cell(&t1, c, o));
    let t1b = tmp.clone();
    run.run_replays::<Cell>("literal-args", &move |c: &Cell, o: &mut Obs| check_cell(&t1b, c, o));
    run.run_replays::<StyleCase>("styles", &check_style);
    // exhaustive matrix: every cell once per pass, with a generated pattern per cell (workers split the cells)
    let passes = run.tier.pick(2usize, 20);
    let mut ok = true;
    let mut runner = proptest::test_runner::TestRunner::new(proptest::test_runner::Config {
        rng_seed: proptest::test_runner::RngSeed::Fixed(run.part_seed("matrix-patterns")),
        failure_persistence: None,
        ..Default::default()
    });
    use proptest::strategy::ValueTree;
    'outer: for pass in 0..passes {
        for idx in 0..CELLS {
            if (idx + pass) as u32 % run.worker.1 != run.worker.0 {
                continue;
            }
            let pat = cell_pattern().new_tree(&mut runner).map(|t| t.current()).unwrap_or_default();
            let t2 = tmp.clone();
            let mut cell = cell_at(idx, pat);
            // every second pass: the process owns appenders on both streams
            cell.also_other = pass % 2 == 1;
            // "set" is spelled in many ways: anything but "0" counts
            let spell = ["1", "true", "yes", "on", "2", "TRUE", "1", "x"][(idx / 5 + pass) % 8];
            for v in [&mut cell.no_color, &mut cell.clicolor, &mut cell.clicolor_force] {
                if v.as_deref() == Some("1") {
                    *v = Some(spell.to_string());
                }
            }
            // builder call order and a refused record vary with the cell
            cell.tty_only_first = (idx / 3 + pass) % 2 == 0;
            cell.refuse_one = (idx / 7 + pass) % 3 == 0;
            cell.via_config = (idx / 2 + pass) % 3 == 1;
            // what other colour conventions look at is none of this appender's business
            let s = |x: &str| Some(x.to_string());
            let distractors: [Vec<(&str, Option<String>)>; 12] = [
                vec![("TERM", s("dumb"))],
                vec![("TERM", s("xterm-256color")), ("COLORTERM", s("truecolor"))],
                vec![("TERM", None)],
                vec![("FORCE_COLOR", s("1"))],
                vec![("TERM", s("dumb")), ("CI", s("true"))],
                vec![("FORCE_COLOR", s("0")), ("TERM", s(""))],
                vec![],
                vec![("TERM", s("dumb")), ("COLORTERM", s(""))],
                vec![("NOCOLOR", s("1")), ("COLOR", s("never"))],
                vec![("TERM", s("unknown")), ("TERM_PROGRAM", s("Apple_Terminal"))],
                vec![("CLICOLOR_FORCE_", s("1")), ("NO_COLORS", s("1"))],
                vec![("TERM", s("linux")), ("CI", s("1"))],
            ];
            cell.extra_env = distractors[(idx + 5 * pass) % 12].iter().map(|(k, v)| (k.to_string(), v.clone())).collect();
            if !run.eval_one("matrix", &cell, &move |c: &Cell, o: &mut Obs| check_cell(&t2, c, o)) {
                ok = false;
                break 'outer;
            }
        }
    }
    if ok {
        run.exhaustive("matrix NO_COLOR x CLICOLOR x CLICOLOR_FORCE in {unset,\"0\",\"1\"} x stdout in {pty,pipe} x stderr in {pty,pipe} x target in {stdout,stderr} x tty_only in {false,true} = 432 cells, each in its own child process");
    }
    // argument-free literal messages (long, multi-line, multi-byte, empty) straight through `{m}`: 60 children
    {
        let m = |spec: Option<Spec>| Node::Fmt { kind: Kind::Message, long: false, spec };
        let nl = Node::Fmt { kind: Kind::Newline, long: false, spec: None };
        let pats: Vec<Pat> = vec![vec![m(None)], vec![m(None), nl.clone()], vec![Node::Fmt { kind: Kind::Highlight(vec![m(None)]), long: false, spec: None }, nl.clone()]];
        let mut idx = 0u32;
        for k in 0..5u8 {
            for target_stderr in [false, true] {
                for tty in [false, true] {
                    for pat in &pats {
                        idx += 1;
                        if idx % run.worker.1 != run.worker.0 {
                            continue;
                        }
                        let cell = Cell { no_color: None, clicolor: None, clicolor_force: if k % 2 == 0 { Some("1".into()) } else { None }, stdout_tty: tty && !target_stderr, stderr_tty: tty && target_stderr, target_stderr, tty_only: false, pat: pat.clone(), also_other: false, repeat: 1, literal: Some(k), tty_only_first: k % 2 == 1, refuse_one: false, via_config: k % 3 == 2, extra_env: vec![], threads: 0 };
                        let t3 = tmp.clone();
                        run.eval_one("literal-args", &cell, &move |c: &Cell, o: &mut Obs| check_cell(&t3, c, o));
                    }
                }
            }
        }
    }
    if run.worker.0 == 0 {
        let mut ok = true;
        for t in 0..9 {
            for b in 0..9 {
                for i in 0..3 {
                    // previous style: a different one each time, all reachable prior states over the sweep
                    let prev = ((t * 5 + b) % 9, (b * 7 + i + 1) % 9, (t + b + i) % 3);
                    ok &= run.eval_one("styles", &StyleCase { prev, style: (t, b, i) }, &check_style);
                }
            }
        }
        if ok {
            run.exhaustive("all 243 styles (9 text colours x 9 backgrounds x 3 intensities), each after a different previous style");
        }
    }
    let style_idx = || (0usize..9, 0usize..9, 0usize..3);
    run.search(
        "style-pairs",
        run.tier.pick(3_000, 100_000),
        (style_idx(), style_idx()).prop_map(|(prev, style)| StyleCase { prev, style }),
        &check_style,
    );
    run.search(
        "interleave",
        run.tier.pick(1_000, 50_000),
        prop::collection::vec((prop::option::of(style_idx()), prop::collection::vec(prop_oneof![9 => 0x20u8..0x7f, 1 => Just(b'\n')], 0..12)), 1..10).prop_map(|ops| Interleave { ops }),
        &check_interleave,
    );
}

pub fn replay(part: &str, case: serde_json::Value) -> Option<CaseResult> {
    match part {
        "matrix" | "literal-args" => {
            let tmp = std::env::temp_dir().join(format!("lv-replay-{}", std::process::id()));
            std::fs::create_dir_all(&tmp).ok()?;
            let r = check_cell(&tmp, &serde_json::from_value(case).ok()?, &mut Obs::default());
            let _ = std::fs::remove_dir_all(&tmp);
            Some(r)
        }
        "styles" | "style-pairs" => Some(check_style(&serde_json::from_value(case).ok()?, &mut Obs::default())),
        "interleave" => Some(check_interleave(&serde_json::from_value(case).ok()?, &mut Obs::default())),
        "device" => {
            let tmp = std::env::temp_dir().join(format!("lv-replay-{}", std::process::id()));
            std::fs::create_dir_all(&tmp).ok()?;
            let r = check_device(&tmp, &serde_json::from_value(case).ok()?, &mut Obs::default());
            let _ = std::fs::remove_dir_all(&tmp);
            Some(r)
        }
        "raw-writer" => {
            let tmp = std::env::temp_dir().join(format!("lv-replay-{}", std::process::id()));
            std::fs::create_dir_all(&tmp).ok()?;
            let r = check_raw_writer(&tmp, &serde_json::from_value(case).ok()?, &mut Obs::default());
            let _ = std::fs::remove_dir_all(&tmp);
            Some(r)
        }
        "threads" => {
            let tmp = std::env::temp_dir().join(format!("lv-replay-{}", std::process::id()));
            std::fs::create_dir_all(&tmp).ok()?;
            let r = check_threads(&tmp, &serde_json::from_value(case).ok()?, &mut Obs::default());
            let _ = std::fs::remove_dir_all(&tmp);
            Some(r)
        }
        "shared-pipe" => {
            let tmp = std::env::temp_dir().join(format!("lv-replay-{}", std::process::id()));
            std::fs::create_dir_all(&tmp).ok()?;
            let r = check_shared(&tmp, &serde_json::from_value(case).ok()?, &mut Obs::default());
            let _ = std::fs::remove_dir_all(&tmp);
            Some(r)
        }
        _ => None,
    }
}

pub fn meta() -> EvidenceMeta {
    EvidenceMeta {
        level: "exploration",
        rule: "matrix (exhaustive every run): NO_COLOR, CLICOLOR, CLICOLOR_FORCE each in {unset,\"0\",set (spelled 1/true/yes/on/2/TRUE/x)} x stdout in {pty,pipe} x stderr in {pty,pipe} x target x tty_only = 432 child processes, the parent allocates raw-mode ptys with openpty and reads both streams to EOF; the child ends with _exit right after its last append (no farewell flush); per cell the builder is told tty_only before or after the target, the encoder may refuse one record in the middle (later records must still appear), a generated pattern (a highlight group around generated structure, width specs around highlights, nested groups) and five records, one per level; oracle: nothing on the non-target stream; nothing on the target if tty_only and the target is not a terminal, else the reference rendering of the five records after stripping escape sequences; escape sequences (each matching ESC [ digits(;digits)* m) present iff colour is enabled, and then exactly one per style request of the pattern, in its place between the text pieces by the statement's cascade (cells with NO_COLOR=\"0\" or CLICOLOR_FORCE=\"0\" accept both readings), last sequence a reset. Every cell carries a distractor environment (TERM=dumb / unset / empty, FORCE_COLOR, COLORTERM, CI, look-alike names) that has no say in the policy; a third of the cells build the appender through the console deserializer. threads: 2-8 threads log 12-40 rounds of the five records through ONE appender at the same time (slow Display), colour forced and disabled, pipe and pty: every record arrives whole, the right number of times. device (16 children): the target redirected to a character device that is no terminal (the full device through a symbolic link): a tty_only appender stays silent, i.e. all its appends succeed; raw-writer: the public ConsoleWriter used directly (colour forced on a pipe): generated sequences of style requests and text through the writer itself and through lock(), few distinct styles so that the same style recurs: every request yields one sequence that sets exactly the requested attributes from any prior state, the text in between is unchanged. literal-args (exhaustive, 60 children): a sixth record whose message is an argument-free literal (short, 4 kB after a line break, 9 kB single line, empty, multi-byte) x target x pty/pipe x {m} / {m}{n} / {h({m})}{n}; styles (exhaustive): AnsiWriter<Vec<u8>>::set_style for all 243 styles after a previous style: exactly one well-formed SGR sequence which a harness SGR interpreter maps from any prior state to exactly the requested attributes; random style pairs and write/set_style interleavings (bytes unchanged). non-trivial = a cell where tty-ness and the colour decision disagree or tty_only meets a pipe / NO_COLOR; a style with all three attributes set".into(),
        assumptions: vec!["highlight colours themselves are not asserted (documentation and code disagree)".into(), "ptys from libc::openpty; without them the check exits 2, it does not pass".into()],
        mutants_caught: vec![],
    }
}
