pub mod route;
