//! Reference model of routing (C01/C02/C13/C14/C15), written from the property statement:
//! effective logger = configured logger whose '::'-separated name is the longest
//! component-wise prefix of the target, else the root; deliveries = attachments of the
//! effective logger plus, through an unbroken chain of additive ancestors, those of the
//! configured ancestors ending at the root.

use serde::{Deserialize, Serialize};
use std::collections::BTreeMap;

pub const LEVEL_FILTERS: [log::LevelFilter; 6] = [
    log::LevelFilter::Off,
    log::LevelFilter::Error,
    log::LevelFilter::Warn,
    log::LevelFilter::Info,
    log::LevelFilter::Debug,
    log::LevelFilter::Trace,
];
pub const LEVELS: [log::Level; 5] = [
    log::Level::Error,
    log::Level::Warn,
    log::Level::Info,
    log::Level::Debug,
    log::Level::Trace,
];

#[derive(Serialize, Deserialize, Debug, Clone, PartialEq, Eq)]
pub struct LLogger {
    pub name: String,
    /// index into LEVEL_FILTERS (0 = Off .. 5 = Trace)
    pub level: u8,
    pub additive: bool,
    pub appenders: Vec<String>,
}

#[derive(Serialize, Deserialize, Debug, Clone, PartialEq, Eq)]
pub struct LCfg {
    pub appenders: Vec<String>,
    pub root_level: u8,
    pub root_appenders: Vec<String>,
    pub loggers: Vec<LLogger>,
}

/// Hand-written split on "::" (leftmost, non-overlapping), independent of str::split.
pub fn components(s: &str) -> Vec<String> {
    let b: Vec<char> = s.chars().collect();
    let mut out = vec![];
    let mut cur = String::new();
    let mut i = 0;
    while i < b.len() {
        if b[i] == ':' && i + 1 < b.len() && b[i + 1] == ':' {
            out.push(std::mem::take(&mut cur));
            i += 2;
        } else {
            cur.push(b[i]);
            i += 1;
        }
    }
    out.push(cur);
    out
}

fn is_prefix(a: &[String], b: &[String]) -> bool {
    a.len() <= b.len() && a.iter().zip(b.iter()).all(|(x, y)| x == y)
}

impl LCfg {
    /// Index of the effective logger for `target` (None = root): component-wise reading.
    pub fn effective(&self, target: &str) -> Option<usize> {
        let t = components(target);
        let mut best: Option<(usize, usize)> = None;
        for (i, l) in self.loggers.iter().enumerate() {
            let n = components(&l.name);
            if is_prefix(&n, &t) {
                if best.map_or(true, |(_, len)| n.len() > len) {
                    best = Some((i, n.len()));
                }
            }
        }
        best.map(|(i, _)| i)
    }

    /// Textual reading: T == N or T starts with N + "::", longest N.
    pub fn effective_textual(&self, target: &str) -> Option<usize> {
        let mut best: Option<(usize, usize)> = None;
        for (i, l) in self.loggers.iter().enumerate() {
            let n = &l.name;
            let hit = target == n || target.starts_with(&format!("{}::", n));
            if hit && best.map_or(true, |(_, len)| n.len() > len) {
                best = Some((i, n.len()));
            }
        }
        best.map(|(i, _)| i)
    }

    /// Nearest configured proper ancestor of logger i (None = root).
    pub fn parent(&self, i: usize) -> Option<usize> {
        let me = components(&self.loggers[i].name);
        let mut best: Option<(usize, usize)> = None;
        for (j, l) in self.loggers.iter().enumerate() {
            if j == i {
                continue;
            }
            let n = components(&l.name);
            if n.len() < me.len() && is_prefix(&n, &me) {
                if best.map_or(true, |(_, len)| n.len() > len) {
                    best = Some((j, n.len()));
                }
            }
        }
        best.map(|(j, _)| j)
    }

    pub fn threshold(&self, eff: Option<usize>) -> log::LevelFilter {
        LEVEL_FILTERS[match eff {
            Some(i) => self.loggers[i].level,
            None => self.root_level,
        } as usize]
    }

    pub fn enabled(&self, target: &str, level: log::Level) -> bool {
        level <= self.threshold(self.effective(target))
    }

    /// Attachment multiset of a logger (None = root): own list then additive ancestors.
    pub fn attachments(&self, eff: Option<usize>) -> BTreeMap<String, usize> {
        let mut out = BTreeMap::new();
        let mut cur = eff;
        loop {
            match cur {
                None => {
                    for a in &self.root_appenders {
                        *out.entry(a.clone()).or_insert(0) += 1;
                    }
                    break;
                }
                Some(i) => {
                    for a in &self.loggers[i].appenders {
                        *out.entry(a.clone()).or_insert(0) += 1;
                    }
                    if !self.loggers[i].additive {
                        break;
                    }
                    cur = self.parent(i);
                }
            }
        }
        out
    }

    /// Multiset of appenders that must see a record (target, level).
    pub fn route(&self, target: &str, level: log::Level) -> BTreeMap<String, usize> {
        let eff = self.effective(target);
        if level <= self.threshold(eff) {
            self.attachments(eff)
        } else {
            BTreeMap::new()
        }
    }

    /// Most verbose level among the root and all loggers.
    pub fn max_level(&self) -> log::LevelFilter {
        let mut m = self.root_level;
        for l in &self.loggers {
            m = m.max(l.level);
        }
        LEVEL_FILTERS[m as usize]
    }
}
