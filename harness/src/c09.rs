//! C09 — pattern encoder output equals the pattern's meaning for well-formed patterns.

use crate::engine::*;
use crate::ensure;
use crate::pat::*;
use log4rs::encode::pattern::PatternEncoder;
use log4rs::encode::Style;
use proptest::prelude::*;
use serde::{Deserialize, Serialize};

#[derive(Serialize, Deserialize, Debug, Clone)]
pub struct Case {
    pub pat: Pat,
    pub recs: Vec<Rec>,
    pub script: Vec<u8>,
    pub thread: Option<String>,
    /// before the checked records, on the same thread, a record is encoded whose message panics half-way through
    /// being formatted inside a width-constrained field (the caller catches it): nothing of it may resurface
    #[serde(default)]
    pub prior_unwind: Option<u8>,
}

struct PanicsHalfWay;

impl std::fmt::Display for PanicsHalfWay {
    fn fmt(&self, f: &mut std::fmt::Formatter) -> std::fmt::Result {
        f.write_str("STALE-")?;
        f.write_str("TEXT")?;
        panic!("Display impl of a log argument panics half-way")
    }
}

const UNWIND_PATTERNS: [&str; 6] = ["{m:>12}", "{({l} {m}):>20}", "{m:<12}", "{m:.5}", "{h({m}):>9}", "{({m:>7}{m}):>30.40}"];

pub fn strategy(spec_weight: f64) -> impl Strategy<Value = Case> {
    (
        pattern(spec_weight),
        prop::collection::vec(rec(), 1..=2),
        write_script(),
        prop::option::weighted(0.15, prop::sample::select(vec!["worker-1", "é thread", "t{}"]).prop_map(|s| s.to_string())),
        prop::option::weighted(0.12, 0u8..6),
    )
        .prop_map(|(pat, recs, script, thread, prior_unwind)| Case { pat, recs, script, thread, prior_unwind })
}

fn now_secs() -> i64 {
    std::time::SystemTime::now()
        .duration_since(std::time::UNIX_EPOCH)
        .unwrap()
        .as_secs() as i64
}

pub fn styles_balanced(events: &[Ev]) -> bool {
    let mut styled = false;
    for e in events {
        if let Ev::Style(s) = e {
            styled = *s != Style::new();
        }
    }
    !styled
}

/// The shared pattern check (C09 meaning, C10 width law). `prop` selects the signature prefix.
pub fn check_in_thread(case: &Case, obs: &mut Obs, prop: &str) -> CaseResult {
    let thread_name = case.thread.clone().unwrap_or_else(|| "main".to_string());
    let s = print(&case.pat, false);
    let s_alt = print(&case.pat, true);
    let enc = match catch(|| PatternEncoder::new(&s)) {
        Ok(e) => e,
        Err(p) => return fail(format!("{}:panic:construct", prop), format!("PatternEncoder::new({:?}) panicked: {}", s, p)),
    };
    let enc_alt = match catch(|| PatternEncoder::new(&s_alt)) {
        Ok(e) => e,
        Err(p) => return fail(format!("{}:panic:construct", prop), format!("PatternEncoder::new({:?}) panicked: {}", s_alt, p)),
    };
    if let Some(k) = case.prior_unwind {
        let p = UNWIND_PATTERNS[k as usize % UNWIND_PATTERNS.len()];
        let e = PatternEncoder::new(p);
        let r = catch(|| {
            let mut w = CapW::new(vec![]);
            log4rs::encode::Encode::encode(&e, &mut w, &log::Record::builder().args(format_args!("{}", PanicsHalfWay)).level(log::Level::Warn).target("t").build())
        });
        ensure!(r.is_err(), format!("{}:harness", prop), "the message that panics half-way did not panic under {:?}", p);
        obs.class("after-an-encode-that-unwound-on-this-thread");
    }
    let dated = has_date(&case.pat);
    for rec in &case.recs {
        let mut attempt = 0;
        loop {
            attempt += 1;
            let t0 = now_secs();
            let r1 = catch(|| encode_with(&enc, rec, case.script.clone()));
            let r2 = catch(|| encode_with(&enc_alt, rec, vec![]));
            let t1 = now_secs();
            if dated && t0 != t1 {
                if attempt < 6 {
                    continue; // the second changed while encoding: take another sample
                }
                // both encodes never fit into one second (huge texts through a byte-at-a-time sink on a busy machine):
                // the dates cannot be judged, nothing else in this case is lost by letting it go
                obs.class("dated-pattern-slower-than-a-second(skipped)");
                return Ok(());
            }
            let (w, res) = match r1 {
                Ok(x) => x,
                Err(p) => return fail(format!("{}:panic:encode", prop), format!("encode panicked for pattern {:?}: {}", s, p)),
            };
            let (w2, res2) = match r2 {
                Ok(x) => x,
                Err(p) => return fail(format!("{}:panic:encode", prop), format!("encode panicked for pattern {:?}: {}", s_alt, p)),
            };
            if let Err(e) = res {
                return fail(format!("{}:encode-error", prop), format!("encode returned Err for well-formed pattern {:?}: {}", s, e));
            }
            if let Err(e) = res2 {
                return fail(format!("{}:encode-error", prop), format!("encode returned Err for well-formed pattern {:?}: {}", s_alt, e));
            }
            let env = Env { thread_name: thread_name.clone(), debug_build: cfg!(debug_assertions), now_secs: t0 };
            let expected = render(&case.pat, rec, &env);
            let bytes = w.bytes();
            obs.sub_evals += 1;
            let got = match String::from_utf8(bytes.clone()) {
                Ok(g) => g,
                Err(_) => {
                    return fail("C10:invalid-utf8", format!("pattern {:?}: output is not valid UTF-8: {:?} (expected {:?})", s, bytes, expected))
                }
            };
            if got != expected {
                let sig = classify_mismatch(&case.pat, &got, &expected, prop);
                return fail(sig, format!("pattern {:?} record {:?}: got {:?}, meaning is {:?}", s, rec, got, expected));
            }
            ensure!(
                styles_balanced(&w.events),
                format!("{}:style-unbalanced", prop),
                "pattern {:?}: a non-default style is not followed by a reset: {:?}", s, w.styles()
            );
            // every style request, in its place between the pieces of text
            let want_items = render_items(&case.pat, rec, &env);
            let got_items = items_of_events(&w.events);
            ensure!(
                got_items == want_items,
                format!("{}:style-sequence", prop),
                "pattern {:?} record level {:?}: the writer received {:?}; the pattern asks for {:?}", s, rec.level(), got_items, want_items
            );
            let got2 = w2.bytes();
            ensure!(
                got2 == bytes,
                format!("{}:alias-differs", prop),
                "pattern {:?} and its alias form {:?} render differently: {:?} vs {:?}", s, s_alt, String::from_utf8_lossy(&bytes), String::from_utf8_lossy(&got2)
            );
            obs.class_if(w.cut_inside_char, "write-cut-inside-char");
            break;
        }
    }
    // classification
    let esc_adjacent = case.pat.windows(2).any(|w| match (&w[0], &w[1]) {
        (Node::Lit { text, .. }, Node::Fmt { .. }) => text.chars().last().map_or(false, |c| SPECIALS.contains(&c)),
        (Node::Fmt { .. }, Node::Lit { text, .. }) => text.chars().next().map_or(false, |c| SPECIALS.contains(&c)),
        _ => false,
    });
    let absent_under_spec = count_nodes(&case.pat, &|n| matches!(n, Node::Fmt { kind: Kind::Module | Kind::File | Kind::Line, spec: Some(_), .. })) > 0
        && case.recs.iter().any(|r| r.module.is_none() || r.file.is_none() || r.line.is_none());
    let non_ascii = case.recs.iter().any(|r| !r.message().is_ascii() || !r.target.is_ascii());
    let arg_escapes = count_nodes(&case.pat, &|n| match n {
        Node::Fmt { kind: Kind::Mdc { key, default }, .. } => key.chars().chain(default.iter().flat_map(|d| d.chars())).any(|c| SPECIALS.contains(&c)),
        Node::Fmt { kind: Kind::Date { fmt: Some(f), .. }, .. } => f.chars().any(|c| SPECIALS.contains(&c)),
        _ => false,
    }) > 0;
    let d = depth(&case.pat);
    obs.nontrivial = d >= 2 || esc_adjacent || absent_under_spec || non_ascii || arg_escapes;
    obs.class(format!("depth={}", d.min(5)));
    obs.class_if(esc_adjacent, "escape-adjacent-to-formatter");
    obs.class_if(absent_under_spec, "absent-field-under-spec");
    obs.class_if(non_ascii, "non-ascii-record");
    obs.class_if(arg_escapes, "arg-with-escapes");
    obs.class_if(dated, "date");
    obs.class_if(case.thread.is_some(), "named-thread");
    for (name, pred) in KIND_PREDICATES.iter() {
        if count_nodes(&case.pat, pred) > 0 {
            obs.class(format!("kind:{}", name));
        }
    }
    Ok(())
}

type Pred = fn(&Node) -> bool;
const KIND_PREDICATES: [(&str, Pred); 9] = [
    ("mdc", |n| matches!(n, Node::Fmt { kind: Kind::Mdc { .. }, .. })),
    ("group", |n| matches!(n, Node::Fmt { kind: Kind::Group(_), .. })),
    ("highlight", |n| matches!(n, Node::Fmt { kind: Kind::Highlight(_), .. })),
    ("debug", |n| matches!(n, Node::Fmt { kind: Kind::Debug(_), .. })),
    ("release", |n| matches!(n, Node::Fmt { kind: Kind::Release(_), .. })),
    ("spec", |n| matches!(n, Node::Fmt { spec: Some(_), .. })),
    ("long-alias", |n| matches!(n, Node::Fmt { long: true, .. })),
    ("lit", |n| matches!(n, Node::Lit { .. })),
    ("thread/ids", |n| matches!(n, Node::Fmt { kind: Kind::Thread | Kind::ThreadId | Kind::Pid | Kind::Tid, .. })),
];

/// Reduces a mismatch to a signature: an MDC argument cut at an escape is told apart from the rest.
fn classify_mismatch(pat: &Pat, _got: &str, _expected: &str, prop: &str) -> String {
    let mdc_esc = count_nodes(pat, &|n| match n {
        Node::Fmt { kind: Kind::Mdc { key, default }, .. } => {
            key.chars().chain(default.iter().flat_map(|d| d.chars())).any(|c| SPECIALS.contains(&c))
        }
        _ => false,
    }) > 0;
    if mdc_esc {
        "C09:mdc-arg-truncated".to_string()
    } else {
        format!("{}:output-differs", prop)
    }
}

pub fn check_with(case: &Case, obs: &mut Obs, prop: &str) -> CaseResult {
    match &case.thread {
        None => check_in_thread(case, obs, prop),
        Some(name) => {
            let mut inner = Obs::default();
            let r = std::thread::scope(|s| {
                std::thread::Builder::new()
                    .name(name.clone())
                    .spawn_scoped(s, || {
                        install_quiet_panic_hook();
                        check_in_thread(case, &mut inner, prop)
                    })
                    .unwrap()
                    .join()
            });
            match r {
                Ok(r) => {
                    obs.nontrivial = inner.nontrivial;
                    obs.classes.append(&mut inner.classes);
                    obs.sub_evals += inner.sub_evals;
                    r
                }
                Err(_) => fail(format!("{}:harness-panic", prop), "check thread panicked"),
            }
        }
    }
}

pub fn check(case: &Case, obs: &mut Obs) -> CaseResult {
    check_with(case, obs, "C09")
}

// ---- sub-second dates -------------------------------------------------------------------------

#[derive(Serialize, Deserialize, Debug, Clone)]
pub struct SubCase {
    pub prefix: String,
    pub suffix: String,
    pub which: u8,
    pub rec: Rec,
}

pub fn sub_strategy() -> impl Strategy<Value = SubCase> {
    (text(5), text(5), 0u8..8, rec()).prop_map(|(prefix, suffix, which, rec)| SubCase { prefix, suffix, which, rec })
}

const SUB_FORMS: [(&str, &str, bool); 8] = [
    ("{d(%Y-%m-%d %H:%M:%S.%3f)(utc)}", "%Y-%m-%d %H:%M:%S%.3f", true),
    ("{d(%Y-%m-%d %H:%M:%S.%6f)}", "%Y-%m-%d %H:%M:%S%.6f", false),
    ("{date(%Y-%m-%dT%H:%M:%S.%9f)(utc)}", "%Y-%m-%dT%H:%M:%S%.9f", true),
    // (formatter text, chrono parse format ("" = RFC 3339), utc?)
    ("{d}", "", false),
    ("{d(%+)(utc)}", "", true),
    ("{d(%Y-%m-%dT%H:%M:%S%.f)}", "%Y-%m-%dT%H:%M:%S%.f", false),
    ("{date(%Y-%m-%d %H:%M:%S%.6f)(local)}", "%Y-%m-%d %H:%M:%S%.6f", false),
    ("{d(%Y-%m-%d %H:%M:%S%.3f)(utc)}", "%Y-%m-%d %H:%M:%S%.3f", true),
];

pub fn check_sub(case: &SubCase, obs: &mut Obs) -> CaseResult {
    use chrono::{DateTime, NaiveDateTime, TimeZone, Utc};
    let (form, parse_fmt, utc) = SUB_FORMS[case.which as usize % SUB_FORMS.len()];
    let mut s = String::new();
    let lit = |t: &str| print(&vec![Node::Lit { text: t.to_string(), esc: 0x0F0F_0F0F }], false);
    if !case.prefix.is_empty() {
        s.push_str(&lit(&case.prefix));
    }
    s.push_str(form);
    if !case.suffix.is_empty() && !(case.suffix.starts_with('<') || case.suffix.starts_with('>')) {
        s.push_str(&lit(&case.suffix));
    }
    let suffix = if case.suffix.starts_with('<') || case.suffix.starts_with('>') { "" } else { case.suffix.as_str() };
    let enc = match catch(|| PatternEncoder::new(&s)) {
        Ok(e) => e,
        Err(p) => return fail("C09:panic:construct", format!("PatternEncoder::new({:?}) panicked: {}", s, p)),
    };
    // two records a few milliseconds apart on the same thread: each stamp must lie in its own bracket
    for round in 0..2 {
    if round == 1 {
        std::thread::sleep(std::time::Duration::from_millis(3));
    }
    let t0 = Utc::now();
    let (w, res) = match catch(|| encode_with(&enc, &case.rec, vec![])) {
        Ok(x) => x,
        Err(p) => return fail("C09:panic:encode", format!("encode panicked for {:?}: {}", s, p)),
    };
    let t1 = Utc::now();
    if let Err(e) = res {
        return fail("C09:encode-error", format!("encode returned Err for {:?}: {}", s, e));
    }
    let out = match String::from_utf8(w.bytes()) {
        Ok(o) => o,
        Err(_) => return fail("C10:invalid-utf8", format!("pattern {:?}: invalid UTF-8", s)),
    };
    ensure!(
        out.starts_with(&case.prefix) && out.ends_with(suffix) && out.len() >= case.prefix.len() + suffix.len(),
        "C09:output-differs",
        "pattern {:?}: output {:?} does not consist of the literal prefix, a date and the literal suffix", s, out
    );
    let mid = &out[case.prefix.len()..out.len() - suffix.len()];
    let local_offset = 5 * 3600 + 45 * 60; // TZ is pinned to <+0545>-5:45 by the harness
    let instant: DateTime<Utc> = if parse_fmt.is_empty() {
        match DateTime::parse_from_rfc3339(mid) {
            Ok(dt) => {
                let want = if utc { 0 } else { local_offset };
                ensure!(dt.offset().local_minus_utc() == want, "C09:date-zone", "pattern {:?}: date {:?} carries offset {} s, requested zone has {} s", s, mid, dt.offset().local_minus_utc(), want);
                dt.with_timezone(&Utc)
            }
            Err(e) => return fail("C09:date-format", format!("pattern {:?}: {:?} is not the default ISO 8601 / RFC 3339 form: {}", s, mid, e)),
        }
    } else {
        match NaiveDateTime::parse_from_str(mid, parse_fmt) {
            Ok(n) => {
                let off = if utc { 0 } else { local_offset };
                Utc.from_utc_datetime(&(n - chrono::Duration::seconds(off as i64)))
            }
            Err(e) => return fail("C09:date-format", format!("pattern {:?}: {:?} does not have the requested format {:?}: {}", s, mid, parse_fmt, e)),
        }
    };
    // formats with 3 or 6 fractional digits truncate: allow the truncation amount below t0
    let slack = chrono::Duration::milliseconds(1);
    ensure!(
        instant >= t0 - slack && instant <= t1,
        "C09:date-instant",
        "pattern {:?} (record #{} on this thread): rendered instant {} outside the encode bracket [{}, {}]", s, round, instant, t0, t1
    );
    }
    obs.nontrivial = !case.prefix.is_empty() || !case.suffix.is_empty();
    obs.class(format!("form={}", form));
    Ok(())
}

/// The process's local zone changes while it runs (TZ fixed-offset zones with their offsets in seconds).
#[derive(Serialize, Deserialize, Debug, Clone)]
pub struct TzCase {
    pub zones: Vec<(String, i32)>,
}

const FIXED_ZONES: [(&str, i32); 7] = [("JST-9", 32_400), ("EST5", -18_000), ("<+0330>-3:30", 12_600), ("UTC0", 0), ("<-1130>11:30", -41_400), ("<+1245>-12:45", 45_900), ("CET-1", 3_600)];

pub fn tz_strategy() -> impl Strategy<Value = TzCase> {
    prop::collection::vec(prop::sample::select(FIXED_ZONES.to_vec()), 2..=3).prop_map(|z| TzCase { zones: z.into_iter().map(|(n, o)| (n.to_string(), o)).collect() })
}

/// "local" is the zone the process is in when the record is encoded, not the one it was in earlier.
pub fn check_tz_change(case: &TzCase, obs: &mut Obs) -> CaseResult {
    use chrono::{NaiveDateTime, Utc};
    let pinned = ("<+0545>-5:45".to_string(), 20_700);
    // (the last two fields: the default date format, as `{d}` and spelled out)
    let enc = PatternEncoder::new("{d(%z|%Y-%m-%dT%H:%M:%S)}|{d(%z)(local)}|{d}|{date(%+)(local)}");
    let rec = Rec { level: 2, target: "t".into(), msg: vec!["m".into()], module: None, file: None, line: None, mdc: vec![] };
    let mut result = Ok(());
    // every case visits a zone west of Greenwich whose offset is not a whole hour
    let west = [("<-0330>3:30".to_string(), -12_600), ("<-0930>9:30".to_string(), -34_200), ("<-0045>0:45".to_string(), -2_700)][case.zones.len() % 3].clone();
    let mut seq: Vec<&(String, i32)> = vec![&pinned];
    seq.extend(case.zones.iter());
    seq.push(&west);
    for (i, (zone, off)) in seq.iter().enumerate() {
        if i > 0 {
            std::env::set_var("TZ", zone);
            // chrono looks at TZ again at most once per second
            std::thread::sleep(std::time::Duration::from_millis(1150));
        }
        let t0 = Utc::now();
        let out = match catch(|| encode_with(&enc, &rec, vec![])) {
            Ok((w, Ok(()))) => String::from_utf8_lossy(&w.bytes()).to_string(),
            Ok((_, Err(e))) => {
                result = fail("C09:encode-error", format!("encode returned Err: {}", e));
                break;
            }
            Err(p) => {
                result = fail("C09:panic:encode", format!("encode panicked after a zone change: {}", p));
                break;
            }
        };
        let t1 = Utc::now();
        obs.sub_evals += 1;
        let sign = if *off < 0 { '-' } else { '+' };
        let want_z = format!("{}{:02}{:02}", sign, off.abs() / 3600, off.abs() % 3600 / 60);
        let parts: Vec<&str> = out.split('|').collect();
        let default_ok = |s: &str| {
            chrono::DateTime::parse_from_rfc3339(s).map_or(false, |d| d.offset().local_minus_utc() == *off && d.with_timezone(&Utc) >= t0 - chrono::Duration::seconds(1) && d.with_timezone(&Utc) <= t1)
        };
        let ok = parts.len() == 5 && parts[0] == want_z && parts[2] == want_z && default_ok(parts[3]) && default_ok(parts[4]) && NaiveDateTime::parse_from_str(parts[1], "%Y-%m-%dT%H:%M:%S").map_or(false, |n| {
            let lo = (t0 + chrono::Duration::seconds(*off as i64 - 1)).naive_utc();
            let hi = (t1 + chrono::Duration::seconds(*off as i64)).naive_utc();
            n >= lo && n <= hi
        });
        if !ok {
            result = fail("C09:date-zone-after-change", format!("zone #{} of the process lifetime is TZ={:?} (UTC{}): the local date rendered as {:?} at {} UTC", i, zone, want_z, out, t0));
            break;
        }
    }
    std::env::set_var("TZ", &pinned.0);
    std::thread::sleep(std::time::Duration::from_millis(1150));
    obs.nontrivial = true;
    obs.class(format!("zone-changes={}", case.zones.len()));
    result
}

/// `PatternEncoder::default()` (what an appender without an `encoder:` section gets, and the `pattern` deserializer
/// without a `pattern` key) is documented as the pattern `{d} {l} {t} - {m}{n}`: it must render exactly like an
/// encoder built from that string - ISO 8601 date in the LOCAL zone, level, target, message, line break.
pub fn check_default_encoder(rec: &Rec, obs: &mut Obs) -> CaseResult {
    use chrono::{DateTime, Utc};
    let routes: Vec<(&str, Box<dyn log4rs::encode::Encode>)> = vec![
        ("PatternEncoder::default()", Box::new(PatternEncoder::default())),
        ("PatternEncoder::new(\"{d} {l} {t} - {m}{n}\")", Box::new(PatternEncoder::new("{d} {l} {t} - {m}{n}"))),
        (
            "the pattern deserializer without a pattern key",
            log4rs::config::Deserializers::default().deserialize::<dyn log4rs::encode::Encode>("pattern", serde_value::Value::Map(Default::default())).map_err(|e| Failure { sig: "C09:constructor".into(), msg: e.to_string() })?,
        ),
    ];
    let tail = render(&[Node::Lit { text: " ".into(), esc: 0 }, Node::Fmt { kind: Kind::Level, long: false, spec: None }, Node::Lit { text: " ".into(), esc: 0 }, Node::Fmt { kind: Kind::Target, long: false, spec: None }, Node::Lit { text: " - ".into(), esc: 0 }, Node::Fmt { kind: Kind::Message, long: false, spec: None }, Node::Fmt { kind: Kind::Newline, long: false, spec: None }], rec, &Env { thread_name: "main".into(), debug_build: cfg!(debug_assertions), now_secs: 0 });
    for (what, enc) in &routes {
        let t0 = Utc::now();
        let (w, res) = match catch(|| encode_with(&**enc, rec, vec![])) {
            Ok(x) => x,
            Err(p) => return fail("C09:panic:encode", format!("{}: encode panicked: {}", what, p)),
        };
        let t1 = Utc::now();
        ensure!(res.is_ok(), "C09:encode-error", "{}: encode returned an error", what);
        let out = String::from_utf8_lossy(&w.bytes()).to_string();
        ensure!(out.ends_with(&tail) && out.len() > tail.len(), "C09:output-differs", "{}: output {:?} does not end with {:?}", what, out, tail);
        let date = &out[..out.len() - tail.len()];
        let dt = DateTime::parse_from_rfc3339(date).map_err(|e| Failure { sig: "C09:date-format".into(), msg: format!("{}: {:?} is not an ISO 8601 / RFC 3339 date: {}", what, date, e) })?;
        // the harness pins TZ to <+0545>-5:45
        ensure!(dt.offset().local_minus_utc() == 20_700, "C09:date-zone", "{}: the default pattern's date {:?} carries offset {} s; the local zone has +20700 s", what, date, dt.offset().local_minus_utc());
        let inst = dt.with_timezone(&Utc);
        ensure!(inst >= t0 - chrono::Duration::milliseconds(1) && inst <= t1, "C09:date-instant", "{}: date {:?} outside the encode bracket [{}, {}]", what, date, t0, t1);
        obs.sub_evals += 1;
    }
    obs.nontrivial = true;
    Ok(())
}

// ---- deep nesting ------------------------------------------------------------------------------

/// The grammar sets no limit on how deeply groups may be nested; machine-written patterns nest deeply. Built and
/// rendered on a thread with a large stack (the parser and the encoder recurse).
#[derive(Serialize, Deserialize, Debug, Clone)]
pub struct DeepCase {
    pub depth: u16,
    /// bit i of the pattern decides the kind of every level with (level % 8 == i): plain group or highlight group
    pub kinds: u8,
    /// every `spec_every`-th level carries a width spec that cannot bite (min width 1)
    pub spec_every: u8,
    pub msg: String,
}

const DEEP_EDGES: [u16; 18] = [5, 31, 32, 33, 63, 64, 65, 127, 128, 129, 255, 256, 257, 300, 511, 513, 1024, 1500];

pub fn deep_strategy() -> impl Strategy<Value = DeepCase> {
    (prop_oneof![1u16..1500, (0usize..DEEP_EDGES.len()).prop_map(|i| DEEP_EDGES[i])], any::<u8>(), 0u8..6, "[a-zé]{1,6}")
        .prop_map(|(depth, kinds, spec_every, msg)| DeepCase { depth, kinds, spec_every, msg })
}

pub fn check_deep(case: &DeepCase, obs: &mut Obs) -> CaseResult {
    let c = case.clone();
    let h = std::thread::Builder::new().stack_size(1 << 30).spawn(move || {
        let mut open = String::new();
        let mut close = String::new();
        let mut want_open = String::new();
        let mut want_close = String::new();
        for level in 0..c.depth {
            let highlight = c.kinds >> (level % 8) & 1 == 1;
            open.push_str(if highlight { "<{h(" } else { "<{(" });
            want_open.push('<');
            let spec = c.spec_every != 0 && level % c.spec_every as u16 == 0;
            close = format!("{}{}", if spec { "):1}>" } else { ")}>" }, close);
            want_close.push('>');
        }
        let pattern = format!("{}{{m}}{}", open, close);
        let enc = PatternEncoder::new(&pattern);
        // level Debug: highlight groups of that level ask for no colour, so the text is all there is
        let rec = Rec { level: 4, target: "t".into(), msg: vec![c.msg.clone()], module: None, file: None, line: None, mdc: vec![] };
        let (w, _) = encode_with(&enc, &rec, vec![]);
        (String::from_utf8_lossy(&w.bytes()).to_string(), format!("{}{}{}", want_open, c.msg, want_close))
    });
    let (got, want) = match h.map(|h| h.join()) {
        Ok(Ok(x)) => x,
        Ok(Err(_)) => return fail("C09:deep-nesting-panics", format!("pattern nested {} deep panicked", case.depth)),
        Err(e) => return fail("C09:harness", format!("thread with a large stack: {}", e)),
    };
    obs.sub_evals += 1;
    obs.nontrivial = case.depth >= 5;
    obs.class(match case.depth { 0..=32 => "deep:<=32", 33..=128 => "deep:33-128", 129..=256 => "deep:129-256", 257..=512 => "deep:257-512", _ => "deep:>512" });
    let short = |s: &str| if s.len() > 120 { format!("{}…{}", &s[..60], &s[s.len() - 50..]) } else { s.to_string() };
    ensure!(got == want, "C09:deep-nesting", "groups nested {} deep around {{m}} rendered {:?}, expected {:?}", case.depth, short(&got), short(&want));
    Ok(())
}

/// The process forks after it has logged (pre-fork servers, daemonising): records of the child carry the child's id.
#[derive(Serialize, Deserialize, Debug, Clone)]
pub struct ForkCase {
    pub pattern: String,
}

pub fn check_after_fork(case: &ForkCase, obs: &mut Obs) -> CaseResult {
    let enc = PatternEncoder::new(&case.pattern);
    let rec = Rec { level: 2, target: "t".into(), msg: vec!["m".into()], module: None, file: None, line: None, mdc: vec![] };
    let render = |enc: &PatternEncoder| -> String {
        let (w, _) = encode_with(enc, &rec, vec![]);
        String::from_utf8_lossy(&w.bytes()).to_string()
    };
    let me = std::process::id().to_string();
    let want_parent = case.pattern.replace("{P}", &me).replace("{pid}", &me).replace("{m}", "m");
    let got_parent = render(&enc);
    ensure!(got_parent == want_parent, "C09:output-differs", "pattern {:?} rendered {:?} in process {}", case.pattern, got_parent, me);
    let mut fds = [0 as libc::c_int; 2];
    if unsafe { libc::pipe(fds.as_mut_ptr()) } != 0 {
        return fail("C09:harness", "pipe() failed");
    }
    let pid = unsafe { libc::fork() };
    if pid < 0 {
        return fail("C09:harness", "fork() failed");
    }
    if pid == 0 {
        // child: encode once more and hand the text to the parent
        let out = render(&enc);
        unsafe {
            libc::write(fds[1], out.as_ptr() as *const libc::c_void, out.len());
            libc::_exit(0);
        }
    }
    unsafe { libc::close(fds[1]) };
    let mut buf = vec![0u8; 4096];
    let mut got = vec![];
    loop {
        let n = unsafe { libc::read(fds[0], buf.as_mut_ptr() as *mut libc::c_void, buf.len()) };
        if n <= 0 {
            break;
        }
        got.extend_from_slice(&buf[..n as usize]);
    }
    unsafe {
        libc::close(fds[0]);
        let mut st = 0;
        libc::waitpid(pid, &mut st, 0);
    }
    let child = pid.to_string();
    let want_child = case.pattern.replace("{P}", &child).replace("{pid}", &child).replace("{m}", "m");
    let got_child = String::from_utf8_lossy(&got).to_string();
    obs.sub_evals += 2;
    obs.nontrivial = true;
    ensure!(
        got_child == want_child,
        "C09:pid-after-fork",
        "pattern {:?}: process {} had encoded a record, then forked; its child {} rendered {:?}, the process id of that process gives {:?}", case.pattern, me, child, got_child, want_child
    );
    Ok(())
}

pub fn run(run: &Run) {
    run.run_replays::<Case>("meaning", &check);
    run.run_replays::<SubCase>("date-subsec", &check_sub);
    let n = run.tier.pick(6_000, 400_000);
    run.search("meaning", n, strategy(0.35), &check);
    run.search("date-subsec", run.tier.pick(500, 20_000), sub_strategy(), &check_sub);
    run.run_replays::<Rec>("default-encoder", &check_default_encoder);
    run.search("default-encoder", run.tier.pick(60, 3_000), rec(), &check_default_encoder);
    run.run_replays::<ForkCase>("after-fork", &check_after_fork);
    if run.worker.0 == 0 {
        for p in ["{P}", "{pid}|{P}|{m}", "[{P}] {m}"] {
            run.eval_one("after-fork", &ForkCase { pattern: p.to_string() }, &check_after_fork);
        }
    }
    run.run_replays::<DeepCase>("deep-nesting", &check_deep);
    if run.worker.0 == 0 {
        for (i, d) in DEEP_EDGES.iter().enumerate() {
            run.eval_one("deep-nesting", &DeepCase { depth: *d, kinds: [0u8, 0xFF, 0xA5][i % 3], spec_every: (i % 4) as u8, msg: "msg".into() }, &check_deep);
        }
    }
    run.search("deep-nesting", run.tier.pick(40, 2_000), deep_strategy(), &check_deep);
    // last, because it moves the process's zone about (and back): one worker
    run.run_replays::<TzCase>("tz-change", &check_tz_change);
    if run.worker.0 == 0 {
        run.search("tz-change", run.tier.pick(1, 8), tz_strategy(), &check_tz_change);
    }
    run.note(format!("profile {} (debug_assertions={})", run.profile, cfg!(debug_assertions)));
}

pub fn replay(part: &str, case: serde_json::Value) -> Option<CaseResult> {
    match part {
        "meaning" => Some(check(&serde_json::from_value(case).ok()?, &mut Obs::default())),
        "date-subsec" => Some(check_sub(&serde_json::from_value(case).ok()?, &mut Obs::default())),
        "default-encoder" => Some(check_default_encoder(&serde_json::from_value(case).ok()?, &mut Obs::default())),
        "after-fork" => Some(check_after_fork(&serde_json::from_value(case).ok()?, &mut Obs::default())),
        "deep-nesting" => Some(check_deep(&serde_json::from_value(case).ok()?, &mut Obs::default())),
        "tz-change" => Some(check_tz_change(&serde_json::from_value(case).ok()?, &mut Obs::default())),
        _ => None,
    }
}

pub fn meta() -> EvidenceMeta {
    EvidenceMeta {
        level: "exploration",
        rule: "cases = patterns generated as an AST over the documented grammar (all formatters and both aliases, literals with doubled/backslash escapes, MDC and date arguments, nesting <=4, optional width specs) printed to a string, x 1-2 generated records (Unicode text, absent optional fields, MDC maps, message delivered in 1-6 pieces), encoded into a capture sink with scripted short writes, on the main or a named thread, under both build profiles; oracle = render(AST, record) computed from the AST (never from re-parsing), equality of whole output, the exact sequence of text pieces and style requests (set before / reset after every highlight group of a coloured level, unaffected by width specs, padding outside), alias-flipped pattern renders identically; sub-second dates: cut out between literal prefix/suffix, parsed back, must lie inside the encode bracket with the requested zone's offset; default-encoder: PatternEncoder::default(), PatternEncoder::new of the documented default pattern and the pattern deserializer without a pattern key must all render 'ISO 8601 local date, level, target - message, line break'; after-fork: the process encodes {P}/{pid}, forks, and the child's rendering must carry the child's id; deep nesting: 1-1500 plain and highlight groups (some with a width spec that cannot bite) nested around {m}, built and rendered on a thread with a 1 GiB stack, must render every level's literal text; zone changes: TZ is moved through 2-3 fixed-offset zones while the process runs (1.15 s apart, chrono's own refresh interval) and every local date - also in the default format `{d}` - must carry the offset of the zone in force when it is encoded and denote the instant of encoding (each case ends in a zone west of Greenwich whose offset is not a whole hour); non-trivial = AST depth>=2 or escape adjacent to a formatter or absent optional field under a spec or non-ASCII record text or MDC/date argument with escapes; distinct = FNV hash of the case".into(),
        assumptions: vec![
            "date reference formatting uses chrono itself: checked is that format and zone reach chrono unaltered and the result lands in place".into(),
            "unnamed threads and highlight colours are not asserted (documentation and code disagree; statement requires only unchanged text)".into(),
            "TZ pinned to the fixed-offset zone <+0545>-5:45".into(),
        ],
        mutants_caught: vec![],
    }
}
