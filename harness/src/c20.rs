//! C20 — size and interval literals parse exactly; bad or overflowing ones are rejected.

use crate::engine::*;
use crate::ensure;
use log4rs::append::rolling_file::policy::compound::trigger::size::SizeTriggerConfig;
use log4rs::append::rolling_file::policy::compound::trigger::time::TimeTriggerInterval;
use proptest::prelude::*;
use serde::{Deserialize, Serialize};

#[derive(Serialize, Deserialize, Debug, Clone, PartialEq)]
pub enum Deco {
    None,
    Minus,
    Plus,
    Fraction,
    Exponent,
    LeadingZeros,
}

#[derive(Serialize, Deserialize, Debug, Clone, PartialEq)]
pub enum Carrier {
    YamlPlain,
    YamlQuoted,
    JsonString,
    TomlString,
    /// bare scalar (only for literals without unit and whitespace)
    YamlScalar,
    JsonScalar,
    TomlScalar,
}

#[derive(Serialize, Deserialize, Debug, Clone)]
pub struct Lit {
    pub interval: bool,
    pub digits: String,
    pub deco: Deco,
    /// whitespace between number and unit
    pub gap: String,
    pub unit: String,
    pub lead: String,
    pub trail: String,
    pub carrier: Carrier,
}

const SIZE_UNITS: [(&str, u32); 9] = [("b", 0), ("kb", 1), ("mb", 2), ("gb", 3), ("tb", 4), ("kib", 1), ("mib", 2), ("gib", 3), ("tib", 4)];
const TIME_UNITS: [&str; 14] = ["second", "seconds", "minute", "minutes", "hour", "hours", "day", "days", "week", "weeks", "month", "months", "year", "years"];
const JUNK_UNITS: [&str; 36] = [
    "kbb", "k b", "das", "µs", "kbs", "bytes", "sec", "hrs", "k", "x", "secondss", "kb1", "_", "e",
    // near misses built from the letters of the documented units
    "ib", "IB", "i", "bb", "bib", "kiib", "kbi", "gi", "tbb", "s", "ss", "ds",
    // characters that case-fold onto ASCII letters (KELVIN SIGN -> k, LONG S -> s, dotless/dotted i)
    "\u{212A}b", "\u{212A}iB", "\u{17F}econds", "m\u{131}nutes", "m\u{130}nutes", "week\u{17F}", "M\u{212A}", "\u{ff4b}\u{ff42}", "ｋｂ", "𝐤𝐛",
];

fn randcase(s: &str, mask: u32) -> String {
    s.chars().enumerate().map(|(i, c)| if (mask >> (i % 32)) & 1 == 1 { c.to_ascii_uppercase() } else { c }).collect()
}

fn number_strategy() -> impl Strategy<Value = String> {
    let thresholds: Vec<u128> = {
        let mut v = vec![];
        for max in [u64::MAX as u128, i64::MAX as u128] {
            for k in 0..5u32 {
                let m = 1024u128.pow(k);
                let t = max / m;
                for d in [-1i128, 0, 1, 2] {
                    v.push((t as i128 + d).max(0) as u128);
                }
            }
        }
        v
    };
    prop_oneof![
        3 => prop::sample::select(vec![0u128, 1, 2, 10, 1023, 1024, 1025, 4096]).prop_map(|n| n.to_string()),
        5 => prop::sample::select(thresholds).prop_map(|n| n.to_string()),
        2 => (0u32..64, -1i128..=1).prop_map(|(k, d)| ((1i128 << k) + d).max(0).to_string()),
        3 => "[1-9][0-9]{0,19}",
        1 => "[1-9][0-9]{20,29}",
        // beyond 64 and beyond 128 bits (a wider intermediate type only moves the cliff), incl. 2^k / unit thresholds of u128
        1 => "[1-9][0-9]{30,45}",
        1 => (0u32..5, -1i128..=1).prop_map(|(k, d)| ((u128::MAX / 1024u128.pow(k)) as i128).wrapping_add(d).max(0).to_string()),
        1 => (64u32..127, -1i128..=1).prop_map(|(k, d)| ((1i128 << k) + d).to_string()),
        // no number at all: a lone unit, or nothing
        1 => Just(String::new()),
        // characters that are numeric for Unicode but not digits of a number literal
        1 => prop::sample::select(vec!["\u{663}", "1\u{663}", "\u{ff11}\u{ff10}", "\u{b2}", "1\u{2460}"]).prop_map(|s| s.to_string()),
    ]
}

pub fn strategy() -> impl Strategy<Value = Lit> {
    (
        prop::bool::ANY,
        number_strategy(),
        prop_oneof![8 => Just(Deco::None), 1 => Just(Deco::Minus), 1 => Just(Deco::Plus), 1 => Just(Deco::Fraction), 1 => Just(Deco::Exponent), 1 => Just(Deco::LeadingZeros)],
        // (the last four are whitespace for Unicode, not for ASCII)
        prop::sample::select(vec!["", "", " ", "  ", "\t", " \t ", "", " ", "\u{a0}", "\u{3000}", " \u{2009}", "\u{205f}"]),
        prop_oneof![3 => Just(0u8), 8 => Just(1u8), 2 => Just(2u8), 1 => Just(3u8), 2 => Just(4u8), 2 => Just(5u8)],
        any::<u16>(),
        any::<u32>(),
        prop_oneof![6 => Just(("", "")), 1 => Just((" ", "")), 1 => Just(("", " ")), 1 => Just(("\t", " "))],
        0u8..7,
    )
        .prop_map(|(interval, digits, deco, gap, unit_kind, ui, mask, (lead, trail), carrier)| {
            let unit = match unit_kind {
                0 => String::new(),
                1 => {
                    if interval {
                        randcase(*pick(&TIME_UNITS[..], ui), mask)
                    } else {
                        randcase(pick(&SIZE_UNITS[..], ui).0, mask)
                    }
                }
                2 => pick(&JUNK_UNITS[..], ui).to_string(),
                // a documented unit followed by more words: the literal as a whole is not '<number><unit>'
                4 => {
                    let u = if interval { randcase(*pick(&TIME_UNITS[..], ui), mask) } else { randcase(pick(&SIZE_UNITS[..], ui).0, mask) };
                    format!("{}{}", u, [" x", " 3", " 12 hours", "\tago", " kb", " 1", "\0", "\0\0\0", "\u{200b}", "\u{7f}", "\u{1}", ".", ";", "\u{feff}"][(mask as usize >> 8) % 14])
                }
                // a documented unit in which one letter is replaced by a character whose code point agrees with the
                // letter's in the low 8 or 16 bits (what a narrowing cast of the character would keep)
                5 => {
                    let u = if interval { randcase(*pick(&TIME_UNITS[..], ui), mask) } else { randcase(pick(&SIZE_UNITS[..], ui).0, mask) };
                    let n = u.chars().count();
                    let at = (mask as usize >> 3) % n;
                    let add = [0x100u32, 0x200, 0x2100, 0xFF00, 0x1_0000, 0x1_F400, 0x2_0000, 0x300][(mask as usize >> 11) % 8];
                    u.chars().enumerate().map(|(i, c)| if i == at { char::from_u32(c as u32 + add).unwrap_or('\u{101}') } else { c }).collect()
                }
                // long junk: ASCII padding of 24..40 bytes followed by multi-byte characters (straddling byte 32, 64)
                _ => format!("{}{}", "x".repeat(24 + (ui as usize % 17)), ["é", "漢", "😀", "é漢😀é漢😀é漢😀é漢😀"][(mask % 4) as usize]),
            };
            // a YAML plain scalar without a unit is a number for YAML itself: only literals with a unit are "textual"
            let textual = !unit.is_empty();
            let carrier = match (carrier, textual) {
                (0, true) => Carrier::YamlPlain,
                (1, _) | (0, false) => Carrier::YamlQuoted,
                (2, _) => Carrier::JsonString,
                (3, _) => Carrier::TomlString,
                (4, false) => Carrier::YamlScalar,
                (5, false) => Carrier::JsonScalar,
                (6, false) => Carrier::TomlScalar,
                (4, true) => Carrier::YamlPlain,
                (5, true) => Carrier::JsonString,
                _ => Carrier::TomlString,
            };
            let gap = if unit.is_empty() { String::new() } else { gap.to_string() };
            Lit { interval, digits, deco, gap, unit, lead: lead.to_string(), trail: trail.to_string(), carrier }
        })
}

pub fn literal_text(l: &Lit) -> String {
    let num = match l.deco {
        Deco::None => l.digits.clone(),
        Deco::Minus => format!("-{}", l.digits),
        Deco::Plus => format!("+{}", l.digits),
        Deco::Fraction => format!("{}.5", l.digits),
        Deco::Exponent => format!("{}e3", l.digits),
        Deco::LeadingZeros => format!("00{}", l.digits),
    };
    format!("{}{}{}{}{}", l.lead, num, l.gap, l.unit, l.trail)
}

#[derive(Debug, PartialEq, Clone)]
pub enum Want {
    Value(u128, String),
    Reject,
    /// statement silent: an error is fine, a value must be this one
    Either(u128, String),
    /// the carrier cannot express it / format-specific: anything but a panic or a wrong in-range value is tolerated
    Unsettled,
}

/// Reference in u128 arithmetic, from the statement.
pub fn reference(l: &Lit) -> Want {
    // ("" decorated with leading zeros is the number 00)
    let n: Option<u128> = if l.digits.is_empty() && l.deco == Deco::LeadingZeros { Some(0) } else { l.digits.parse::<u128>().ok() };
    let scalar = matches!(l.carrier, Carrier::YamlScalar | Carrier::JsonScalar | Carrier::TomlScalar);
    let max: u128 = if l.interval { i64::MAX as u128 } else { u64::MAX as u128 };
    let (mult, unit_name): (Option<u128>, String) = if l.unit.is_empty() {
        (Some(1), if l.interval { "second".into() } else { "b".into() })
    } else if l.interval {
        match TIME_UNITS.iter().find(|u| u.eq_ignore_ascii_case(&l.unit)) {
            Some(u) => (Some(1), u.trim_end_matches('s').to_string()),
            None => (None, String::new()),
        }
    } else {
        match SIZE_UNITS.iter().find(|(u, _)| u.eq_ignore_ascii_case(&l.unit)) {
            Some((_, k)) => (Some(1024u128.pow(*k)), "b".into()),
            None => (None, String::new()),
        }
    };
    let Some(mult) = mult else { return Want::Reject };
    let Some(n) = n else { return Want::Reject };
    let value = n.checked_mul(mult);
    let fits = value.map_or(false, |v| v <= max);
    match l.deco {
        Deco::Minus => {
            if n == 0 && scalar {
                // "-0" as an integer scalar is zero in every carrier
                return Want::Either(0, unit_name);
            }
            return Want::Reject;
        }
        Deco::Fraction => return Want::Reject,
        Deco::Exponent => {
            // as a string the suffix "e3" is junk; as a numeric scalar it is a float: reject, or exactly n*1000
            return if scalar { n.checked_mul(1000).filter(|v| *v <= max).map_or(Want::Reject, |v| Want::Either(v, unit_name)) } else { Want::Reject };
        }
        _ => {}
    }
    if !fits {
        return Want::Reject;
    }
    let v = value.unwrap();
    let outer_ws = !l.lead.is_empty() || !l.trail.is_empty();
    if l.carrier == Carrier::TomlScalar && n > i64::MAX as u128 {
        return Want::Unsettled; // TOML integers are 64-bit signed: the carrier cannot express it
    }
    if l.deco == Deco::LeadingZeros {
        // leading zeros: statement silent; numeric carriers may read octal or reject
        return if scalar { Want::Unsettled } else { Want::Either(v, unit_name) };
    }
    if l.deco == Deco::Plus {
        return if scalar { Want::Either(v, unit_name) } else { Want::Reject };
    }
    if outer_ws {
        return Want::Either(v, unit_name);
    }
    Want::Value(v, unit_name)
}

#[derive(Deserialize, Debug)]
struct WI {
    v: TimeTriggerInterval,
}

fn quote_json(s: &str) -> String {
    serde_json::to_string(s).unwrap()
}

/// Parses through the real deserializers; Ok(Some((value, unit))) / Ok(None) = rejected / Err = panic message
pub fn parse(l: &Lit) -> Result<Option<(u128, String)>, String> {
    let text = literal_text(l);
    let scalar_text = text.trim().to_string();
    catch(|| -> Option<(u128, String)> {
        if l.interval {
            let v: Option<TimeTriggerInterval> = match l.carrier {
                Carrier::YamlPlain => serde_yaml::from_str::<WI>(&format!("v: {}\n", text)).ok().map(|w| w.v),
                Carrier::YamlQuoted => serde_yaml::from_str::<WI>(&format!("v: {}\n", quote_json(&text))).ok().map(|w| w.v),
                Carrier::JsonString => serde_json::from_str::<WI>(&format!("{{\"v\": {}}}", quote_json(&text))).ok().map(|w| w.v),
                Carrier::TomlString => toml::from_str::<WI>(&format!("v = {}\n", quote_json(&text))).ok().map(|w| w.v),
                Carrier::YamlScalar => serde_yaml::from_str::<WI>(&format!("v: {}\n", scalar_text)).ok().map(|w| w.v),
                Carrier::JsonScalar => serde_json::from_str::<WI>(&format!("{{\"v\": {}}}", scalar_text)).ok().map(|w| w.v),
                Carrier::TomlScalar => toml::from_str::<WI>(&format!("v = {}\n", scalar_text)).ok().map(|w| w.v),
            };
            v.map(|i| {
                let (n, u) = match i {
                    TimeTriggerInterval::Second(n) => (n, "second"),
                    TimeTriggerInterval::Minute(n) => (n, "minute"),
                    TimeTriggerInterval::Hour(n) => (n, "hour"),
                    TimeTriggerInterval::Day(n) => (n, "day"),
                    TimeTriggerInterval::Week(n) => (n, "week"),
                    TimeTriggerInterval::Month(n) => (n, "month"),
                    TimeTriggerInterval::Year(n) => (n, "year"),
                };
                // a negative count can only be a wrapped value: report it as an impossible magnitude
                (if n < 0 { u128::MAX - (n.unsigned_abs() as u128) } else { n as u128 }, u.to_string())
            })
        } else {
            let c: Option<SizeTriggerConfig> = match l.carrier {
                Carrier::YamlPlain => serde_yaml::from_str(&format!("limit: {}\n", text)).ok(),
                Carrier::YamlQuoted => serde_yaml::from_str(&format!("limit: {}\n", quote_json(&text))).ok(),
                Carrier::JsonString => serde_json::from_str(&format!("{{\"limit\": {}}}", quote_json(&text))).ok(),
                Carrier::TomlString => toml::from_str(&format!("limit = {}\n", quote_json(&text))).ok(),
                Carrier::YamlScalar => serde_yaml::from_str(&format!("limit: {}\n", scalar_text)).ok(),
                Carrier::JsonScalar => serde_json::from_str(&format!("{{\"limit\": {}}}", scalar_text)).ok(),
                Carrier::TomlScalar => toml::from_str(&format!("limit = {}\n", scalar_text)).ok(),
            };
            c.map(|c| {
                // observed through the Debug rendering: SizeTriggerConfig { limit: N }
                let d = format!("{:?}", c);
                let n: u128 = d.trim_end_matches(|ch: char| !ch.is_ascii_digit()).rsplit(|ch: char| !ch.is_ascii_digit()).next().unwrap().parse().unwrap();
                (n, "b".to_string())
            })
        }
    })
}

pub fn check(l: &Lit, obs: &mut Obs) -> CaseResult {
    let want = reference(l);
    let text = literal_text(l);
    let got = match parse(l) {
        Ok(g) => g,
        Err(p) => return fail("C20:panic", format!("parsing {:?} ({:?}) as {} panicked: {}", text, l.carrier, if l.interval { "an interval" } else { "a size" }, p)),
    };
    let kind = if l.interval { "interval" } else { "size" };
    match (&want, &got) {
        (Want::Value(v, u), Some((gv, gu))) => ensure!(gv == v && gu == u, wrong_sig(l, *gv), "{} literal {:?} ({:?}) parsed to {} {}, expected exactly {} {}", kind, text, l.carrier, show(*gv), gu, v, u),
        (Want::Value(v, u), None) => return fail("C20:rejected-valid", format!("{} literal {:?} ({:?}) was rejected, expected {} {}", kind, text, l.carrier, v, u)),
        (Want::Reject, Some((gv, gu))) => return fail(wrong_sig(l, *gv), format!("{} literal {:?} ({:?}) was accepted as {} {}; it must be rejected (negative, fractional, unknown unit or overflowing)", kind, text, l.carrier, show(*gv), gu)),
        (Want::Reject, None) => {}
        (Want::Either(v, u), Some((gv, gu))) => ensure!(gv == v && gu == u, wrong_sig(l, *gv), "{} literal {:?} ({:?}) parsed to {} {}: an error would be acceptable, a value must be {} {}", kind, text, l.carrier, show(*gv), gu, v, u),
        (Want::Either(..), None) => {}
        (Want::Unsettled, Some((gv, _))) => {
            let max: u128 = if l.interval { i64::MAX as u128 } else { u64::MAX as u128 };
            ensure!(*gv <= max, wrong_sig(l, *gv), "{} literal {:?} ({:?}) produced an out-of-range (wrapped) value", kind, text, l.carrier);
        }
        (Want::Unsettled, None) => {}
    }
    let n = l.digits.parse::<u128>().unwrap_or(u128::MAX);
    let near_threshold = {
        let mut near = false;
        for max in [u64::MAX as u128, i64::MAX as u128] {
            for k in 0..5u32 {
                let t = max / 1024u128.pow(k);
                if n.abs_diff(t) <= 1 {
                    near = true;
                }
            }
        }
        near
    };
    let mixed_case = l.unit.chars().any(|c| c.is_ascii_uppercase()) && l.unit.chars().any(|c| c.is_ascii_lowercase());
    let scalar = matches!(l.carrier, Carrier::YamlScalar | Carrier::JsonScalar | Carrier::TomlScalar);
    obs.nontrivial = near_threshold || mixed_case || !l.gap.is_empty() || (scalar && n > i64::MAX as u128);
    obs.class(format!("kind={}", kind));
    obs.class(format!("carrier={:?}", l.carrier));
    obs.class(format!("deco={:?}", l.deco));
    obs.class(format!("oracle={}", match want { Want::Value(..) => "exact-value", Want::Reject => "must-reject", Want::Either(..) => "error-or-exact", Want::Unsettled => "unsettled(no wrap/panic)" }));
    obs.class_if(near_threshold, "within-1-of-overflow-threshold");
    obs.class_if(mixed_case, "mixed-case-unit");
    obs.class_if(!l.gap.is_empty(), "whitespace-before-unit");
    obs.class_if(scalar && n > i64::MAX as u128, "integer-scalar-above-i64-max");
    obs.class_if(JUNK_UNITS.contains(&l.unit.as_str()), "junk-unit");
    obs.class_if(l.unit.len() > 24, "long-junk-unit");
    obs.class_if(!l.unit.is_ascii(), "non-ascii-unit");
    Ok(())
}

fn show(v: u128) -> String {
    if v > u64::MAX as u128 {
        format!("-{} (negative: wrapped)", u128::MAX - v)
    } else {
        v.to_string()
    }
}

fn wrong_sig(l: &Lit, got: u128) -> String {
    let scalar = matches!(l.carrier, Carrier::YamlScalar | Carrier::JsonScalar | Carrier::TomlScalar);
    if l.interval && scalar && got > u64::MAX as u128 {
        "C20:wrapped:interval-u64".to_string()
    } else {
        format!("C20:wrong-value:{}", if l.interval { "interval" } else { "size" })
    }
}

// ---- refresh_rate (humantime), exercised alongside ----------------------------------------------------------

#[derive(Serialize, Deserialize, Debug, Clone)]
pub struct Rate {
    pub text: String,
    /// Some(n): the documented "N seconds" form
    pub seconds: Option<u64>,
}

pub fn rate_strategy() -> impl Strategy<Value = Rate> {
    prop_oneof![
        3 => (0u64..100_000).prop_map(|n| Rate { text: format!("{} seconds", n), seconds: Some(n) }),
        2 => "[0-9a-z µ.:-]{0,16}".prop_map(|t| Rate { text: t, seconds: None }),
        1 => "[1-9][0-9]{15,25} ?(seconds|years|ns|weeks)".prop_map(|t| Rate { text: t, seconds: None }),
    ]
}

pub fn check_rate(r: &Rate, obs: &mut Obs) -> CaseResult {
    let doc = format!("refresh_rate: {}\nroot:\n  level: info\n", serde_json::to_string(&r.text).unwrap());
    let got = match catch(|| serde_yaml::from_str::<log4rs::config::RawConfig>(&doc).ok().map(|c| c.refresh_rate())) {
        Ok(g) => g,
        Err(p) => return fail("C20:panic", format!("refresh_rate {:?} panicked: {}", r.text, p)),
    };
    if let Some(n) = r.seconds {
        ensure!(got == Some(Some(std::time::Duration::from_secs(n))), "C20:refresh-rate", "refresh_rate {:?} parsed to {:?}", r.text, got);
    }
    obs.nontrivial = r.seconds.is_none();
    obs.class_if(got.is_none(), "rejected");
    Ok(())
}

pub fn run(run: &Run) {
    run.run_replays::<Lit>("literal", &check);
    run.run_replays::<Rate>("refresh-rate", &check_rate);
    run.search("literal", run.tier.pick(60_000, 3_000_000), strategy(), &check);
    run.search("refresh-rate", run.tier.pick(5_000, 200_000), rate_strategy(), &check_rate);
}

pub fn replay(part: &str, case: serde_json::Value) -> Option<CaseResult> {
    match part {
        "literal" => Some(check(&serde_json::from_value(case).ok()?, &mut Obs::default())),
        "refresh-rate" => Some(check_rate(&serde_json::from_value(case).ok()?, &mut Obs::default())),
        _ => None,
    }
}

pub fn meta() -> EvidenceMeta {
    EvidenceMeta {
        level: "exploration",
        rule: "cases = literals composed of a number (0, 1, every overflow threshold floor(MAX/1024^k)-1..+2 for MAX in {u64::MAX, i64::MAX}, 2^k+-1, random 1-20 digits, 21-30 digits, no digits at all, Unicode-numeric characters that are no ASCII digits), a decoration (none, '-', '+', '.5', 'e3', leading zeros), whitespace before the unit (none/spaces/tab/mixed/no-break space/ideographic space/thin space), a unit (every documented spelling in random letter case, none, junk, or a documented unit followed by further words), optional outer whitespace, in one of seven carriers (YAML plain/quoted string, JSON string, TOML string, YAML/JSON/TOML bare numeric scalar), for SizeTriggerConfig (observed through Debug) and TimeTriggerInterval; oracle = u128 reference: value == number x unit (powers of 1024; named interval unit) when it fits u64 / i64, Err exactly when the statement demands rejection (negative, fractional, unknown unit, overflow); accept-either where the statement is silent (leading zeros, '+', outer whitespace, float-valued exponent scalars): an error is fine, a value must be exact; never a panic, never a wrapped value. refresh_rate (humantime): no panic, documented 'N seconds' form exact. Further inputs (rounds 11-13): numbers beyond 64 and 128 bits; a documented unit followed by NUL or invisible characters. non-trivial = number within 1 of an overflow threshold, or mixed-case unit, or whitespace before the unit, or an integer scalar above i64::MAX".into(),
        assumptions: vec!["TOML integers are 64-bit signed: larger integer scalars in TOML are unsettled (carrier limit)".into()],
        mutants_caught: vec![],
    }
}
