//! C01 — routing delivers each record to exactly the appenders of its logger chain.

use crate::engine::*;
use crate::ensure;
use crate::gen::cfgtree::{self, raw_cfg, raw_targets, resolve, resolve_target, shape};
use crate::glue::*;
use crate::model::route::{LCfg, LEVELS};
use log::Log;
use proptest::prelude::*;
use serde::{Deserialize, Serialize};

#[derive(Serialize, Deserialize, Debug, Clone)]
pub struct Case {
    pub cfg: LCfg,
    pub perm_loggers: Vec<u16>,
    pub perm_appenders: Vec<u16>,
    pub targets: Vec<String>,
    /// appenders (by declaration index) that report an error after recording the delivery
    #[serde(default)]
    pub failing: Vec<bool>,
    /// earlier on this thread, through another logger, this many records ended in an appender that panicked (the
    /// caller caught each panic - a worker pool that survives panics); routing afterwards is as for any record
    #[serde(default)]
    pub prior_panics: u8,
    /// the configuration is built with this provisional root level and corrected afterwards through the public
    /// `Config::root_mut().set_level()`
    #[serde(default)]
    pub via_root_mut: Option<u8>,
}

#[derive(Debug)]
struct Panicker;

impl log4rs::append::Append for Panicker {
    fn append(&self, _: &log::Record) -> anyhow::Result<()> {
        panic!("appender panics")
    }
    fn flush(&self) {}
}

pub fn strategy() -> impl Strategy<Value = Case> {
    (
        raw_cfg(8),
        raw_targets(2..=6),
        prop::collection::vec(any::<u16>(), 8),
        prop::collection::vec(any::<u16>(), 5),
        (prop_oneof![2 => Just(vec![]), 1 => prop::collection::vec(prop::bool::weighted(0.4), 5)], prop_oneof![9 => Just(0u8), 1 => 1u8..12], prop::option::weighted(0.25, 0u8..6)),
    )
        .prop_map(|(raw, rt, pl, pa, (failing, prior_panics, via_root_mut))| {
            let cfg = resolve(&raw);
            let mut targets: Vec<String> = rt
                .iter()
                .map(|(k, l, e)| resolve_target(&cfg, *k, *l, *e))
                .collect();
            targets.dedup();
            Case {
                cfg,
                perm_loggers: pl,
                perm_appenders: pa,
                targets,
                failing,
                prior_panics,
                via_root_mut,
            }
        })
}

pub fn permute(cfg: &LCfg, pl: &[u16], pa: &[u16]) -> LCfg {
    let mut c = cfg.clone();
    let mut ls: Vec<(u16, crate::model::route::LLogger)> = c
        .loggers
        .drain(..)
        .enumerate()
        .map(|(i, l)| (pl.get(i).copied().unwrap_or(i as u16), l))
        .collect();
    ls.sort_by_key(|x| x.0);
    c.loggers = ls.into_iter().map(|x| x.1).collect();
    let mut aps: Vec<(u16, String)> = c
        .appenders
        .drain(..)
        .enumerate()
        .map(|(i, a)| (pa.get(i).copied().unwrap_or(i as u16), a))
        .collect();
    aps.sort_by_key(|x| x.0);
    c.appenders = aps.into_iter().map(|x| x.1).collect();
    c
}

pub fn check(case: &Case, obs: &mut Obs) -> CaseResult {
    let cfg = &case.cfg;
    if case.prior_panics > 0 {
        let c = log4rs::Config::builder()
            .appender(log4rs::config::Appender::builder().build("p", Box::new(Panicker)))
            .build(log4rs::config::Root::builder().appender("p").build(log::LevelFilter::Trace))
            .unwrap();
        let other = log4rs::Logger::new(c);
        for _ in 0..case.prior_panics {
            let r = catch(|| with_record("t", log::Level::Info, "p", |r| other.log(r)));
            ensure!(r.is_err(), "C01:dropped-after-panics", "a record for a logger whose only appender panics was not delivered to it (no panic arrived)");
        }
        obs.class("after-caught-appender-panics-on-this-thread");
    }
    let sink = new_sink();
    // errors go to a handler that only counts them (the default handler would write to stderr)
    let built = match case.via_root_mut {
        None => build_config_failing(cfg, &sink, "", &case.failing),
        Some(p) => {
            let mut provisional = cfg.clone();
            provisional.root_level = p % 6;
            build_config_failing(&provisional, &sink, "", &case.failing).map(|mut c| {
                c.root_mut().set_level(crate::model::route::LEVEL_FILTERS[cfg.root_level as usize % 6]);
                c
            })
        }
    };
    let config = match built {
        Ok(c) => c,
        Err(e) => return fail("C01:valid-config-rejected", format!("build() rejected a valid configuration: {}", e)),
    };
    let logger = log4rs::Logger::new_with_err_handler(config, Box::new(|_e| {}));
    let cfg2 = permute(cfg, &case.perm_loggers, &case.perm_appenders);
    let sink2 = new_sink();
    let logger2 = match build_config(&cfg2, &sink2, "") {
        Ok(c) => log4rs::Logger::new(c),
        Err(e) => return fail("C01:valid-config-rejected", format!("build() rejected the permuted configuration: {}", e)),
    };
    let sh = shape(cfg);
    let mut interesting_probe = false;
    // every probe hands the target over in the same reused buffer (same address; targets of equal length one after
    // the other): only the characters may decide the routing
    let mut probe_order: Vec<&String> = case.targets.iter().collect();
    probe_order.sort_by_key(|t| t.len());
    let mut buf = String::with_capacity(8192);
    for t in probe_order {
        buf.clear();
        buf.push_str(t);
        let t = &buf;
        let eff = cfg.effective(t);
        let eff_txt = cfg.effective_textual(t);
        if eff != eff_txt {
            // the two formulations of the statement disagree (only for ill-formed targets next to
            // names with empty components): not asserted, counted
            obs.class("oracle-formulations-disagree(skipped)");
            continue;
        }
        if let Some(i) = eff {
            let l = &cfg.loggers[i];
            if !l.additive || sh.implied_intermediate || sh.textual_sibling {
                interesting_probe = true;
            }
        }
        for (li, level) in LEVELS.iter().enumerate() {
            let expected = cfg.route(t, *level);
            let msg = format!("{}", li);
            // where the record was logged from (module path = the name of some configured logger) has no say in routing
            let site = cfg.loggers.get(li % cfg.loggers.len().max(1)).map(|l| (l.name.as_str(), "src/lib.rs", 7u32));
            with_record_at(t, *level, &msg, site, |r| logger.log(r));
            let got = drain_multiset(&sink);
            obs.sub_evals += 1;
            ensure!(
                got == expected,
                "C01:misrouted",
                "target {:?} level {:?}: delivered {:?}, routing prescribes {:?} (effective logger {:?})",
                t, level, got, expected, eff.map(|i| cfg.loggers[i].name.clone())
            );
        }
    }
    // the same probes through the logger built from the permuted declaration order (a loop of its own, so that
    // consecutive lookups of one logger see consecutive targets)
    let mut probe_order: Vec<&String> = case.targets.iter().collect();
    probe_order.sort_by_key(|t| std::cmp::Reverse(t.len()));
    for t in probe_order {
        buf.clear();
        buf.push_str(t);
        let t = &buf;
        if cfg.effective(t) != cfg.effective_textual(t) {
            continue;
        }
        for (li, level) in LEVELS.iter().enumerate().rev() {
            let expected = cfg.route(t, *level);
            let msg = format!("{}", li);
            with_record(t, *level, &msg, |r| logger2.log(r));
            let got2 = drain_multiset(&sink2);
            ensure!(
                got2 == expected,
                "C01:order-dependent",
                "target {:?} level {:?}: permuted declaration order delivered {:?}, original order {:?}",
                t, level, got2, expected
            );
        }
    }
    // an appender that logs while it is being logged to: the nested record is routed like any other, once per
    // delivery of the outer record to that appender, and the outer record's own fan-out continues afterwards
    if let (Some(a0), true) = (cfg.appenders.first(), case.targets.len() >= 2) {
        let (t1, t2) = (&case.targets[0], &case.targets[case.targets.len() - 1]);
        if cfg.effective(t1) == cfg.effective_textual(t1) && cfg.effective(t2) == cfg.effective_textual(t2) {
            let logger = std::sync::Arc::new(logger);
            let (l2, t2c) = (logger.clone(), t2.clone());
            NEST.with(|n| *n.borrow_mut() = Some((a0.clone(), std::sync::Arc::new(move || with_record(&t2c, log::Level::Warn, "inner", |r| l2.log(r))))));
            let _ = drain_multiset(&sink);
            let r = catch(|| with_record(t1, log::Level::Error, "outer", |r| logger.log(r)));
            NEST.with(|n| *n.borrow_mut() = None);
            if let Err(p) = r {
                return fail("C01:panic", format!("an appender that logs from inside append made log() panic: {}", p));
            }
            let got = drain_multiset(&sink);
            let outer = cfg.route(t1, log::Level::Error);
            let k = outer.get(a0).copied().unwrap_or(0);
            let mut want = outer.clone();
            if k > 0 {
                for (a, n) in cfg.route(t2, log::Level::Warn) {
                    *want.entry(a).or_insert(0) += n * k;
                }
            }
            obs.sub_evals += 1;
            ensure!(
                got == want,
                "C01:misrouted-nested",
                "appender {:?} logs a record for target {:?} (warn) whenever it receives the record for target {:?} (error): delivered {:?}, routing prescribes {:?}", a0, t2, t1, got, want
            );
            obs.class_if(k > 0, "appender-logs-from-inside-append");
        }
    }
    obs.nontrivial = cfg.loggers.len() >= 2 && interesting_probe;
    obs.class(format!("depth={}", sh.max_depth.min(6)));
    obs.class_if(sh.implied_intermediate, "implied-intermediate");
    obs.class_if(sh.additive_false, "additive-false");
    obs.class_if(sh.duplicate_attachment, "duplicate-attachment");
    obs.class_if(sh.textual_sibling, "textual-sibling");
    obs.class_if(case.targets.iter().any(|t| t.contains(":::") || t.ends_with(':') || t.starts_with(':') || (t.contains(':') && !t.contains("::"))), "stray-colon-target");
    obs.class_if(case.targets.iter().any(|t| t.is_empty()), "empty-target");
    obs.class_if(case.failing.iter().any(|f| *f), "failing-appenders-in-the-chain");
    obs.class_if(case.via_root_mut.is_some(), "root-level-set-through-root_mut");
    let _ = cfgtree::COMPS;
    Ok(())
}

/// Structural scale: many appenders / loggers (sizes around powers of two), attachments at the high end.
#[derive(Serialize, Deserialize, Debug, Clone)]
pub struct Scale {
    pub appenders: usize,
    pub loggers: usize,
}

pub fn check_scale(c: &Scale, obs: &mut Obs) -> CaseResult {
    let n = c.appenders;
    let names: Vec<String> = (0..n).map(|i| format!("A{}", i)).collect();
    let pickn = |idxs: &[usize]| -> Vec<String> { idxs.iter().filter(|i| **i < n).map(|i| names[*i].clone()).collect() };
    let mut loggers = vec![];
    for j in 0..c.loggers {
        loggers.push(crate::model::route::LLogger { name: format!("m{}::x", j), level: 5, additive: j % 2 == 0, appenders: pickn(&[n - 1 - (j % n), j % n]) });
    }
    let cfg = LCfg { appenders: names.clone(), root_level: 5, root_appenders: pickn(&[n - 1, n / 2, 0, n.saturating_sub(2)]), loggers };
    let sink = new_sink();
    let config = build_config(&cfg, &sink, "").map_err(|e| Failure { sig: "C01:valid-config-rejected".into(), msg: e })?;
    let logger = log4rs::Logger::new(config);
    let mut targets = vec!["zzz".to_string()];
    for j in [0usize, 1, c.loggers / 2, c.loggers.saturating_sub(1)] {
        if j < c.loggers {
            targets.push(format!("m{}::x::y", j));
        }
    }
    for t in &targets {
        with_record(t, log::Level::Info, "s", |r| logger.log(r));
        let got = drain_multiset(&sink);
        let want = cfg.route(t, log::Level::Info);
        obs.sub_evals += 1;
        ensure!(got == want, "C01:misrouted", "configuration with {} appenders and {} loggers: target {:?} delivered {:?}, routing prescribes {:?}", n, c.loggers, t, got, want);
    }
    obs.nontrivial = true;
    obs.class(format!("appenders={}", n));
    Ok(())
}

pub fn run(run: &Run) {
    run.run_replays::<Case>("route", &check);
    if run.worker.0 == 0 {
        for (a, l) in [(255usize, 3usize), (256, 300), (257, 2), (65535, 2), (65536, 3), (65537, 4), (70_000, 70_000 / 7)] {
            run.eval_one("scale", &Scale { appenders: a, loggers: l }, &check_scale);
        }
    }
    if run.worker.0 == 1 % run.worker.1 {
        // sibling loggers whose names a sloppy tree key would conflate (hash collisions, case, normalisation ...)
        for (i, (x, y)) in cfgtree::lookalike_pairs().into_iter().enumerate() {
            let (cfg, targets) = cfgtree::lookalike_cfg(x, y, i % 2 == 1);
            run.eval_one("route", &Case { cfg, perm_loggers: vec![3, 1, 4, 0, 2], perm_appenders: vec![2, 0, 3, 1], targets, failing: vec![], prior_panics: 0, via_root_mut: None }, &check);
        }
    }
    if run.worker.0 == 2 % run.worker.1 {
        // very deep nesting: a logger d components down (its grandparent configured too, its parent implied)
        for d in [64usize, 127, 128, 129, 255, 256, 257, 258, 300, 1000, 4097] {
            let comp = |i: usize| ["a", "b", "ab", "m"][i % 4];
            let path = |k: usize| (0..k).map(comp).collect::<Vec<_>>().join("::");
            let lg = |name: String, level: u8, additive: bool, app: &str| crate::model::route::LLogger { name, level, additive, appenders: vec![app.to_string()] };
            let cfg = LCfg {
                appenders: cfgtree::APPENDERS[..3].iter().map(|s| s.to_string()).collect(),
                root_level: 2,
                root_appenders: vec!["A2".to_string()],
                loggers: vec![lg(path(d), 4, false, "A0"), lg(path(d - 2), 1, true, "A1"), lg(format!("{}::leaf", path(d)), 5, true, "A1")],
            };
            let targets = vec![path(d), format!("{}::x", path(d)), path(d - 1), path(d - 2), format!("{}::leaf", path(d)), format!("{}::leaf::y::z", path(d)), path(d + 1), path(d - 3)];
            run.eval_one("route", &Case { cfg, perm_loggers: vec![2, 0, 1], perm_appenders: vec![1, 2, 0], targets, failing: vec![], prior_panics: 0, via_root_mut: None }, &check);
        }
    }
    if run.worker.0 == 3 % run.worker.1 {
        // families of 2-40 and of 300 siblings below the root, a logger and a deep logger
        for parent in ["", "app", "app::net::x"] {
            for n in (2usize..=40).chain([64, 65, 300]) {
                let (cfg, targets) = cfgtree::sibling_family(parent, n);
                let k = cfg.loggers.len() as u16;
                run.eval_one("route", &Case { cfg, perm_loggers: (0..k).map(|i| (i * 7 + 3) % k.max(1)).collect(), perm_appenders: vec![4, 2, 0, 3, 1], targets, failing: vec![], prior_panics: 0, via_root_mut: None }, &check);
            }
        }
    }
    let n = run.tier.pick(3_000, 200_000);
    run.search("route", n, strategy(), &check);
}

pub fn replay(part: &str, case: serde_json::Value) -> Option<CaseResult> {
    match part {
        "route" => {
            let c: Case = serde_json::from_value(case).ok()?;
            Some(check(&c, &mut Obs::default()))
        }
        "scale" => Some(check_scale(&serde_json::from_value(case).ok()?, &mut Obs::default())),
        _ => None,
    }
}

pub fn meta() -> EvidenceMeta {
    EvidenceMeta {
        level: "exploration",
        rule: "cases = generated configurations (cfgtree: <=8 loggers over the component alphabet {a,b,ab,aa,ba,é}, built with descendant / skipped-level / textual-sibling / leading-'::' biases, 1-5 capture appenders, repeats allowed) x 2-6 targets derived from the configuration x 5 levels, each also under a permuted declaration order; oracle = independent component-wise route() model; Probe records carry the name of a configured logger as their module path (it must not matter); in a quarter of the cases the root level is set through Config::root_mut() after build. Lists reach the builders through a mix of singular and bulk calls; 10% of the cases start after 1-11 caught appender panics on the same thread (through another logger); per case one appender logs a nested record from inside append and the nested record must be routed once per delivery of the outer one. Fixed configurations with loggers 64-4097 components deep, and with families of 2-40, 64, 65 and 300 sibling loggers below the root, a logger and a deep logger. A fixed list of look-alike sibling names (published collisions of FNV-1a 64/32, FNV-1, Java hashCode, djb2, CRC-32; anagrams; names equal after case folding, normalisation, trimming) is routed as well. non-trivial = >=2 loggers and a probe whose effective logger is non-root and reached through an additive=false logger, an implied intermediate or next to a textual-prefix sibling; distinct = FNV hash of the whole case".into(),
        assumptions: vec!["appenders are harness Append implementations; real appenders are covered by C14".into()],
        mutants_caught: vec![],
    }
}
