//! A reference parser of the documented pattern grammar, written from the module documentation
//! (not from the implementation), used as a differential oracle on arbitrary strings:
//!
//! ```text
//! format_string := <text> [ format <text> ] *
//! format        := '{' formatter [ ':' format_spec ] '}'
//! formatter     := [ name ] [ '(' argument ')' ] *
//! argument      := format_string
//! format_spec   := [ [ fill ] align ] [ min_width ] [ '.' max_width ]
//! ```
//! `{{ }} (( )) \{ \} \( \) \\` are escapes; inside an argument the first `)` ends the argument.

use crate::pat::{Align, Kind, Node, Pat, Spec, Zone};

#[derive(Debug, Clone, PartialEq)]
pub enum Parsed {
    /// the whole string is a well-formed pattern
    Ok(Pat),
    /// malformed; the top-level nodes parsed before the first broken item
    Malformed(Pat, String),
    /// the first broken item sits inside an argument of a top-level formatter: whether its marker is
    /// visible depends on the enclosing group (width cuts, debug/release groups that do not render)
    MalformedNested(Pat, String),
    /// the documentation does not settle it (e.g. '.' without digits, an explicit empty MDC default)
    Unsettled(String),
}

struct P {
    cs: Vec<char>,
    i: usize,
}

enum Item {
    Node(Node),
    /// end of the current argument (an unescaped ')')
    CloseParen,
    Err(String),
    NestedErr(String),
    Unsettled(String),
}

const SPECIALS: [char; 5] = ['{', '}', '(', ')', '\\'];

impl P {
    fn peek(&self) -> Option<char> {
        self.cs.get(self.i).copied()
    }
    fn peek2(&self) -> Option<char> {
        self.cs.get(self.i + 1).copied()
    }

    /// Parses a format_string until the end (top level) or until the closing ')' (argument).
    fn format_string(&mut self, in_arg: bool) -> Result<(Pat, bool), (Pat, Item)> {
        let mut out: Pat = vec![];
        let push_text = |out: &mut Pat, c: char| match out.last_mut() {
            Some(Node::Lit { text, .. }) => text.push(c),
            _ => out.push(Node::Lit { text: c.to_string(), esc: 0 }),
        };
        loop {
            let Some(c) = self.peek() else { return Ok((out, false)) };
            match c {
                '\\' => match self.peek2() {
                    Some(n) if SPECIALS.contains(&n) => {
                        self.i += 2;
                        push_text(&mut out, n);
                    }
                    _ => return Err((out, Item::Err("a backslash that escapes nothing".into()))),
                },
                ')' if in_arg => {
                    self.i += 1;
                    return Ok((out, true));
                }
                '{' | '}' | '(' | ')' if self.peek2() == Some(c) && !(c == '{' && false) => {
                    // doubled special character
                    if c == '{' {
                        // "{{" is an escape; a formatter would start with '{' followed by something else
                        self.i += 2;
                        push_text(&mut out, '{');
                    } else {
                        self.i += 2;
                        push_text(&mut out, c);
                    }
                }
                '{' => {
                    self.i += 1;
                    match self.format() {
                        Item::Node(n) => out.push(n),
                        other => return Err((out, other)),
                    }
                }
                '}' | '(' | ')' => return Err((out, Item::Err(format!("unescaped '{}'", c)))),
                c => {
                    self.i += 1;
                    push_text(&mut out, c);
                }
            }
        }
    }

    fn digits(&mut self) -> Option<Result<usize, ()>> {
        let start = self.i;
        while self.peek().map_or(false, |c| c.is_ascii_digit()) {
            self.i += 1;
        }
        if self.i == start {
            return None;
        }
        let s: String = self.cs[start..self.i].iter().collect();
        Some(s.parse::<usize>().map_err(|_| ()))
    }

    /// after '{'
    fn format(&mut self) -> Item {
        // name
        let start = self.i;
        if self.peek().map_or(false, |c| c.is_alphabetic()) {
            self.i += 1;
            while self.peek().map_or(false, |c| c.is_alphanumeric() || c == '_') {
                self.i += 1;
            }
        }
        let name: String = self.cs[start..self.i].iter().collect();
        // arguments
        let mut args: Vec<Pat> = vec![];
        while self.peek() == Some('(') {
            self.i += 1;
            match self.format_string(true) {
                Ok((p, true)) => args.push(p),
                Ok((_, false)) => return Item::Err("unclosed '('".into()),
                Err((_, Item::Unsettled(u))) => return Item::Unsettled(u),
                Err((_, _)) => {
                    // an error inside an argument: the formatter as a whole is broken
                    return Item::NestedErr("error inside an argument".into());
                }
            }
        }
        // spec
        let mut spec: Option<Spec> = None;
        if self.peek() == Some(':') {
            self.i += 1;
            let mut sp = Spec::default();
            if let (Some(f), Some(a)) = (self.peek(), self.peek2()) {
                if a == '<' || a == '>' {
                    sp.fill = Some(f);
                    sp.align = Some(if a == '<' { Align::Left } else { Align::Right });
                    self.i += 2;
                }
            }
            if sp.align.is_none() {
                match self.peek() {
                    Some('<') => {
                        sp.align = Some(Align::Left);
                        self.i += 1;
                    }
                    Some('>') => {
                        sp.align = Some(Align::Right);
                        self.i += 1;
                    }
                    _ => {}
                }
            }
            match self.digits() {
                Some(Ok(n)) => sp.min = Some(n),
                Some(Err(())) => return Item::Err("absurd width".into()),
                None => {}
            }
            if self.peek() == Some('.') {
                self.i += 1;
                match self.digits() {
                    Some(Ok(n)) => sp.max = Some(n),
                    Some(Err(())) => return Item::Err("absurd width".into()),
                    None => return Item::Unsettled("'.' without a maximum width".into()),
                }
            }
            spec = Some(sp);
        }
        if self.peek() != Some('}') {
            return Item::Err("expected '}'".into());
        }
        self.i += 1;
        if let Some(sp) = &spec {
            if let (Some(a), Some(b)) = (sp.min, sp.max) {
                if a > b {
                    return Item::Unsettled("min width above max width".into());
                }
            }
        }
        // meaning of the formatter
        let text_only = |p: &Pat| -> Option<String> {
            let mut s = String::new();
            for n in p {
                match n {
                    Node::Lit { text, .. } => s.push_str(text),
                    _ => return None,
                }
            }
            Some(s)
        };
        let no_args = |k: Kind, args: &Vec<Pat>, spec: Option<Spec>| -> Item {
            if args.is_empty() {
                Item::Node(Node::Fmt { kind: k, long: false, spec })
            } else {
                Item::Err("unexpected arguments".into())
            }
        };
        let one_arg = |mk: fn(Pat) -> Kind, mut args: Vec<Pat>, spec: Option<Spec>| -> Item {
            if args.len() == 1 {
                Item::Node(Node::Fmt { kind: mk(args.pop().unwrap()), long: false, spec })
            } else {
                Item::Err("expected exactly one argument".into())
            }
        };
        match name.as_str() {
            "l" | "level" => no_args(Kind::Level, &args, spec),
            "m" | "message" => no_args(Kind::Message, &args, spec),
            "t" | "target" => no_args(Kind::Target, &args, spec),
            "M" | "module" => no_args(Kind::Module, &args, spec),
            "f" | "file" => no_args(Kind::File, &args, spec),
            "L" | "line" => no_args(Kind::Line, &args, spec),
            "T" | "thread" => no_args(Kind::Thread, &args, spec),
            "I" | "thread_id" => no_args(Kind::ThreadId, &args, spec),
            "P" | "pid" => no_args(Kind::Pid, &args, spec),
            "i" | "tid" => no_args(Kind::Tid, &args, spec),
            "n" => no_args(Kind::Newline, &args, spec),
            "" => one_arg(Kind::Group, args, spec),
            "h" | "highlight" => one_arg(Kind::Highlight, args, spec),
            "D" | "debug" => one_arg(Kind::Debug, args, spec),
            "R" | "release" => one_arg(Kind::Release, args, spec),
            "X" | "mdc" => {
                if args.is_empty() || args.len() > 2 {
                    return Item::Err("mdc takes one or two arguments".into());
                }
                let Some(key) = text_only(&args[0]) else { return Item::Err("formatter inside an MDC key".into()) };
                if key.is_empty() {
                    return Item::Err("empty MDC key".into());
                }
                let default = match args.get(1) {
                    None => None,
                    Some(a) => match text_only(a) {
                        None => return Item::Err("formatter inside an MDC default".into()),
                        Some(d) if d.is_empty() => return Item::Unsettled("explicit empty MDC default".into()),
                        Some(d) => Some(d),
                    },
                };
                Item::Node(Node::Fmt { kind: Kind::Mdc { key, default }, long: false, spec })
            }
            "d" | "date" => {
                if args.len() > 2 {
                    return Item::Err("date takes at most two arguments".into());
                }
                let fmt = match args.first() {
                    None => None,
                    Some(a) => match text_only(a) {
                        None => return Item::Err("formatter inside a date format".into()),
                        Some(f) => Some(f),
                    },
                };
                let zone = match args.get(1) {
                    None => None,
                    Some(a) => match text_only(a).as_deref() {
                        Some("utc") => Some(Zone::Utc),
                        Some("local") => Some(Zone::Local),
                        _ => return Item::Err("invalid time zone".into()),
                    },
                };
                if let Some(f) = &fmt {
                    use std::fmt::Write;
                    if write!(String::new(), "{}", chrono::Utc::now().format(f)).is_err() {
                        return Item::Err("invalid date format".into());
                    }
                }
                Item::Node(Node::Fmt { kind: Kind::Date { fmt, zone }, long: false, spec })
            }
            _ => Item::Err(format!("unknown formatter {:?}", name)),
        }
    }
}

pub fn parse(s: &str) -> Parsed {
    let mut p = P { cs: s.chars().collect(), i: 0 };
    match p.format_string(false) {
        Ok((pat, _)) => Parsed::Ok(pat),
        Err((_, Item::Unsettled(u))) => Parsed::Unsettled(u),
        Err((prefix, Item::Err(e))) => Parsed::Malformed(prefix, e),
        Err((prefix, Item::NestedErr(e))) => Parsed::MalformedNested(prefix, e),
        Err((prefix, _)) => Parsed::Malformed(prefix, "malformed".into()),
    }
}

/// true when the pattern contains a date node whose output depends on sub-second time
/// Does a strftime format mention a field finer than a second (in any padding variant)?
pub fn subsecond_format(f: &str) -> bool {
    let b = f.as_bytes();
    let mut i = 0;
    while i < b.len() {
        if b[i] == b'%' {
            let mut j = i + 1;
            if j < b.len() && matches!(b[j], b'-' | b'_' | b'0') {
                j += 1;
            }
            match b.get(j) {
                Some(b'f') | Some(b'+') | Some(b'.') | Some(b'c') | Some(b'N') => return true,
                Some(b'3') | Some(b'6') | Some(b'9') if b.get(j + 1) == Some(&b'f') => return true,
                Some(b'%') => {
                    i = j + 1;
                    continue;
                }
                _ => {}
            }
            i = j + 1;
        } else {
            i += 1;
        }
    }
    false
}

pub fn has_subsecond_date(p: &[Node]) -> bool {
    p.iter().any(|n| match n {
        Node::Fmt { kind: Kind::Date { fmt, .. }, .. } => fmt.as_ref().map_or(true, |f| subsecond_format(f)),
        Node::Fmt { kind: Kind::Group(c) | Kind::Highlight(c) | Kind::Debug(c) | Kind::Release(c), .. } => has_subsecond_date(c),
        _ => false,
    })
}
