//! C04 — file appender: acknowledged records are visible, whole, ordered, not interleaved.

use crate::engine::*;
use crate::ensure;
use crate::roll::*;
use log4rs::append::file::FileAppender;
use log4rs::append::Append;
use log4rs::encode::Encode;
use proptest::prelude::*;
use serde::{Deserialize, Serialize};
use std::collections::BTreeSet;
use std::path::Path;
use std::sync::atomic::{AtomicBool, AtomicU32, AtomicUsize, Ordering};
use std::sync::Arc;
use std::time::{Duration, Instant};

#[derive(Serialize, Deserialize, Debug, Clone)]
pub struct Phase {
    /// per thread: payload lengths
    pub threads: Vec<Vec<usize>>,
    /// records (thread, index) whose encoder parks between two chunks until another thread is about to append
    pub park: Vec<(u8, u8)>,
    /// start stagger per thread in units of 50 microseconds
    pub stagger: Vec<u8>,
}

#[derive(Serialize, Deserialize, Debug, Clone)]
pub struct Case {
    /// 0 none, 1 random bytes, 2 earlier records
    pub pre_kind: u8,
    pub pre_len: usize,
    pub append_mode: bool,
    pub chunks: Option<Vec<usize>>,
    pub singles: Vec<usize>,
    pub phase: Option<Phase>,
    pub singles_after: Vec<usize>,
    /// false: the encoder's output does not end in a line break (the statement speaks of whole records, not of lines)
    #[serde(default = "yes")]
    pub terminated: bool,
    /// a second append-mode appender on the same path (old and new configuration during a reload, two
    /// appenders sharing a file): the single-threaded appends alternate between the two
    #[serde(default)]
    pub twin: bool,
    /// before the single append of this index, an append whose message argument panics while being formatted unwinds
    /// out of the appender (the caller catches it); appends acknowledged afterwards are held to the same promise
    #[serde(default)]
    pub panicking_arg_at: Option<u8>,
    /// before the single append of this index, a record is appended whose message argument, while being formatted,
    /// logs a record of its own through ANOTHER file appender (different file) on the same thread: both must land
    #[serde(default)]
    pub nested_at: Option<u8>,
    /// before the single append of this index, another file appender (different file) fails in the middle of
    /// encoding a record: nothing of that may show up in this appender's file
    #[serde(default)]
    pub side_failure_at: Option<u8>,
    /// the appender is built by the `file` deserializer from a configuration document (path, append, encoder
    /// pattern) instead of the builder; only with the plain `{m}` encoder
    #[serde(default)]
    pub via_config: bool,
    /// before the single append of this index, an append through THIS appender whose encoder fails after writing the
    /// first k bytes of the record (index, k): the call must report the error, and everything acknowledged before stays
    /// in the file, whole and in order (only with the plain `{m}` encoder built through the builder)
    #[serde(default)]
    pub own_failure_at: Option<(u8, u8)>,
    /// before the single append of this index the log file is rotated away by somebody else (renamed; then 0: nothing,
    /// 1: an empty file, 2: a file with a header line is put in its place) and a NEW appender is built on the path
    /// while the old one is still alive: what the new appender acknowledges must be readable at the path
    #[serde(default)]
    pub external_rotate_at: Option<(u8, u8)>,
    /// before the single append of this index ANOTHER appender is built on the path in truncate mode (and dropped again,
    /// or kept open, without writing): the file is emptied - truncate mode "discards it at open time" - and what this
    /// (append-mode) appender acknowledges afterwards is in the file at the path all the same
    #[serde(default)]
    pub truncating_twin_at: Option<(u8, bool)>,
    /// the builder is told the opposite mode first and the wanted one afterwards (`.append(!m).append(m)`): the last
    /// word counts
    #[serde(default)]
    pub mode_said_twice: bool,
}

/// `{m}` unless told to fail: then the first k bytes of the message are written and an error is returned.
#[derive(Debug)]
struct SwitchFailEncoder {
    fail_next: Arc<std::sync::Mutex<Option<usize>>>,
}

impl Encode for SwitchFailEncoder {
    fn encode(&self, w: &mut dyn log4rs::encode::Write, record: &log::Record) -> anyhow::Result<()> {
        let msg = format!("{}", record.args());
        match self.fail_next.lock().unwrap().take() {
            Some(k) => {
                let mut k = k.min(msg.len());
                while !msg.is_char_boundary(k) {
                    k -= 1;
                }
                w.write_all(&msg.as_bytes()[..k])?;
                anyhow::bail!("verif: scripted encoder failure after {} bytes", k)
            }
            None => {
                w.write_all(msg.as_bytes())?;
                Ok(())
            }
        }
    }
}

struct NestingArg<'a> {
    side: &'a FileAppender,
    side_text: &'a str,
    own: &'a str,
}

impl<'a> std::fmt::Display for NestingArg<'a> {
    fn fmt(&self, f: &mut std::fmt::Formatter) -> std::fmt::Result {
        append_msg(self.side, self.side_text).map_err(|_| std::fmt::Error)?;
        f.write_str(self.own)
    }
}

struct PanickingArg;

impl std::fmt::Display for PanickingArg {
    fn fmt(&self, _: &mut std::fmt::Formatter) -> std::fmt::Result {
        panic!("Display impl of a log argument panics")
    }
}

fn yes() -> bool {
    true
}

fn len_strategy() -> impl Strategy<Value = usize> {
    prop_oneof![
        2 => Just(0usize),
        6 => 1usize..100,
        3 => prop::sample::select(vec![1023usize - HEADER_LEN, 1024 - HEADER_LEN, 1025 - HEADER_LEN, 2048 - HEADER_LEN, 3073 - HEADER_LEN]),
        2 => 1000usize..3200,
        // around typical buffer sizes (8 KiB, 16 KiB, 64 KiB)
        1 => prop::sample::select(vec![8191usize - HEADER_LEN, 8192 - HEADER_LEN, 8193 - HEADER_LEN, 8192, 16385, 65535 - HEADER_LEN, 65536, 65537, 70_000]),
    ]
}

pub fn strategy() -> impl Strategy<Value = Case> {
    let phase = (
        prop::collection::vec(prop::collection::vec(len_strategy(), 1..=30), 2..=8),
        prop::collection::vec((0u8..8, 0u8..30), 0..=6),
        prop::collection::vec(0u8..4, 8),
    )
        .prop_map(|(threads, park, stagger)| Phase { threads, park, stagger });
    (
        0u8..3,
        prop_oneof![Just(0usize), 1usize..50, 1000usize..1100],
        prop::bool::weighted(0.7),
        prop::option::weighted(0.6, prop::collection::vec(prop_oneof![1usize..8, 300usize..1100], 1..=5)),
        prop::collection::vec(len_strategy(), 0..=8),
        prop::option::weighted(0.5, phase),
        prop::collection::vec(len_strategy(), 0..=3),
        prop::bool::weighted(0.7),
        (prop::bool::weighted(0.25), prop::option::weighted(0.25, 0u8..8), prop::option::weighted(0.2, 0u8..8), prop::option::weighted(0.2, 0u8..8), prop::bool::weighted(0.3)),
        (prop::option::weighted(0.3, (0u8..8, prop_oneof![Just(0u8), 1u8..40])), prop::option::weighted(0.25, (0u8..8, 0u8..3)), prop::option::weighted(0.2, (0u8..8, prop::bool::ANY)), prop::bool::weighted(0.3)),
    )
        .prop_map(|(pre_kind, pre_len, append_mode, chunks, singles, phase, singles_after, terminated, (twin, panicking_arg_at, nested_at, side_failure_at, via_config), (own_failure_at, external_rotate_at, truncating_twin_at, mode_said_twice))| Case { truncating_twin_at, mode_said_twice, pre_kind, pre_len, append_mode, via_config: via_config && chunks.is_none(), chunks, singles, phase, singles_after, terminated, twin: twin && append_mode, panicking_arg_at, nested_at, side_failure_at, own_failure_at, external_rotate_at })
}

/// Multi-chunk encoder which can park *inside* the appender's critical section.
#[derive(Debug)]
struct ParkEncoder {
    chunks: Vec<usize>,
    about: Arc<AtomicUsize>,
    park: Arc<BTreeSet<(u16, u32)>>,
    parked: Arc<AtomicUsize>,
}

impl Encode for ParkEncoder {
    fn encode(&self, w: &mut dyn log4rs::encode::Write, record: &log::Record) -> anyhow::Result<()> {
        let msg = format!("{}", record.args());
        let b = msg.as_bytes();
        let id = if b.len() >= 13 {
            let tid = u16::from_str_radix(&msg[1..5], 16).unwrap_or(0);
            let seq = u32::from_str_radix(&msg[5..13], 16).unwrap_or(0);
            Some((tid, seq))
        } else {
            None
        };
        let mut i = 0;
        let mut k = 0;
        while i < b.len() {
            let n = if self.chunks.is_empty() { b.len() } else { self.chunks[k % self.chunks.len()].max(1) };
            let j = (i + n).min(b.len());
            w.write_all(&b[i..j])?;
            if k == 0 && j < b.len() && id.map_or(false, |x| self.park.contains(&x)) {
                // wait until some other thread announces that it is about to call append (or 2 ms)
                let start = self.about.load(Ordering::SeqCst);
                let t0 = Instant::now();
                while self.about.load(Ordering::SeqCst) == start && t0.elapsed() < Duration::from_millis(2) {
                    std::thread::yield_now();
                }
                // give the other thread time to reach the lock
                std::thread::sleep(Duration::from_micros(150));
                self.parked.fetch_add(1, Ordering::SeqCst);
            }
            i = j;
            k += 1;
        }
        Ok(())
    }
}

pub fn check(tmp: &Path, case: &Case, obs: &mut Obs) -> CaseResult {
    let dir = scratch(tmp, "c04");
    let r = check_in(&dir, case, obs);
    let _ = std::fs::remove_dir_all(&dir);
    r
}

fn check_in(dir: &Path, case: &Case, obs: &mut Obs) -> CaseResult {
    let path = dir.join("sub/file.log");
    std::fs::create_dir_all(dir.join("sub")).unwrap();
    let pre: Vec<u8> = match case.pre_kind % 3 {
        0 => vec![],
        1 => (0..case.pre_len).map(|i| (i * 37 % 251) as u8).collect(),
        _ => {
            let mut v = vec![];
            let mut s = 0;
            while v.len() < case.pre_len {
                v.extend_from_slice(record_text(0xEEEE, s, 10).as_bytes());
                s += 1;
            }
            v
        }
    };
    if case.pre_kind % 3 != 0 {
        std::fs::write(&path, &pre).unwrap();
    }
    let about = Arc::new(AtomicUsize::new(0));
    let parked = Arc::new(AtomicUsize::new(0));
    let park_set: BTreeSet<(u16, u32)> = case.phase.as_ref().map(|p| p.park.iter().map(|(t, r)| (*t as u16 + 1, *r as u32)).collect()).unwrap_or_default();
    let fail_next: Arc<std::sync::Mutex<Option<usize>>> = Arc::new(std::sync::Mutex::new(None));
    let can_fail = case.chunks.is_none() && !case.via_config && case.phase.is_none() && !case.twin; // with a twin the unflushed bytes would surface after records written through the other appender
    let build_app = |append_mode: bool| -> Result<Box<dyn Append>, Failure> {
        let encoder: Box<dyn Encode> = match &case.chunks {
            None if can_fail => Box::new(SwitchFailEncoder { fail_next: fail_next.clone() }),
            None => make_encoder(&None),
            Some(c) => Box::new(ParkEncoder { chunks: c.clone(), about: about.clone(), park: Arc::new(park_set.clone()), parked: parked.clone() }),
        };
        Ok(if case.via_config && case.chunks.is_none() {
            // what a configuration file with `kind: file`, `append: ..` and an `encoder:` section produces
            let mut enc = std::collections::BTreeMap::new();
            enc.insert(serde_value::Value::String("pattern".into()), serde_value::Value::String("{m}".into()));
            let mut m = std::collections::BTreeMap::new();
            m.insert(serde_value::Value::String("path".into()), serde_value::Value::String(path.display().to_string()));
            m.insert(serde_value::Value::String("append".into()), serde_value::Value::Bool(append_mode));
            m.insert(serde_value::Value::String("encoder".into()), serde_value::Value::Map(enc));
            log4rs::config::Deserializers::default().deserialize::<dyn Append>("file", serde_value::Value::Map(m)).map_err(|e| Failure { sig: "C04:build".into(), msg: e.to_string() })?
        } else {
            let b = if case.mode_said_twice { FileAppender::builder().append(!append_mode).append(append_mode) } else { FileAppender::builder().append(append_mode) };
            Box::new(b.encoder(encoder).build(&path).map_err(|e| Failure { sig: "C04:build".into(), msg: e.to_string() })?)
        })
    };
    let mut app: Box<dyn Append> = build_app(case.append_mode)?;
    // open mode: append keeps everything, truncate has discarded it exactly once, at open
    let mut expected: Vec<u8> = if case.append_mode { pre.clone() } else { vec![] };
    let at_open = std::fs::read(&path).unwrap_or_default();
    ensure!(at_open == expected, "C04:open-mode", "right after build (append={}): file holds {} bytes, expected {} (pre-existing {})", case.append_mode, at_open.len(), expected.len(), pre.len());
    let terminated = case.terminated;
    let rec_text = move |tid: u16, seq: u32, len: usize| if terminated { record_text(tid, seq, len) } else { record_text_unterminated(tid, seq, len) };
    let mut seq = 0u32;
    let mut big = false;
    // the twin opens the same path in append mode as well (after the first appender, like a reloaded configuration)
    let build_twin = || -> Result<Option<FileAppender>, Failure> {
        Ok(if case.twin {
            Some(FileAppender::builder().append(true).encoder(make_encoder(&case.chunks.as_ref().map(|c| c.clone()))).build(&path).map_err(|e| Failure { sig: "C04:build".into(), msg: e.to_string() })?)
        } else {
            None
        })
    };
    let mut twin_app = build_twin()?;
    // bytes of a record whose encoder failed half-way (never acknowledged): position in `expected` and the bytes the
    // encoder had written; any prefix of them may show up at that position (they sit in a buffer or went to the file)
    let mut junk: Option<(usize, Vec<u8>)> = None;
    fn matches(got: &[u8], expected: &[u8], junk: &Option<(usize, Vec<u8>)>) -> bool {
        match junk {
            None => got == expected,
            Some((pos, j)) => (0..=j.len()).any(|n| got.len() == expected.len() + n && got[..*pos] == expected[..*pos] && got[*pos..*pos + n] == j[..n] && got[*pos + n..] == expected[*pos..]),
        }
    }
    let single = |app: &dyn Append, twin_app: &Option<FileAppender>, junk: &Option<(usize, Vec<u8>)>, len: usize, seq: &mut u32, expected: &mut Vec<u8>, obs: &mut Obs| -> CaseResult {
        let text = rec_text(0, *seq, len);
        *seq += 1;
        let through_twin = twin_app.is_some() && *seq % 2 == 0;
        match catch(|| if through_twin { append_msg(twin_app.as_ref().unwrap(), &text) } else { append_msg(app, &text) }) {
            Err(p) => return fail("C04:panic", format!("append panicked: {}", p)),
            Ok(Err(e)) => return fail("C04:append-error", format!("append returned an error: {}", e)),
            Ok(Ok(())) => {}
        }
        obs.sub_evals += 1;
        expected.extend_from_slice(text.as_bytes());
        // a fresh handle = "any other reader"
        let got = std::fs::read(&path).unwrap_or_default();
        ensure!(
            matches(&got, expected, junk),
            if got.len() < expected.len() { "C04:not-visible" } else { "C04:content" },
            "after an acknowledged append of {} bytes the file read through a fresh handle holds {} bytes, expected {} (pre-existing ++ all acknowledged records{})", text.len(), got.len(), expected.len(),
            if junk.is_some() { "; an earlier record whose encoder failed half-way may have left the bytes it had written" } else { "" }
        );
        Ok(())
    };
    let mut retired: Vec<Box<dyn Append>> = vec![];
    let mut retired_twins: Vec<FileAppender> = vec![];
    let mut own_failed = false;
    let mut rotated_away = false;
    let mut unwound = false;
    let mut nested = false;
    let mut side_failed = false;
    for (si, len) in case.singles.iter().enumerate() {
        if case.panicking_arg_at.map(|k| k as usize % case.singles.len()) == Some(si) {
            let r = catch(|| app.append(&log::Record::builder().args(format_args!("{}", PanickingArg)).level(log::Level::Info).target("t").build()));
            ensure!(r.is_err(), "C04:harness", "the panicking argument did not panic");
            let got = std::fs::read(&path).unwrap_or_default();
            ensure!(matches(&got, &expected, &junk), "C04:content", "an append that unwound before producing a byte changed the file: {} bytes, expected {}", got.len(), expected.len());
            unwound = true;
        }
        if case.side_failure_at.map(|k| k as usize % case.singles.len()) == Some(si) {
            let side_path = dir.join("sub/side-failing.log");
            let side = FileAppender::builder()
                .encoder(Box::new(FailingEncoder { fail: vec![Some(7)], calls: AtomicUsize::new(0) }))
                .build(&side_path)
                .map_err(|e| Failure { sig: "C04:build".into(), msg: e.to_string() })?;
            let r = catch(|| append_msg(&side, "<<fragment of a record of another appender>>"));
            ensure!(matches!(r, Ok(Err(_))), "C04:harness", "the failing encoder of the other appender did not fail: {:?}", r.map(|x| x.map_err(|e| e.to_string())));
            drop(side);
            side_failed = true;
        }
        if case.nested_at.map(|k| k as usize % case.singles.len()) == Some(si) {
            let side_path = dir.join("sub/side-nested.log");
            let side = FileAppender::builder().encoder(make_encoder(&None)).build(&side_path).map_err(|e| Failure { sig: "C04:build".into(), msg: e.to_string() })?;
            let side_text = rec_text(0x5151, seq, 12);
            let own = rec_text(0, seq, 9);
            seq += 1;
            let r = catch(|| app.append(&log::Record::builder().args(format_args!("{}", NestingArg { side: &side, side_text: &side_text, own: &own })).level(log::Level::Info).target("t").build()));
            match r {
                Err(p) => return fail("C04:panic", format!("an append whose argument logs through another file appender panicked: {}", p)),
                Ok(Err(e)) => return fail("C04:append-error", format!("an append whose argument logs through another file appender failed: {}", e)),
                Ok(Ok(())) => {}
            }
            expected.extend_from_slice(own.as_bytes());
            let got = std::fs::read(&path).unwrap_or_default();
            ensure!(matches(&got, &expected, &junk), if got.len() < expected.len() { "C04:not-visible" } else { "C04:content" }, "after an append whose argument logged through another appender the file holds {} bytes, expected {}", got.len(), expected.len());
            let got_side = std::fs::read(&side_path).unwrap_or_default();
            ensure!(
                got_side == side_text.as_bytes(),
                if got_side.len() < side_text.len() { "C04:not-visible" } else { "C04:content" },
                "the record appended (successfully) through the other file appender while this one was formatting is not in its file: {} bytes, expected {}", got_side.len(), side_text.len()
            );
            nested = true;
        }
        if let Some((k, kind)) = case.external_rotate_at {
            if k as usize % case.singles.len() == si {
                // somebody else rotates the log file away; the old appender stays alive, a new one is built on the path
                let moved = dir.join(format!("sub/file.log.moved-{}", si));
                if path.exists() {
                    std::fs::rename(&path, &moved).map_err(|e| Failure { sig: "C04:harness".into(), msg: format!("rename: {}", e) })?;
                }
                let header = b"# header written by whoever rotated the file\n".to_vec();
                match kind % 3 {
                    0 => {}
                    1 => std::fs::write(&path, b"").unwrap(),
                    _ => std::fs::write(&path, &header).unwrap(),
                }
                let new_app = build_app(case.append_mode)?;
                retired.push(std::mem::replace(&mut app, new_app));
                if let Some(t) = twin_app.take() {
                    retired_twins.push(t);
                }
                twin_app = build_twin()?;
                expected = if kind % 3 == 2 && case.append_mode { header } else { vec![] };
                junk = None;
                let got = std::fs::read(&path).unwrap_or_default();
                ensure!(got == expected, "C04:open-mode", "a new appender (append={}) built on the path after the file was rotated away by somebody else: the file holds {} bytes, expected {}", case.append_mode, got.len(), expected.len());
                rotated_away = true;
            }
        }
        if let (true, Some((k, keep_open))) = (case.append_mode && !case.twin && case.chunks.is_none(), case.truncating_twin_at) {
            if k as usize % case.singles.len() == si && junk.is_none() {
                let other = FileAppender::builder().append(false).encoder(make_encoder(&None)).build(&path).map_err(|e| Failure { sig: "C04:build".into(), msg: e.to_string() })?;
                expected = vec![];
                let got = std::fs::read(&path).unwrap_or_default();
                ensure!(got.is_empty(), "C04:open-mode", "another appender was built on the path in truncate mode: the file still holds {} bytes", got.len());
                if keep_open {
                    retired.push(Box::new(other));
                } else {
                    drop(other);
                }
                obs.class("another-appender-truncated-the-file-meanwhile");
            }
        }
        if let (true, Some((k, part))) = (can_fail, case.own_failure_at) {
            if k as usize % case.singles.len() == si && junk.is_none() {
                let text = rec_text(0x0F0F, seq, 30);
                *fail_next.lock().unwrap() = Some(part as usize);
                let r = catch(|| append_msg(&*app, &text));
                *fail_next.lock().unwrap() = None;
                match r {
                    Err(p) => return fail("C04:panic", format!("an append whose encoder fails panicked: {}", p)),
                    Ok(Ok(())) => return fail("C04:error-swallowed", "an append whose encoder returned an error after writing part of the record was acknowledged".to_string()),
                    Ok(Err(_)) => {}
                }
                junk = Some((expected.len(), text.as_bytes()[..(part as usize).min(text.len())].to_vec()));
                let got = std::fs::read(&path).unwrap_or_default();
                ensure!(
                    matches(&got, &expected, &junk),
                    if got.len() < expected.len() { "C04:not-visible" } else { "C04:content" },
                    "after an append that failed in its encoder ({} bytes written before the error) the file holds {} bytes; the {} bytes acknowledged before must still be there, whole and in order (append={})", part, got.len(), expected.len(), case.append_mode
                );
                own_failed = true;
            }
        }
        big |= record_size(*len) > 1024;
        single(&*app, &twin_app, &junk, *len, &mut seq, &mut expected, obs)?;
    }
    drop(retired);
    drop(retired_twins);
    let mut parked_records = 0;
    if let Some(ph) = &case.phase {
        let app = Arc::new(app);
        let published: Arc<Vec<AtomicU32>> = Arc::new((0..ph.threads.len()).map(|_| AtomicU32::new(0)).collect());
        let done = Arc::new(AtomicBool::new(false));
        let base_len = expected.len();
        // reader: every record a writer has finished appending is already in the file
        let reader = {
            let (published, done, path) = (published.clone(), done.clone(), path.clone());
            let nthreads = ph.threads.len();
            std::thread::spawn(move || -> Result<u64, String> {
                let mut samples = 0;
                loop {
                    let finished = done.load(Ordering::SeqCst);
                    let pubs: Vec<u32> = (0..nthreads).map(|t| published[t].load(Ordering::SeqCst)).collect();
                    let bytes = std::fs::read(&path).unwrap_or_default();
                    let tail = &bytes[base_len.min(bytes.len())..];
                    // whole records as far as they go (a record in flight may be partially flushed at the end)
                    let mut recs = vec![];
                    let mut i = 0;
                    while i < tail.len() {
                        // parse one record
                        if tail.len() - i < HEADER_LEN - 1 {
                            break;
                        }
                        let Ok(h) = std::str::from_utf8(&tail[i + 13..i + 21]) else { return Err(format!("garbage at offset {} during the concurrent phase", i)) };
                        let Ok(len) = usize::from_str_radix(h, 16) else { return Err(format!("garbage header at offset {} during the concurrent phase", i)) };
                        let end = i + HEADER_LEN + len - if terminated { 0 } else { 1 };
                        if end > tail.len() {
                            break;
                        }
                        match parse_stream_with(&tail[i..end], terminated) {
                            Ok(mut r) => recs.append(&mut r),
                            Err(_) => return Err(format!("a corrupted/interleaved record at offset {} was visible during the concurrent phase", i)),
                        }
                        i = end;
                    }
                    for (t, p) in pubs.iter().enumerate() {
                        for s in 0..*p {
                            if !recs.iter().any(|r| r.tid == t as u16 + 1 && r.seq == s) {
                                return Err(format!("thread {} finished appending seq {} but a reader does not see it", t + 1, s));
                            }
                        }
                    }
                    samples += 1;
                    if finished {
                        return Ok(samples);
                    }
                    std::thread::sleep(Duration::from_micros(100));
                }
            })
        };
        let mut handles = vec![];
        for (ti, lens) in ph.threads.iter().enumerate() {
            let (app, lens, about, published) = (app.clone(), lens.clone(), about.clone(), published.clone());
            let stagger = ph.stagger.get(ti).copied().unwrap_or(0);
            handles.push(std::thread::spawn(move || -> Result<(), String> {
                std::thread::sleep(Duration::from_micros(50 * stagger as u64));
                for (s, l) in lens.iter().enumerate() {
                    about.fetch_add(1, Ordering::SeqCst);
                    append_msg(&**app, &rec_text(ti as u16 + 1, s as u32, *l)).map_err(|e| e.to_string())?;
                    published[ti].store(s as u32 + 1, Ordering::SeqCst);
                }
                Ok(())
            }));
        }
        let mut err = None;
        for h in handles {
            match h.join() {
                Ok(Ok(())) => {}
                Ok(Err(e)) => err = Some(Failure { sig: "C04:append-error".into(), msg: format!("append failed in the concurrent phase: {}", e) }),
                Err(_) => err = Some(Failure { sig: "C04:panic".into(), msg: "a writer thread panicked".into() }),
            }
        }
        done.store(true, Ordering::SeqCst);
        let reader_result = reader.join();
        if let Some(e) = err {
            return Err(e);
        }
        match reader_result {
            Ok(Ok(n)) => obs.sub_evals += n,
            Ok(Err(e)) => return fail("C04:not-visible-concurrent", e),
            Err(_) => return fail("C04:harness-panic", "reader thread panicked"),
        }
        let bytes = std::fs::read(&path).unwrap_or_default();
        ensure!(bytes.len() >= base_len && bytes[..base_len] == expected[..], "C04:content", "the content written before the concurrent phase changed");
        let tail = &bytes[base_len..];
        let recs = parse_stream_with(tail, terminated).map_err(|off| Failure { sig: "C04:interleaved".into(), msg: format!("after joining {} writer threads the file is not a concatenation of whole records: first bad offset {} of {} (records were interleaved, truncated or corrupted)", ph.threads.len(), off, tail.len()) })?;
        let mut want: Vec<RecId> = vec![];
        for (ti, lens) in ph.threads.iter().enumerate() {
            for (s, l) in lens.iter().enumerate() {
                want.push(RecId { tid: ti as u16 + 1, seq: s as u32, len: *l });
                big |= record_size(*l) > 1024;
            }
        }
        let mut got = recs.clone();
        got.sort();
        want.sort();
        ensure!(got == want, "C04:lost-or-duplicated", "concurrent phase: {} records in the file, {} acknowledged (lost or duplicated)", got.len(), want.len());
        for t in 1..=ph.threads.len() as u16 {
            let seqs: Vec<u32> = recs.iter().filter(|r| r.tid == t).map(|r| r.seq).collect();
            ensure!(seqs.windows(2).all(|w| w[0] < w[1]), "C04:thread-order", "records of thread {} are not in the order that thread wrote them: {:?}", t, seqs);
        }
        parked_records = parked.load(Ordering::SeqCst);
        expected = bytes;
        // single-threaded appends after the phase, through the same appender
        let app = Arc::try_unwrap(app).map_err(|_| Failure { sig: "C04:harness".into(), msg: "appender still shared".into() })?;
        for len in &case.singles_after {
            let text = rec_text(0, seq, *len);
            seq += 1;
            append_msg(&*app, &text).map_err(|e| Failure { sig: "C04:append-error".into(), msg: e.to_string() })?;
            expected.extend_from_slice(text.as_bytes());
            let got = std::fs::read(&path).unwrap_or_default();
            ensure!(got == expected, "C04:content", "after the concurrent phase a single append left {} bytes, expected {}", got.len(), expected.len());
        }
    }
    obs.nontrivial = big && (parked_records > 0 || (case.append_mode && !pre.is_empty()));
    obs.class_if(big, "record>1KiB");
    obs.class_if(parked_records > 0, "parked-inside-critical-section");
    obs.class_if(case.phase.is_some(), "concurrent-phase");
    obs.class_if(!pre.is_empty() && case.append_mode, "pre-existing-kept");
    obs.class_if(!pre.is_empty() && !case.append_mode, "pre-existing-truncated");
    obs.class_if(case.chunks.is_some(), "multi-chunk-encoder");
    obs.class_if(!case.terminated, "records-without-trailing-newline");
    obs.class_if(case.twin, "two-append-mode-appenders-on-one-path");
    obs.class_if(unwound, "append-unwound-by-panicking-argument-earlier");
    obs.class_if(nested, "argument-logs-through-another-file-appender");
    obs.class_if(side_failed, "another-appender-failed-mid-record-earlier");
    obs.class_if(own_failed, "own-encoder-failed-mid-record-earlier");
    obs.class_if(case.mode_said_twice && !case.via_config, "builder-told-the-open-mode-twice");
    obs.class_if(rotated_away, "file-rotated-away-by-somebody-else+new-appender");
    Ok(())
}

/// One file appender kept open for a very long time: `records` short records; the file is inspected after every
/// 4099th append and at the end (an exact check after every one of them would be quadratic).
#[derive(Serialize, Deserialize, Debug, Clone)]
pub struct LongLife {
    pub records: u32,
    pub len: usize,
}

pub fn check_long(tmp: &Path, c: &LongLife, obs: &mut Obs) -> CaseResult {
    let dir = scratch(tmp, "c04l");
    let r = (|| -> CaseResult {
        let path = dir.join("long.log");
        let app = FileAppender::builder().encoder(make_encoder(&None)).build(&path).map_err(|e| Failure { sig: "C04:build".into(), msg: e.to_string() })?;
        let mut expected_len = 0u64;
        for i in 0..c.records {
            let text = record_text(0, i, c.len);
            match catch(|| append_msg(&app, &text)) {
                Err(p) => return fail("C04:panic", format!("append #{} panicked: {}", i, p)),
                Ok(Err(e)) => return fail("C04:append-error", format!("append #{} failed: {}", i, e)),
                Ok(Ok(())) => {}
            }
            expected_len += text.len() as u64;
            let on_disk = std::fs::metadata(&path).map(|m| m.len()).unwrap_or(0);
            ensure!(on_disk == expected_len, if on_disk < expected_len { "C04:not-visible" } else { "C04:content" }, "after acknowledged append #{} of {} through one open appender the file has {} bytes, expected {}", i, c.records, on_disk, expected_len);
            if i % 4099 == 0 || i + 1 == c.records {
                let bytes = std::fs::read(&path).unwrap_or_default();
                let recs = parse_stream(&bytes).map_err(|off| Failure { sig: "C04:interleaved".into(), msg: format!("after append #{}: the file is not a concatenation of whole records (offset {})", i, off) })?;
                ensure!(recs.len() as u32 == i + 1 && recs.iter().enumerate().all(|(k, r)| r.seq == k as u32), "C04:lost-or-duplicated", "after append #{}: {} records in the file", i, recs.len());
                obs.sub_evals += 1;
            }
        }
        obs.nontrivial = true;
        obs.class("one-open-file-for-more-than-65536-records");
        Ok(())
    })();
    let _ = std::fs::remove_dir_all(&dir);
    r
}

/// The appender is given a RELATIVE path and the process changes its working directory afterwards (a daemon that
/// does its chdir once logging is set up): the log file is the one the path named when the appender was built, and
/// every record acknowledged later belongs there as well - not in a new file under the new working directory.
#[derive(Serialize, Deserialize, Debug, Clone)]
pub struct Relative {
    pub before: u8,
    pub after: u8,
    pub append_mode: bool,
    pub rolling: bool,
    /// 0: "rel.log", 1: "logs/rel.log", 2: "./logs/../rel.log"
    pub form: u8,
    /// the new working directory has (1) / has not (0) a sub-directory `logs`; (2) it holds a file of the same relative name
    pub new_cwd: u8,
    pub pre_existing: bool,
}

pub fn relative_strategy() -> impl Strategy<Value = Relative> {
    (0u8..4, 1u8..5, prop::bool::ANY, prop::bool::ANY, 0u8..3, 0u8..3, prop::bool::ANY)
        .prop_map(|(before, after, append_mode, rolling, form, new_cwd, pre_existing)| Relative { before, after, append_mode, rolling, form, new_cwd, pre_existing })
}

pub fn check_relative(tmp: &Path, c: &Relative, obs: &mut Obs) -> CaseResult {
    let dir = scratch(tmp, "c04r");
    let r = (|| -> CaseResult {
        let (a, b) = (dir.join("cwd-a"), dir.join("cwd-b"));
        std::fs::create_dir_all(a.join("logs")).unwrap();
        std::fs::create_dir_all(&b).unwrap();
        let (rel, real) = match c.form % 3 {
            0 => ("rel.log", a.join("rel.log")),
            1 => ("logs/rel.log", a.join("logs/rel.log")),
            _ => ("./logs/../rel.log", a.join("rel.log")),
        };
        let mut expected: Vec<u8> = vec![];
        if c.pre_existing {
            let old = record_text(7, 0, 9);
            std::fs::write(&real, old.as_bytes()).unwrap();
            if c.append_mode {
                expected.extend_from_slice(old.as_bytes());
            }
        }
        let other_text = b"somebody else's file\n".to_vec();
        if c.new_cwd % 3 >= 1 {
            std::fs::create_dir_all(b.join("logs")).unwrap();
        }
        if c.new_cwd % 3 == 2 {
            std::fs::write(b.join(rel), &other_text).unwrap();
        }
        let snap_b = crate::fsx::snap(&b);
        std::env::set_current_dir(&a).map_err(|e| Failure { sig: "C04:harness".into(), msg: e.to_string() })?;
        let build = || -> Result<Box<dyn Append>, String> {
            if c.rolling {
                use log4rs::append::rolling_file::policy::compound::{roll::delete::DeleteRoller, trigger::size::SizeTrigger, CompoundPolicy};
                let policy = CompoundPolicy::new(Box::new(SizeTrigger::new(1 << 40)), Box::new(DeleteRoller::new()));
                log4rs::append::rolling_file::RollingFileAppender::builder().append(c.append_mode).encoder(make_encoder(&None)).build(rel, Box::new(policy)).map(|x| Box::new(x) as Box<dyn Append>).map_err(|e| e.to_string())
            } else {
                FileAppender::builder().append(c.append_mode).encoder(make_encoder(&None)).build(rel).map(|x| Box::new(x) as Box<dyn Append>).map_err(|e| e.to_string())
            }
        };
        let app = build().map_err(|e| Failure { sig: "C04:build".into(), msg: e })?;
        let mut seq = 0u32;
        let mut step = |app: &dyn Append, expected: &mut Vec<u8>, what: &str| -> CaseResult {
            let text = record_text(0, seq, 6 + seq as usize % 5);
            seq += 1;
            match catch(|| append_msg(app, &text)) {
                Err(p) => return fail("C04:panic", format!("append {} panicked: {}", what, p)),
                Ok(Err(e)) => return fail("C04:append-error", format!("append {} failed: {}", what, e)),
                Ok(Ok(())) => {}
            }
            expected.extend_from_slice(text.as_bytes());
            let got = std::fs::read(&real).unwrap_or_default();
            ensure!(got == *expected, if got.len() < expected.len() { "C04:not-visible" } else { "C04:content" }, "appender built on the relative path {:?} in {}: after the acknowledged append {} the log file holds {} bytes, expected {}", rel, a.display(), what, got.len(), expected.len());
            Ok(())
        };
        for i in 0..c.before {
            step(&*app, &mut expected, &format!("#{} (before the working directory changes)", i))?;
        }
        std::env::set_current_dir(&b).map_err(|e| Failure { sig: "C04:harness".into(), msg: e.to_string() })?;
        for i in 0..c.after {
            step(&*app, &mut expected, &format!("#{} after the working directory changed", i))?;
        }
        app.flush();
        drop(app);
        let _ = std::env::set_current_dir("/");
        ensure!(crate::fsx::snap(&b) == snap_b, "C04:stray-file", "appending through an appender built on a relative path changed the NEW working directory {}", b.display());
        obs.sub_evals += (c.before + c.after) as u64;
        obs.nontrivial = true;
        obs.class(if c.rolling { "relative-path:rolling" } else { "relative-path:file" });
        Ok(())
    })();
    let _ = std::env::set_current_dir("/");
    let _ = std::fs::remove_dir_all(&dir);
    r
}

/// The log "file" is /dev/full: every write the kernel sees fails with ENOSPC. Whatever buffering sits in between, an
/// append that returns Ok has put its record where a reader finds it - so here no append may return Ok.
#[derive(Serialize, Deserialize, Debug, Clone)]
pub struct FullDevice {
    pub lens: Vec<usize>,
    pub append_mode: bool,
    pub rolling: bool,
    /// (rolling) the size limit is 10 bytes, so that every record is one that would fire the trigger - the failure of
    /// the record's own flush comes first all the same
    #[serde(default)]
    pub small_limit: bool,
}

pub fn full_strategy() -> impl Strategy<Value = FullDevice> {
    (prop::collection::vec(prop_oneof![0usize..40, 900usize..1200, 3000usize..3100], 1..=6), prop::bool::ANY, prop::bool::ANY, prop::bool::ANY).prop_map(|(lens, append_mode, rolling, small_limit)| FullDevice { lens, append_mode, rolling, small_limit })
}

pub fn check_full(tmp: &Path, c: &FullDevice, obs: &mut Obs) -> CaseResult {
    if !crate::fsx::full_device_ok() {
        obs.class("no-/dev/full(skipped)");
        return Ok(());
    }
    let dir = scratch(tmp, "c04f");
    // (through a symbolic link: whatever the appender does to the NAME it was given, the device node stays)
    let link = dir.join("log-on-a-full-device.log");
    std::os::unix::fs::symlink("/dev/full", &link).unwrap();
    let dev = link.as_path();
    let app: Box<dyn Append> = if c.rolling {
        let policy = make_policy(&dir, &TrigSpec::Size(if c.small_limit { 10 } else { 1 << 40 }), &RollSpec::Delete).unwrap();
        match build_appender(dev, c.append_mode, &None, policy) {
            Ok(a) => Box::new(a),
            Err(_) => {
                let _ = std::fs::remove_dir_all(&dir);
                obs.class("open-refused(fine)");
                return Ok(());
            }
        }
    } else {
        match FileAppender::builder().append(c.append_mode).encoder(make_encoder(&None)).build(dev) {
            Ok(a) => Box::new(a),
            Err(_) => {
                let _ = std::fs::remove_dir_all(&dir);
                obs.class("open-refused(fine)");
                return Ok(());
            }
        }
    };
    let mut r = Ok(());
    for (i, len) in c.lens.iter().enumerate() {
        match catch(|| append_msg(&*app, &record_text(0, i as u32, *len))) {
            Err(p) => {
                r = fail("C04:panic", format!("append to a full device panicked: {}", p));
                break;
            }
            Ok(Ok(())) => {
                r = fail("C04:error-swallowed", format!("append #{} ({} bytes) to {} on /dev/full returned Ok: the record cannot have been stored (every write fails with ENOSPC), so the failure of the flush was swallowed", i, record_size(*len), if c.rolling { "a rolling file appender" } else { "a file appender" }));
                break;
            }
            Ok(Err(_)) => {}
        }
        obs.sub_evals += 1;
    }
    let _ = std::fs::remove_dir_all(&dir);
    obs.nontrivial = true;
    obs.class(if c.rolling && c.small_limit { "full-device:rolling_file(every record fires the trigger)" } else if c.rolling { "full-device:rolling_file" } else { "full-device:file" });
    r
}

/// Records of a mebibyte and more, produced in several write calls (a pattern with text before the message, or an
/// encoder writing 64 KiB pieces): whatever staging happens in between, the file holds each record once, whole.
#[derive(Serialize, Deserialize, Debug, Clone)]
pub struct Giant {
    pub len: usize,
    /// None: PatternEncoder "{l} {t} - {m}{n}"-style (literal text and formatters around the message); Some: piece sizes
    pub chunks: Option<Vec<usize>>,
    pub rolling: bool,
}

pub fn check_giant(tmp: &Path, c: &Giant, obs: &mut Obs) -> CaseResult {
    let dir = scratch(tmp, "c04g");
    let r = (|| -> CaseResult {
        let path = dir.join("giant.log");
        let enc: Box<dyn Encode> = match &c.chunks {
            Some(ch) => Box::new(ChunkEncoder { chunks: ch.clone() }),
            None => Box::new(log4rs::encode::pattern::PatternEncoder::new("{l} {t} - {m}|{l}{n}")),
        };
        let app: Box<dyn Append> = if c.rolling {
            let policy = make_policy(&dir, &TrigSpec::Size(1 << 40), &RollSpec::Delete).unwrap();
            Box::new(log4rs::append::rolling_file::RollingFileAppender::builder().encoder(enc).build(&path, policy).map_err(|e| Failure { sig: "C04:build".into(), msg: e.to_string() })?)
        } else {
            Box::new(FileAppender::builder().encoder(enc).build(&path).map_err(|e| Failure { sig: "C04:build".into(), msg: e.to_string() })?)
        };
        let mut expected: Vec<u8> = vec![];
        for (i, len) in [40usize, c.len, 17, c.len / 2 + 3].iter().enumerate() {
            let msg = record_text(9, i as u32, *len);
            match catch(|| append_msg(&*app, &msg)) {
                Err(p) => return fail("C04:panic", format!("append of a {} byte record panicked: {}", msg.len(), p)),
                Ok(Err(e)) => return fail("C04:append-error", format!("append of a {} byte record failed: {}", msg.len(), e)),
                Ok(Ok(())) => {}
            }
            match &c.chunks {
                Some(_) => expected.extend_from_slice(msg.as_bytes()),
                None => expected.extend_from_slice(format!("INFO t - {}|INFO\n", msg).as_bytes()),
            }
            let got = std::fs::read(&path).unwrap_or_default();
            obs.sub_evals += 1;
            ensure!(
                got == expected,
                if got.len() < expected.len() { "C04:not-visible" } else { "C04:content" },
                "after an acknowledged append of a record of {} bytes ({}) the file holds {} bytes, expected {}{}", msg.len(), if c.chunks.is_some() { "written in pieces" } else { "pattern with text around the message" }, got.len(), expected.len(),
                if got.len() > expected.len() { " (part of the record was written twice)" } else { "" }
            );
        }
        obs.nontrivial = true;
        obs.class("record-of-a-mebibyte-and-more");
        Ok(())
    })();
    let _ = std::fs::remove_dir_all(&dir);
    r
}

// ---- appending while the thread is being torn down ---------------------------------------------------------------------

/// A per-thread guard that logs a farewell from its destructor: by then other thread-locals of the thread may be gone.
/// What such an append acknowledges is in the file like any other record. (Child process: a panic inside a thread-local
/// destructor aborts.)
#[derive(Serialize, Deserialize, Debug, Clone)]
pub struct Teardown {
    pub dir: String,
    pub rolling: bool,
}

static TEARDOWN_APP: std::sync::Mutex<Option<Arc<dyn Append>>> = std::sync::Mutex::new(None);
static TEARDOWN_RESULTS: std::sync::Mutex<Vec<(String, bool)>> = std::sync::Mutex::new(Vec::new());

struct Farewell(&'static str);

impl Drop for Farewell {
    fn drop(&mut self) {
        let app = TEARDOWN_APP.lock().unwrap().clone();
        if let Some(app) = app {
            let text = record_text(0x7E7E, self.0.len() as u32, 11);
            let ok = append_msg(&*app, &text).is_ok();
            TEARDOWN_RESULTS.lock().unwrap().push((text, ok));
        }
    }
}

thread_local! {
    static FAREWELL_EARLY: Farewell = Farewell("early");
    static FAREWELL_LATE: Farewell = Farewell("registered-late");
}

pub fn teardown_child(c: &Teardown, obs: &mut Obs) -> CaseResult {
    let path = Path::new(&c.dir).join("teardown.log");
    let app: Arc<dyn Append> = if c.rolling {
        let policy = make_policy(Path::new(&c.dir), &TrigSpec::Size(1 << 40), &RollSpec::Delete).unwrap();
        Arc::new(build_appender(&path, true, &None, policy).map_err(|e| Failure { sig: "C04:build".into(), msg: e.to_string() })?)
    } else {
        Arc::new(FileAppender::builder().encoder(make_encoder(&None)).build(&path).map_err(|e| Failure { sig: "C04:build".into(), msg: e.to_string() })?)
    };
    *TEARDOWN_APP.lock().unwrap() = Some(app.clone());
    let a2 = app.clone();
    let h = std::thread::Builder::new().name("worker".into()).spawn(move || -> Result<Vec<u8>, String> {
        // one guard before the thread's first append, one after it: whichever way destructors are ordered, one of the
        // farewells is written after the appender's own per-thread state (if it keeps any) is gone
        FAREWELL_EARLY.with(|_| {});
        let mut expected = vec![];
        for i in 0..3u32 {
            let text = record_text(1, i, 20 + i as usize);
            append_msg(&*a2, &text).map_err(|e| e.to_string())?;
            expected.extend_from_slice(text.as_bytes());
        }
        FAREWELL_LATE.with(|_| {});
        Ok(expected)
    });
    let mut expected = match h.unwrap().join() {
        Ok(Ok(e)) => e,
        Ok(Err(e)) => return fail("C04:append-error", e),
        Err(_) => return fail("C04:panic", "the worker thread ended with a panic"),
    };
    let farewells = TEARDOWN_RESULTS.lock().unwrap().clone();
    ensure!(farewells.len() == 2, "C04:harness", "{} farewells instead of 2", farewells.len());
    for (text, ok) in &farewells {
        ensure!(*ok, "C04:append-error", "an append from a thread-local destructor at thread exit returned an error");
        expected.extend_from_slice(text.as_bytes());
    }
    // (the appender is still alive: nothing has been dropped or flushed on anybody's behalf)
    let got = std::fs::read(&path).unwrap_or_default();
    obs.sub_evals += 1;
    ensure!(
        got == expected,
        if got.len() < expected.len() { "C04:not-visible" } else { "C04:content" },
        "three records during a thread's life and two acknowledged from thread-local destructors at its exit: the file holds {} bytes, expected {} ({})", got.len(), expected.len(), if c.rolling { "rolling file appender" } else { "file appender" }
    );
    obs.nontrivial = true;
    obs.class("append-from-a-thread-local-destructor");
    Ok(())
}

pub fn check_teardown(tmp: &Path, rolling: bool, obs: &mut Obs) -> CaseResult {
    let dir = scratch(tmp, "c04t");
    let out = crate::child::call_child(tmp, "c04tls", &Teardown { dir: dir.display().to_string(), rolling }, &[], Duration::from_secs(60));
    let _ = std::fs::remove_dir_all(&dir);
    crate::child::absorb(out, obs)
}

pub fn run(run: &Run) {
    let tmp = run.tmp.clone();
    let t9 = tmp.clone();
    let full = move |c: &FullDevice, o: &mut Obs| check_full(&t9, c, o);
    run.run_replays::<FullDevice>("full-device", &full);
    run.search("full-device", run.tier.pick(20, 500), full_strategy(), &full);
    if run.worker.0 == 1 % run.worker.1 {
        let t = tmp.clone();
        run.eval_one("long-life", &LongLife { records: 70_000, len: 6 }, &move |c: &LongLife, o: &mut Obs| check_long(&t, c, o));
    }
    if run.worker.0 == 3 % run.worker.1 {
        for rolling in [false, true] {
            let t = tmp.clone();
            run.eval_one("thread-exit", &rolling, &move |r: &bool, o: &mut Obs| check_teardown(&t, *r, o));
        }
    }
    if run.worker.0 == 2 % run.worker.1 {
        for (i, len) in [(1usize << 20) - 60, (1 << 20) + 1, (1 << 20) + 70_000, 3 << 20].into_iter().enumerate() {
            for chunks in [None, Some(vec![13usize, 65_536]), Some(vec![1 << 19, 5, 1 << 19])] {
                let t = tmp.clone();
                run.eval_one("giant", &Giant { len, chunks, rolling: i % 2 == 1 }, &move |c: &Giant, o: &mut Obs| check_giant(&t, c, o));
            }
        }
    }
    let t8 = tmp.clone();
    let relf = move |c: &Relative, o: &mut Obs| check_relative(&t8, c, o);
    run.run_replays::<Relative>("relative-path", &relf);
    run.search("relative-path", run.tier.pick(60, 2_000), relative_strategy(), &relf);
    let f = move |c: &Case, o: &mut Obs| check(&tmp, c, o);
    run.run_replays::<Case>("file", &f);
    run.search("file", run.tier.pick(600, 20_000), strategy(), &f);
}

pub fn replay(part: &str, case: serde_json::Value) -> Option<CaseResult> {
    match part {
        "file" => {
            let tmp = std::env::temp_dir().join(format!("lv-replay-{}", std::process::id()));
            std::fs::create_dir_all(&tmp).ok()?;
            let r = check(&tmp, &serde_json::from_value(case).ok()?, &mut Obs::default());
            let _ = std::fs::remove_dir_all(&tmp);
            Some(r)
        }
        "relative-path" => {
            let tmp = std::env::temp_dir().join(format!("lv-replay-{}", std::process::id()));
            std::fs::create_dir_all(&tmp).ok()?;
            let r = check_relative(&tmp, &serde_json::from_value(case).ok()?, &mut Obs::default());
            let _ = std::fs::remove_dir_all(&tmp);
            Some(r)
        }
        "full-device" => {
            let tmp = std::env::temp_dir().join(format!("lv-replay-{}", std::process::id()));
            std::fs::create_dir_all(&tmp).ok()?;
            let r = check_full(&tmp, &serde_json::from_value(case).ok()?, &mut Obs::default());
            let _ = std::fs::remove_dir_all(&tmp);
            Some(r)
        }
        "thread-exit" => {
            let tmp = std::env::temp_dir().join(format!("lv-replay-{}", std::process::id()));
            std::fs::create_dir_all(&tmp).ok()?;
            let r = check_teardown(&tmp, case.as_bool().unwrap_or(false), &mut Obs::default());
            let _ = std::fs::remove_dir_all(&tmp);
            Some(r)
        }
        "giant" => {
            let tmp = std::env::temp_dir().join(format!("lv-replay-{}", std::process::id()));
            std::fs::create_dir_all(&tmp).ok()?;
            let r = check_giant(&tmp, &serde_json::from_value(case).ok()?, &mut Obs::default());
            let _ = std::fs::remove_dir_all(&tmp);
            Some(r)
        }
        "long-life" => {
            let tmp = std::env::temp_dir().join(format!("lv-replay-{}", std::process::id()));
            std::fs::create_dir_all(&tmp).ok()?;
            let r = check_long(&tmp, &serde_json::from_value(case).ok()?, &mut Obs::default());
            let _ = std::fs::remove_dir_all(&tmp);
            Some(r)
        }
        _ => None,
    }
}

pub fn meta() -> EvidenceMeta {
    EvidenceMeta {
        level: "exploration",
        rule: "cases = pre-existing content (none / random bytes / earlier records, 0-1100 bytes) x append or truncate mode x encoder (pattern {m} or a multi-chunk harness encoder writing each record in 1-N write calls crossing the 1 KiB buffer) x 0-8 single-threaded appends (payload 0-3 KiB, sizes around 1023/1024/1025/2048/3073) checked through a fresh file handle after every call x an optional concurrent phase of 2-8 threads x 1-30 records with generated start stagger, during which designated records park INSIDE the appender's critical section (between two chunks) until another thread announces it is about to append, while a reader thread samples the file and checks that every record a writer has finished is visible, x appends after the phase; oracle: file == pre-existing (append) or empty (truncate, checked right after build) ++ concatenation of all acknowledged records; after joining: the tail parses into whole uncorrupted records, multiset equals the acknowledged records, per-thread order kept. Part full-device: file and rolling file appenders on /dev/full (every write fails with ENOSPC): no append may return Ok. The appender may be built by the file deserializer (path, append, encoder pattern) instead of the builder. Part thread-exit (child process): a thread appends three records, then two more from thread-local destructors at its exit (one registered before its first append, one after): all five are in the file. Part giant: records of 1-3 MiB written in several pieces (pattern with text around the message; encoders writing 13 B / 64 KiB / 512 KiB pieces) through file and rolling file appenders, content exact after every append. Part long-life: 70 000 short records through one open appender, size checked after every append, content every 4099th. Optional events before a single append: an append that unwinds (panicking Display argument), an append whose argument logs through another file appender (both records must land), another file appender failing in the middle of a record (nothing of it may appear here); record sizes include the neighbourhood of 8/16/64 KiB. non-trivial = a record > 1 KiB and (a record parked inside the critical section, or non-empty pre-existing content in append mode)".into(),
        assumptions: vec!["OS scheduler not controlled: interleavings are amplified (parking inside the critical section, stagger, volume), a failing case replays with the same pressure but not the same OS interleaving".into()],
        mutants_caught: vec![],
    }
}
