//! C13 — config building accepts exactly well-formed configs; lossy keeps the valid part.

use crate::engine::*;
use crate::ensure;
use crate::glue::*;
use crate::model::route::{LCfg, LLogger, LEVELS, LEVEL_FILTERS};
use log::Log;
use log4rs::config::runtime::ConfigError;
use log4rs::config::{Appender, Config, Logger as CLogger, Root};
use proptest::prelude::*;
use serde::{Deserialize, Serialize};
use std::collections::BTreeMap;

#[derive(Serialize, Deserialize, Debug, Clone)]
pub struct RawLogger {
    pub name: String,
    pub level: u8,
    pub additive: bool,
    pub refs: Vec<String>,
}

#[derive(Serialize, Deserialize, Debug, Clone)]
pub struct Case {
    pub appenders: Vec<String>,
    pub root_level: u8,
    pub root_refs: Vec<String>,
    pub loggers: Vec<RawLogger>,
    pub targets: Vec<String>,
}

#[derive(PartialEq, Debug, Clone, Copy)]
pub enum Validity {
    Valid,
    Invalid,
    /// the statement does not settle it (a colon run of even length >= 4): either outcome is accepted
    Unsettled,
}

/// Well-formed per the statement: non-empty, colons only in pairs, none trailing.
pub fn name_validity(n: &str) -> Validity {
    if n.is_empty() {
        return Validity::Invalid;
    }
    let cs: Vec<char> = n.chars().collect();
    if *cs.last().unwrap() == ':' {
        return Validity::Invalid;
    }
    let mut unsettled = false;
    let mut i = 0;
    while i < cs.len() {
        if cs[i] == ':' {
            let mut j = i;
            while j < cs.len() && cs[j] == ':' {
                j += 1;
            }
            let run = j - i;
            if run % 2 == 1 {
                return Validity::Invalid;
            }
            if run > 2 {
                unsettled = true;
            }
            i = j;
        } else {
            i += 1;
        }
    }
    if unsettled {
        Validity::Unsettled
    } else {
        Validity::Valid
    }
}

// (an appender may be called anything, including the empty string)
const POOL: [&str; 6] = ["A0", "A1", "A2", "A3", "", " "];
const BIG_POOL: [&str; 16] = ["A0", "A1", "A2", "A3", "B0", "B1", "B2", "B3", "C0", "C1", "C2", "C3", "D0", "D1", "D2", "D3"];
const REFS: [&str; 8] = ["A0", "A1", "A2", "A3", "nope", "ghost", "", " "];

fn name_strategy() -> impl Strategy<Value = String> {
    prop_oneof![
        4 => prop::collection::vec(prop::sample::select(vec!['a', 'b', ':', ':']), 0..=8).prop_map(|v| v.into_iter().collect::<String>()),
        4 => prop::collection::vec(prop::sample::select(vec!["a", "b", "ab", "é", "::", "::", ":", "::::", "\u{43a}", "\u{13a}", "\u{a73a}\u{23a}", "я\u{43a}о"]), 1..=5).prop_map(|v| v.concat()),
        3 => prop::collection::vec(prop::sample::select(vec!["a", "b", "ab", "aa"]), 1..=3).prop_map(|v| v.join("::")),
    ]
}

pub fn strategy() -> impl Strategy<Value = Case> {
    let refs = || prop::collection::vec(prop::sample::select(REFS.to_vec()).prop_map(|s| s.to_string()), 0..=3);
    (
        prop_oneof![
            5 => prop::collection::vec(prop::sample::select(POOL.to_vec()).prop_map(|s| s.to_string()), 0..=6),
            1 => prop::collection::vec(prop::sample::select(BIG_POOL.to_vec()).prop_map(|s| s.to_string()), 18..=70),
        ],
        0u8..6,
        refs(),
        prop::collection::vec((name_strategy(), 0u8..6, prop::bool::weighted(0.7), refs(), prop::option::weighted(0.3, any::<u16>())), 0..=6),
        prop::collection::vec((0u8..12, any::<u16>(), any::<u16>()), 2..=3),
    )
        .prop_map(|(appenders, root_level, root_refs, ls, rt)| {
            let mut loggers: Vec<RawLogger> = vec![];
            for (name, level, additive, refs, dup) in ls {
                // duplicates of an earlier name (with different content) are likely
                let name = match dup {
                    Some(i) if !loggers.is_empty() => pick(&loggers, i).name.clone(),
                    _ => name,
                };
                loggers.push(RawLogger { name, level, additive, refs });
            }
            let mut case = Case { appenders, root_level, root_refs, loggers, targets: vec![] };
            let (valid, _) = reference(&case, true);
            case.targets = rt.iter().map(|(k, l, e)| crate::gen::cfgtree::resolve_target(&valid, *k, *l, *e)).collect();
            case
        })
}

/// The valid part of the input (first occurrence wins, dangling references stripped, original order).
/// `keep_unsettled` decides what happens to names the statement does not settle.
pub fn reference(case: &Case, keep_unsettled: bool) -> (LCfg, Vec<usize>) {
    let mut apps: Vec<String> = vec![];
    for a in &case.appenders {
        if !apps.contains(a) {
            apps.push(a.clone());
        }
    }
    let strip = |r: &Vec<String>| -> Vec<String> { r.iter().filter(|x| apps.contains(x)).cloned().collect() };
    let mut loggers: Vec<LLogger> = vec![];
    let mut kept_idx = vec![];
    let mut seen: Vec<String> = vec![];
    for (i, l) in case.loggers.iter().enumerate() {
        if seen.contains(&l.name) {
            continue;
        }
        seen.push(l.name.clone());
        match name_validity(&l.name) {
            Validity::Invalid => continue,
            Validity::Unsettled if !keep_unsettled => continue,
            _ => {}
        }
        loggers.push(LLogger { name: l.name.clone(), level: l.level, additive: l.additive, appenders: strip(&l.refs) });
        kept_idx.push(i);
    }
    (LCfg { appenders: apps.clone(), root_level: case.root_level, root_appenders: strip(&case.root_refs), loggers }, kept_idx)
}

fn builder(case: &Case, sink: &Sink) -> (log4rs::config::runtime::ConfigBuilder, Root) {
    use log4rs::config::runtime::{ConfigBuilder, LoggerBuilder};
    // every public route to the same builders, and every mix of singular and bulk calls (a pure function of the case)
    let style = fnv64(format!("{:?}|{:?}|{}", case.appenders, case.root_refs, case.loggers.len()).as_bytes());
    let mut b = if style & (1 << 60) == 0 { Config::builder() } else { ConfigBuilder::default() };
    let mut occ: BTreeMap<String, usize> = BTreeMap::new();
    let mut apps = vec![];
    for a in &case.appenders {
        let k = occ.entry(a.clone()).or_insert(0);
        apps.push(Appender::builder().build(a.clone(), Box::new(Cap { name: format!("{}#{}", a, k), sink: sink.clone(), fail: false })));
        *k += 1;
    }
    for (mut run, single) in runs_by_style(apps, style) {
        b = if single { b.appender(run.pop().unwrap()) } else { b.appenders(run) };
    }
    let mut loggers = vec![];
    for (li, l) in case.loggers.iter().enumerate() {
        let ls = style.rotate_left(li as u32 * 5 + 3);
        let mut lb = if ls & (1 << 61) == 0 { CLogger::builder() } else { LoggerBuilder::default() };
        for (run, single) in runs_by_style(l.refs.clone(), ls) {
            lb = if single { lb.appender(run[0].clone()) } else { lb.appenders(run) };
        }
        loggers.push(lb.additive(l.additive).build(l.name.clone(), LEVEL_FILTERS[l.level as usize % 6]));
    }
    for (mut run, single) in runs_by_style(loggers, style.rotate_left(17)) {
        b = if single { b.logger(run.pop().unwrap()) } else { b.loggers(run) };
    }
    let mut rb = Root::builder();
    for (run, single) in runs_by_style(case.root_refs.clone(), style.rotate_left(29)) {
        rb = if single { rb.appender(run[0].clone()) } else { rb.appenders(run) };
    }
    (b, rb.build(LEVEL_FILTERS[case.root_level as usize % 6]))
}

fn observed(config: &Config) -> LCfg {
    LCfg {
        appenders: config.appenders().iter().map(|a| a.name().to_string()).collect(),
        root_level: LEVEL_FILTERS.iter().position(|l| *l == config.root().level()).unwrap() as u8,
        root_appenders: config.root().appenders().to_vec(),
        loggers: config
            .loggers()
            .iter()
            .map(|l| LLogger {
                name: l.name().to_string(),
                level: LEVEL_FILTERS.iter().position(|x| *x == l.level()).unwrap() as u8,
                additive: l.additive(),
                appenders: l.appenders().to_vec(),
            })
            .collect(),
    }
}

fn check_errors(case: &Case, errors: &[ConfigError]) -> CaseResult {
    let count = |v: &Vec<String>, n: &str| v.iter().filter(|x| *x == n).count();
    let logger_names: Vec<String> = case.loggers.iter().map(|l| l.name.clone()).collect();
    let declared = |r: &str| case.appenders.iter().any(|a| a == r);
    let mut dup_app: BTreeMap<String, usize> = BTreeMap::new();
    let mut dup_log: BTreeMap<String, usize> = BTreeMap::new();
    for e in errors {
        match e {
            ConfigError::DuplicateAppenderName(n) => {
                let c = dup_app.entry(n.clone()).or_insert(0);
                *c += 1;
                ensure!(count(&case.appenders, n) > *c, "C13:innocent-named", "DuplicateAppenderName({:?}) reported {} time(s) but the name occurs {} time(s)", n, c, count(&case.appenders, n));
            }
            ConfigError::DuplicateLoggerName(n) => {
                let c = dup_log.entry(n.clone()).or_insert(0);
                *c += 1;
                ensure!(count(&logger_names, n) > *c, "C13:innocent-named", "DuplicateLoggerName({:?}) reported {} time(s) but the name occurs {} time(s)", n, c, count(&logger_names, n));
            }
            ConfigError::InvalidLoggerName(n) => {
                ensure!(
                    logger_names.contains(n) && name_validity(n) != Validity::Valid,
                    "C13:innocent-named",
                    "InvalidLoggerName({:?}) reported but that is {}", n, if logger_names.contains(n) { "a well-formed name" } else { "not a logger of the input" }
                );
            }
            ConfigError::NonexistentAppender(r) => {
                let referenced = case.root_refs.contains(r) || case.loggers.iter().any(|l| l.refs.contains(r));
                ensure!(referenced && !declared(r), "C13:innocent-named", "NonexistentAppender({:?}) reported but that reference {}", r, if declared(r) { "exists" } else { "does not occur" });
            }
            other => return fail("C13:unknown-error", format!("unexpected error kind {:?}", other)),
        }
    }
    // every offending top-level item is covered
    for a in &case.appenders {
        let n = count(&case.appenders, a);
        if n > 1 {
            ensure!(dup_app.get(a).copied().unwrap_or(0) == n - 1, "C13:offence-not-reported", "appender name {:?} occurs {} times but {} duplicate error(s) were reported", a, n, dup_app.get(a).copied().unwrap_or(0));
        }
    }
    for r in &case.root_refs {
        if !declared(r) {
            ensure!(errors.iter().any(|e| matches!(e, ConfigError::NonexistentAppender(x) if x == r)), "C13:offence-not-reported", "root references nonexistent appender {:?}: not reported", r);
        }
    }
    let mut seen: Vec<&str> = vec![];
    for l in &case.loggers {
        let dup = seen.contains(&l.name.as_str());
        seen.push(&l.name);
        let invalid = name_validity(&l.name) == Validity::Invalid;
        let dangling: Vec<&String> = l.refs.iter().filter(|r| !declared(r)).collect();
        if !(dup || invalid || !dangling.is_empty()) {
            continue;
        }
        let covered = errors.iter().any(|e| match e {
            ConfigError::DuplicateLoggerName(n) => dup && *n == l.name,
            ConfigError::InvalidLoggerName(n) => *n == l.name,
            ConfigError::NonexistentAppender(r) => dangling.contains(&r),
            _ => false,
        });
        ensure!(covered, "C13:offence-not-reported", "offending logger {:?} (duplicate={}, invalid={}, dangling={:?}) is not named by any error: {:?}", l.name, dup, invalid, dangling, errors);
    }
    Ok(())
}

fn install_and_probe(config: Config, valid: &LCfg, sink: &Sink, targets: &[String], what: &str) -> CaseResult {
    let logger = match catch(|| log4rs::Logger::new(config)) {
        Ok(l) => l,
        Err(p) => return fail("C13:panic:install", format!("installing the {} configuration panicked: {}", what, p)),
    };
    for t in targets {
        for level in LEVELS.iter() {
            sink.lock().unwrap().clear();
            if let Err(p) = catch(|| with_record(t, *level, "p", |r| logger.log(r))) {
                return fail("C13:panic:log", format!("logging {:?} through the {} configuration panicked: {}", t, what, p));
            }
            let mut got: BTreeMap<String, usize> = BTreeMap::new();
            for (a, _) in sink.lock().unwrap().drain(..) {
                let (name, occ) = a.rsplit_once('#').unwrap();
                ensure!(occ == "0", "C13:wrong-duplicate-kept", "a later duplicate of appender {:?} (occurrence {}) received a record: first occurrence must win", name, occ);
                *got.entry(name.to_string()).or_insert(0) += 1;
            }
            if valid.effective(t) != valid.effective_textual(t) {
                continue;
            }
            let want = valid.route(t, *level);
            ensure!(got == want, "C13:misrouted", "{} configuration: target {:?} level {:?} delivered {:?}, valid part prescribes {:?}", what, t, level, got, want);
        }
    }
    Ok(())
}

pub fn check(case: &Case, obs: &mut Obs) -> CaseResult {
    let (valid_keep, _) = reference(case, true);
    let (valid_drop, _) = reference(case, false);
    let unsettled = valid_keep != valid_drop;
    // offences
    let mut kinds = 0;
    let dup_app = case.appenders.iter().enumerate().any(|(i, a)| case.appenders[..i].contains(a));
    let dup_log = case.loggers.iter().enumerate().any(|(i, l)| case.loggers[..i].iter().any(|m| m.name == l.name));
    let invalid = case.loggers.iter().any(|l| name_validity(&l.name) == Validity::Invalid);
    let declared = |r: &String| case.appenders.contains(r);
    let dangling = case.root_refs.iter().any(|r| !declared(r)) || case.loggers.iter().any(|l| l.refs.iter().any(|r| !declared(r)));
    for b in [dup_app, dup_log, invalid, dangling] {
        if b {
            kinds += 1;
        }
    }
    let any_offence = kinds > 0;

    // strict
    let sink = new_sink();
    let (b, root) = builder(case, &sink);
    match catch(|| b.build(root)) {
        Err(p) => return fail("C13:panic:build", format!("build panicked: {}", p)),
        Ok(Ok(config)) => {
            ensure!(!any_offence, "C13:strict-accepted-malformed", "build() succeeded although the input has offences (dup appender {}, dup logger {}, invalid name {}, dangling {}): {:?}", dup_app, dup_log, invalid, dangling, case);
            let seen = observed(&config);
            ensure!(seen == valid_keep || seen == valid_drop, "C13:strict-config-differs", "build() returned {:?}, input is {:?}", seen, valid_keep);
            let v = if seen == valid_keep { &valid_keep } else { &valid_drop };
            install_and_probe(config, v, &sink, &case.targets, "strict")?;
        }
        Ok(Err(errs)) => {
            ensure!(any_offence || unsettled, "C13:strict-rejected-wellformed", "build() failed with {:?} although the input is well-formed: {:?}", errs.errors(), case);
            ensure!(!errs.errors().is_empty(), "C13:empty-errors", "build() failed without naming an error");
            check_errors(case, errs.errors())?;
        }
    }
    // lossy
    let sink = new_sink();
    let (b, root) = builder(case, &sink);
    match catch(|| b.build_lossy(root)) {
        Err(p) => return fail("C13:panic:build", format!("build_lossy panicked: {}", p)),
        Ok((config, errs)) => {
            let seen = observed(&config);
            ensure!(
                seen == valid_keep || seen == valid_drop,
                "C13:lossy-config-differs",
                "build_lossy returned {:?}; the valid part of the input is {:?}", seen, valid_keep
            );
            ensure!(errs.is_empty() == !(any_offence || (unsettled && seen == valid_drop)), "C13:lossy-errors", "build_lossy reported {:?} for an input with offences={}", errs.errors(), any_offence);
            check_errors(case, errs.errors())?;
            let v = if seen == valid_keep { &valid_keep } else { &valid_drop };
            install_and_probe(config, v, &sink, &case.targets, "lossy")?;
        }
    }
    let long_invalid = case.loggers.iter().any(|l| name_validity(&l.name) == Validity::Invalid && l.name.chars().count() >= 3 && l.name.contains("::"));
    let differing_dup = case.loggers.iter().enumerate().any(|(i, l)| {
        case.loggers[..i].iter().any(|m| m.name == l.name && (m.level != l.level || m.refs != l.refs || m.additive != l.additive))
    });
    obs.nontrivial = kinds >= 2 || long_invalid || differing_dup;
    obs.class(format!("offence-kinds={}", kinds));
    obs.class_if(dup_app, "duplicate-appender");
    obs.class_if(dup_log, "duplicate-logger");
    obs.class_if(invalid, "invalid-name");
    obs.class_if(dangling, "dangling-reference");
    obs.class_if(unsettled, "unsettled-name(colon run >= 4)");
    obs.class_if(case.loggers.iter().any(|l| l.name.starts_with("::") && name_validity(&l.name) == Validity::Valid), "leading-double-colon");
    Ok(())
}

fn sweep(run: &Run) {
    if run.worker.0 != 0 {
        return;
    }
    let alphabet = ['a', 'b', ':'];
    let mut names: Vec<String> = vec![String::new()];
    let mut frontier = vec![String::new()];
    for _ in 0..7 {
        let mut next = vec![];
        for f in &frontier {
            for c in alphabet {
                next.push(format!("{}{}", f, c));
            }
        }
        names.extend(next.iter().cloned());
        frontier = next;
    }
    let mut ok = true;
    for n in &names {
        let case = Case {
            appenders: vec!["A0".into()],
            root_level: 2,
            root_refs: vec!["A0".into()],
            loggers: vec![RawLogger { name: n.clone(), level: 4, additive: true, refs: vec!["A0".into()] }],
            targets: vec![n.clone(), format!("{}::x", n), "a".into()],
        };
        ok &= run.eval_one("names-exhaustive", &case, &check);
    }
    if ok {
        run.exhaustive(format!("all {} logger names over {{a,b,:}} of length <= 7, each as the only logger", names.len()));
    }
    // longer names (8-72 characters, multi-byte ones too): one colon run of length 1, 2 or 3 at every position, and two
    // runs a word apart - a name check that looks at the name in blocks must not lose a run at a block boundary
    let mut long = 0usize;
    for len in [8usize, 9, 15, 16, 17, 23, 24, 25, 31, 32, 33, 40, 47, 48, 63, 64, 65, 72] {
        for pos in 0..len {
            for run_len in 1..=3usize {
                if pos + run_len > len {
                    continue;
                }
                for filler in ['a', '\u{e9}'] {
                    let mut n: String = std::iter::repeat(filler).take(pos).collect();
                    n.extend(std::iter::repeat(':').take(run_len));
                    n.extend(std::iter::repeat('b').take(len - pos - run_len));
                    let mut variants = vec![n.clone()];
                    if pos + run_len + 9 < len {
                        // a second run eight characters further on
                        let cs: Vec<char> = n.chars().collect();
                        let mut m: Vec<char> = cs.clone();
                        m[pos + run_len + 7] = ':';
                        variants.push(m.iter().collect());
                        m[pos + run_len + 8] = ':';
                        variants.push(m.iter().collect());
                    }
                    for name in variants {
                        let case = Case { appenders: vec!["A0".into()], root_level: 2, root_refs: vec!["A0".into()], loggers: vec![RawLogger { name: name.clone(), level: 4, additive: true, refs: vec!["A0".into()] }], targets: vec![name.clone(), "a".into()] };
                        ok &= run.eval_one("names-exhaustive", &case, &check);
                        long += 1;
                    }
                }
            }
        }
    }
    if ok {
        run.exhaustive(format!("{} names of 8-72 characters with a colon run of length 1-3 at every position (and a second run eight characters on)", long));
    }
}

pub fn run(run: &Run) {
    run.run_replays::<Case>("builder", &check);
    sweep(run);
    if run.worker.0 == 0 {
        // hundreds of offending items in one input: every one of them has to be named
        let many_refs: Vec<String> = (0..400).map(|i| format!("ghost{}", i)).collect();
        let mut appenders: Vec<String> = vec!["A0".into(), "A1".into()];
        appenders.extend((0..300).map(|i| if i % 2 == 0 { "A0".to_string() } else { format!("B{}", i) }));
        let mut loggers = vec![RawLogger { name: "a".into(), level: 3, additive: true, refs: many_refs.clone() }];
        loggers.extend((0..300).map(|i| RawLogger { name: format!("bad{}:", i), level: 2, additive: true, refs: vec!["A1".into()] }));
        loggers.extend((0..280).map(|_| RawLogger { name: "a".into(), level: 1, additive: false, refs: vec![] }));
        for c in [
            Case { appenders: vec!["A0".into()], root_level: 3, root_refs: many_refs.clone(), loggers: vec![], targets: vec!["a".into()] },
            Case { appenders, root_level: 3, root_refs: vec!["A0".into(), "nope".into()], loggers, targets: vec!["a::x".into(), "zz".into()] },
        ] {
            run.eval_one("builder", &c, &check);
        }
    }
    if run.worker.0 == 1 % run.worker.1 {
        // appender names (and references to them) that a sloppy key would conflate: hash collisions, case, a trailing
        // line terminator, invisible characters ...
        for (x, y) in crate::gen::cfgtree::lookalike_pairs() {
            let (x, y) = (x.to_string(), y.to_string());
            let lg = |name: &str, refs: Vec<&String>| RawLogger { name: name.into(), level: 4, additive: true, refs: refs.into_iter().cloned().collect() };
            for c in [
                // both exist: nothing to complain about
                Case { appenders: vec![x.clone(), y.clone()], root_level: 3, root_refs: vec![y.clone(), x.clone()], loggers: vec![lg("a", vec![&y]), lg("b", vec![&x])], targets: vec!["a".into(), "b::c".into(), "z".into()] },
                // only one exists: every reference to the other one dangles
                Case { appenders: vec![x.clone()], root_level: 3, root_refs: vec![y.clone()], loggers: vec![lg("a", vec![&x, &y]), lg("b", vec![&y])], targets: vec!["a".into(), "b".into(), "z".into()] },
                Case { appenders: vec![y.clone(), "A0".into()], root_level: 3, root_refs: vec![x.clone(), y.clone()], loggers: vec![lg("a", vec![&x])], targets: vec!["a::x".into(), "z".into()] },
                // a genuine duplicate next to a look-alike
                Case { appenders: vec![x.clone(), y.clone(), x.clone()], root_level: 3, root_refs: vec![x.clone()], loggers: vec![lg("a", vec![&y])], targets: vec!["a".into(), "z".into()] },
            ] {
                run.eval_one("builder", &c, &check);
            }
        }
    }
    run.search("builder", run.tier.pick(5_000, 300_000), strategy(), &check);
}

pub fn replay(part: &str, case: serde_json::Value) -> Option<CaseResult> {
    match part {
        "builder" | "names-exhaustive" => Some(check(&serde_json::from_value(case).ok()?, &mut Obs::default())),
        _ => None,
    }
}

pub fn meta() -> EvidenceMeta {
    EvidenceMeta {
        level: "exploration",
        rule: "cases = builder inputs: multiset of appender names over a 4-name pool (duplicates likely, each occurrence a distinguishable capture appender), 0-6 loggers whose names come from strings over {a,b,:}, concatenations of components (incl. letters whose code point ends in the byte 0x3A, like U+043A) and colon runs, well-formed paths, and duplicates of earlier names with different content; references drawn from pool + 2 nonexistent names with repeats; plus the exhaustive sweep of all 3280 names over {a,b,:} up to length 7. Oracle: name validity written from the statement (non-empty, every colon run of length exactly 2, none trailing; runs of even length >= 4 are unsettled: either outcome accepted); build() Ok iff no offence; every reported error names a real offence of its kind (counted) and every offending item is covered; build_lossy's Config accessors equal the valid part (first occurrence wins, dangling references stripped, original order); every returned Config is installed and probed under catch_unwind and deliveries equal route() on the valid part, from first-occurrence appenders only. Appender names include the empty string and a blank; the builders are reached through Config::builder() / ConfigBuilder::default(), Logger::builder() / LoggerBuilder::default() and mixes of singular and bulk calls; two fixed inputs carry 400 / 1000+ offending items; fixed inputs over look-alike appender names and references (published hash collisions, case, trailing line terminators, invisible characters). non-trivial = >=2 offence kinds, or an invalid name of length >=3 containing '::', or a duplicate whose second occurrence differs".into(),
        assumptions: vec!["a colon run of even length >= 4 ('a::::b') is not settled by the statement; both outcomes are accepted and counted".into()],
        mutants_caught: vec![],
    }
}
