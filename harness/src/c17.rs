//! C17 — on-start-up trigger rolls at most once, on the first record, if big enough.

use crate::engine::*;
use crate::ensure;
use crate::roll::*;
use log4rs::append::Append;
use proptest::prelude::*;
use serde::{Deserialize, Serialize};
use std::path::Path;
use std::sync::{Arc, Barrier};

#[derive(Serialize, Deserialize, Debug, Clone)]
pub struct Case {
    pub min_size: u64,
    /// pre-existing file size relative to min_size (None = absent)
    pub pre: Option<i64>,
    pub append_mode: bool,
    pub count: u32,
    /// single-threaded record payload lengths of the first lifetime
    pub records: Vec<usize>,
    /// simultaneous start instead: per-thread record payload lengths
    pub threads: Option<Vec<Vec<usize>>>,
    /// records of a second lifetime (restart) to tell "once per lifetime" from "once per file"
    pub second_lifetime: Option<Vec<usize>>,
    /// the (user-defined, wrapped) roller fails on its first call in the first lifetime
    #[serde(default)]
    pub fail_first_roll: bool,
    /// append this many extra tiny records at the end of the first lifetime (latch must hold for the whole lifetime)
    #[serde(default)]
    pub long_lifetime: usize,
    /// the failing roller archives the file first and fails afterwards
    #[serde(default)]
    pub fail_after_moving: bool,
    /// the trigger is built by the `onstartup` deserializer from a document without `min_size` (documented default 1);
    /// only used when `min_size` is 1
    #[serde(default)]
    pub via_config_default: bool,
    /// the encoder refuses the very first record of the first lifetime (nothing written, append reports the error):
    /// the start-up rotation belongs to that record all the same - the trigger is consulted before encoding
    #[serde(default)]
    pub first_encode_fails: bool,
    /// the configured path is a symbolic link to the pre-existing file (`current.log -> data/app-1.log`): the size
    /// "of the log file that existed" is the size of what the link points to
    #[serde(default)]
    pub symlinked: bool,
    /// between start-up and the first record somebody moves the log file away (logrotate, an operator): the start-up
    /// decision still belongs to the first record - there is nothing left to archive, the first record opens a fresh
    /// file at the path, and no rotation is requested while handling any later record
    #[serde(default)]
    pub moved_away: bool,
    /// the configured path holds a reference to a variable that is not set when the appender is built (the reference
    /// stays as it is, documented) and is set by the time the first record arrives: the log file is where it was
    #[serde(default)]
    pub late_env: bool,
}

pub fn strategy() -> impl Strategy<Value = Case> {
    let lens = || prop::collection::vec(prop_oneof![Just(0usize), 1usize..30, 1000usize..1030], 1..=20);
    (
        prop_oneof![6 => prop::sample::select(vec![0u64, 1, 2, 10, 1000]), 2 => 0u64..3000, 1 => prop::sample::select(vec![u64::MAX, u64::MAX - 1, 1u64 << 63, (1u64 << 63) + 1, (1u64 << 63) - 1, u32::MAX as u64 + 1])],
        prop::option::weighted(0.85, prop_oneof![Just(-1i64), Just(0), Just(1), -30i64..30, Just(-1_000_000)]),
        prop::bool::weighted(0.75),
        1u32..=3,
        lens(),
        prop::option::weighted(0.12, prop::collection::vec(prop::collection::vec(0usize..40, 1..=5), 2..=8)),
        prop::option::weighted(0.35, lens()),
        (prop::bool::weighted(0.2), prop::bool::ANY, prop::bool::ANY, prop::bool::weighted(0.2), prop::bool::weighted(0.2), prop::bool::weighted(0.15), prop::bool::weighted(0.15)),
    )
        .prop_map(|(min_size, pre, append_mode, count, records, threads, second_lifetime, (fail_first_roll, fail_after_moving, via_config_default, first_encode_fails, symlinked, moved_away, late_env))| Case { moved_away, late_env, symlinked: symlinked && pre.is_some(), min_size, pre, append_mode, count, records, fail_first_roll: fail_first_roll && threads.is_none(), first_encode_fails: first_encode_fails && threads.is_none() && !fail_first_roll, threads, second_lifetime, long_lifetime: 0, fail_after_moving, via_config_default })
}

pub fn check(tmp: &Path, case: &Case, obs: &mut Obs) -> CaseResult {
    let dir = scratch(tmp, "c17");
    let r = check_in(&dir, case, obs);
    let _ = std::fs::remove_dir_all(&dir);
    r
}

fn check_in(dir: &Path, case: &Case, obs: &mut Obs) -> CaseResult {
    std::env::remove_var("LV_C17_LATE");
    let r = check_in2(dir, case, obs);
    std::env::remove_var("LV_C17_LATE");
    r
}

fn check_in2(dir: &Path, case: &Case, obs: &mut Obs) -> CaseResult {
    let path = if case.late_env && case.threads.is_none() { dir.join("app-$ENV{LV_C17_LATE}.log") } else { dir.join("app.log") };
    obs.class_if(case.late_env && case.threads.is_none(), "variable-in-the-path-set-after-the-appender-was-built");
    let arch = |i: u32| dir.join(format!("old.{}.log", i));
    let mut on_disk_before: Vec<u8> = vec![];
    let existed = case.pre.is_some();
    if let Some(d) = case.pre {
        // sizes are relative to min_size, except for thresholds no real file can reach
        let size = if case.min_size > 1 << 20 { d.unsigned_abs() as usize % 4096 } else { (case.min_size as i64 + d).max(0) as usize };
        on_disk_before = (0..size).map(|i| b'A' + (i % 23) as u8).collect();
        if case.symlinked {
            std::fs::create_dir_all(dir.join("data")).unwrap();
            std::fs::write(dir.join("data/app-1.log"), &on_disk_before).unwrap();
            std::os::unix::fs::symlink("data/app-1.log", &path).unwrap();
            obs.class("configured-path-is-a-symbolic-link");
        } else {
            std::fs::write(&path, &on_disk_before).unwrap();
        }
    }
    let mut lifetimes: Vec<Vec<usize>> = vec![case.records.clone()];
    if let Some(s) = &case.second_lifetime {
        lifetimes.push(s.clone());
    }
    let mut near = false;
    let mut seq = 0u32;
    // archives expected by index (newest first)
    let mut archives: Vec<Vec<u8>> = vec![];
    for (li, recs) in lifetimes.iter().enumerate() {
        // (every lifetime starts with the variable unset: the reference in the path stays as it is)
        std::env::remove_var("LV_C17_LATE");
        let roller = RollSpec::Fixed { base: 0, count: case.count, pattern: "old.{}.log".into() };
        let roll_failures = Arc::new(std::sync::atomic::AtomicUsize::new(0));
        let fail_script: Vec<bool> = if li == 0 && case.fail_first_roll { vec![true] } else { vec![] };
        let policy: Box<dyn log4rs::append::rolling_file::policy::Policy> = if case.via_config_default && case.min_size == 1 {
            // trigger from a configuration document that leaves min_size out
            let trig = log4rs::config::Deserializers::default()
                .deserialize::<dyn log4rs::append::rolling_file::policy::compound::trigger::Trigger>("onstartup", serde_value::Value::Map(Default::default()))
                .map_err(|e| Failure { sig: "C17:build".into(), msg: e.to_string() })?;
            let r = FlakyRoller { inner: make_roller(dir, &roller).unwrap(), fail_after_moving: case.fail_after_moving, fail: fail_script.clone(), calls: std::sync::atomic::AtomicUsize::new(0), failures: roll_failures.clone() };
            Box::new(log4rs::append::rolling_file::policy::compound::CompoundPolicy::new(trig, Box::new(r)))
        } else {
            make_flaky_policy_with(dir, &TrigSpec::OnStartup(case.min_size), &roller, &fail_script, case.fail_after_moving, &roll_failures).unwrap()
        };
        let app = Arc::new(
            if li == 0 && case.first_encode_fails {
                log4rs::append::rolling_file::RollingFileAppender::builder()
                    .append(case.append_mode)
                    .encoder(Box::new(FailingEncoder { fail: vec![Some(0)], calls: std::sync::atomic::AtomicUsize::new(0) }))
                    .build(&path, policy)
            } else {
                build_appender(&path, case.append_mode, &None, policy)
            }
            .map_err(|e| Failure { sig: "C17:build".into(), msg: e.to_string() })?,
        );
        if case.late_env && case.threads.is_none() {
            std::env::set_var("LV_C17_LATE", "set-after-build");
        }
        // size of the log file that exists at start-up as this appender sees it
        let start_content: Vec<u8> = if case.append_mode { on_disk_before.clone() } else { vec![] };
        let size_at_start = start_content.len() as u64;
        if (size_at_start as i128 - case.min_size as i128).abs() <= 1 {
            near = true;
        }
        let wants_roll = size_at_start >= case.min_size;
        // a roll that fails is not made up for later: "at most one rotation ... only while handling the first record"
        let roll_fails = wants_roll && li == 0 && case.fail_first_roll;
        let must_roll = wants_roll && !roll_fails;
        // a roller that archives the file and fails afterwards: the archive exists, the append reports the error,
        // and the next record opens a fresh file
        let moved_anyway = roll_fails && case.fail_after_moving;
        let moved = case.moved_away && li == 0 && must_roll && case.threads.is_none() && !case.first_encode_fails && existed && !case.symlinked;
        let mut expected_active: Vec<u8> = if must_roll || moved_anyway { vec![] } else { start_content.clone() };
        if (must_roll || moved_anyway) && !moved {
            archives.insert(0, start_content.clone());
            archives.truncate(case.count as usize);
        }
        if moved {
            std::fs::rename(&path, dir.join("moved-away-by-somebody.log")).map_err(|e| Failure { sig: "C17:harness".into(), msg: e.to_string() })?;
            obs.class("log-file-moved-away-before-the-first-record");
        }
        if li == 0 && case.threads.is_some() {
            // simultaneous start: all threads released by a barrier
            let plan = case.threads.as_ref().unwrap();
            let barrier = Arc::new(Barrier::new(plan.len()));
            let mut handles = vec![];
            for (ti, lens) in plan.iter().enumerate() {
                let (app, barrier, lens) = (app.clone(), barrier.clone(), lens.clone());
                handles.push(std::thread::spawn(move || -> Result<(), String> {
                    barrier.wait();
                    for (si, len) in lens.iter().enumerate() {
                        append_msg(&*app, &record_text(ti as u16 + 1, si as u32, *len)).map_err(|e| e.to_string())?;
                    }
                    Ok(())
                }));
            }
            for h in handles {
                match h.join() {
                    Ok(Ok(())) => {}
                    Ok(Err(e)) => return fail("C17:append-error", format!("append failed during the simultaneous start: {}", e)),
                    Err(_) => return fail("C17:panic", "a writer thread panicked during the simultaneous start"),
                }
            }
            obs.sub_evals += 1;
            let active = std::fs::read(&path).unwrap_or_default();
            let tail = if must_roll {
                &active[..]
            } else {
                ensure!(active.starts_with(&start_content), "C17:preexisting-lost", "not rolled, but the active file does not start with the pre-existing content");
                &active[start_content.len()..]
            };
            let recs = parse_stream(tail).map_err(|off| Failure { sig: "C17:first-record-misplaced".into(), msg: format!("threaded start (must_roll={}): active file is not whole records after offset {}", must_roll, off) })?;
            let mut want: Vec<RecId> = vec![];
            for (ti, lens) in plan.iter().enumerate() {
                for (si, len) in lens.iter().enumerate() {
                    want.push(RecId { tid: ti as u16 + 1, seq: si as u32, len: *len });
                }
            }
            let mut got_sorted = recs.clone();
            got_sorted.sort();
            want.sort();
            ensure!(got_sorted == want, "C17:threaded-records", "threaded start (must_roll={}): active file holds {} records, {} were acknowledged (some landed in the archive or were lost)", must_roll, got_sorted.len(), want.len());
            for t in 1..=plan.len() as u16 {
                let seqs: Vec<u32> = recs.iter().filter(|r| r.tid == t).map(|r| r.seq).collect();
                ensure!(seqs.windows(2).all(|w| w[0] < w[1]), "C17:threaded-order", "thread {} records out of order", t);
            }
            expected_active = active.clone();
            if must_roll {
                let a0 = std::fs::read(arch(0)).ok();
                ensure!(a0.as_ref() == Some(&start_content), "C17:archive-content", "threaded start: newest archive holds {:?} bytes, pre-existing content had {}", a0.map(|b| b.len()), start_content.len());
            } else {
                ensure!(!arch(0).exists() || !archives.is_empty(), "C17:unexpected-roll", "threaded start: an archive appeared although the file at start-up ({} bytes) was smaller than min_size {}", size_at_start, case.min_size);
            }
        } else {
            let mut all: Vec<usize> = recs.clone();
            if li == 0 {
                all.extend(std::iter::repeat(0usize).take(case.long_lifetime));
            }
            for (ri, len) in all.iter().enumerate() {
                let rec = record_text(0, seq, *len);
                seq += 1;
                let failing_now = (roll_fails || (li == 0 && case.first_encode_fails)) && ri == 0;
                match catch(|| append_msg(&*app, &rec)) {
                    Err(p) => return fail("C17:panic", format!("append panicked: {}", p)),
                    Ok(Err(e)) => ensure!(failing_now, "C17:append-error", "append returned an error: {}", e),
                    Ok(Ok(())) => ensure!(!failing_now, "C17:error-swallowed", "the start-up roll or the encoder failed but the append reported success"),
                }
                obs.sub_evals += 1;
                if !failing_now {
                    // (a pre-processing trigger: the record of the failing append is not written)
                    expected_active.extend_from_slice(rec.as_bytes());
                }
                // checking every one of tens of thousands of tiny records would be quadratic
                if ri >= recs.len() && ri + 1 != all.len() && ri % 4099 != 0 {
                    continue;
                }
                let active = std::fs::read(&path).unwrap_or_default();
                ensure!(
                    active == expected_active,
                    if ri == 0 { "C17:first-record-misplaced" } else { "C17:active-content" },
                    "lifetime {} record {}: size at start-up {} vs min_size {} (must roll: {}): active file holds {} bytes, expected {} ({}pre-existing content ++ records)", li, ri, size_at_start, case.min_size, must_roll, active.len(), expected_active.len(), if must_roll { "fresh file without " } else { "" }
                );
                // archives: exactly the expected ones, whatever the later sizes
                for i in 0..case.count + 1 {
                    let got = std::fs::read(arch(i)).ok();
                    let want = archives.get(i as usize);
                    ensure!(
                        got.as_ref() == want,
                        if want.is_none() { "C17:extra-roll" } else { "C17:archive-content" },
                        "lifetime {} record {}: archive index {} holds {:?} bytes, expected {:?} (size at start-up {}, min_size {}, existed {})", li, ri, i, got.map(|b| b.len()), want.map(|b| b.len()), size_at_start, case.min_size, existed
                    );
                }
            }
        }
        drop(app);
        on_disk_before = expected_active;
    }
    obs.nontrivial = near || case.threads.is_some() || (case.min_size == 0 && case.pre.map_or(true, |d| d <= 0));
    obs.class_if(near, "size-within-1-of-min_size");
    obs.class_if(case.threads.is_some(), "simultaneous-start");
    obs.class_if(case.min_size == 0, "min_size=0");
    obs.class_if(case.min_size > 1 << 20, "unreachable-min_size");
    obs.class_if(!existed, "file-absent");
    obs.class_if(case.second_lifetime.is_some(), "second-lifetime");
    obs.class_if(!case.append_mode, "truncate-mode");
    obs.class_if(case.fail_first_roll, "start-up-roll-fails");
    obs.class_if(case.first_encode_fails, "encoder-refuses-the-first-record");
    obs.class_if(case.fail_first_roll && case.fail_after_moving, "roller-archives-then-fails");
    obs.class_if(case.via_config_default && case.min_size == 1, "trigger-from-config-without-min_size");
    obs.class_if(case.long_lifetime > 0, "lifetime>65536-records");
    Ok(())
}

/// Sizes beyond 32 bits: the pre-existing file is sparse (`set_len`), so nothing large is written; only sizes and
/// names are inspected.
#[derive(Serialize, Deserialize, Debug, Clone)]
pub struct Huge {
    pub file_size: u64,
    pub min_size: u64,
}

pub fn check_huge(tmp: &Path, c: &Huge, obs: &mut Obs) -> CaseResult {
    let dir = scratch(tmp, "c17h");
    let r = (|| -> CaseResult {
        let path = dir.join("app.log");
        let f = std::fs::File::create(&path).unwrap();
        if f.set_len(c.file_size).is_err() {
            obs.class("sparse-files-unavailable(skipped)");
            return Ok(());
        }
        drop(f);
        let roller = RollSpec::Fixed { base: 0, count: 2, pattern: "old.{}.log".into() };
        let policy = make_policy(&dir, &TrigSpec::OnStartup(c.min_size), &roller).unwrap();
        let app = build_appender(&path, true, &None, policy).map_err(|e| Failure { sig: "C17:build".into(), msg: e.to_string() })?;
        let rec = record_text(0, 0, 5);
        match catch(|| append_msg(&app, &rec)) {
            Err(p) => return fail("C17:panic", format!("append panicked: {}", p)),
            Ok(Err(e)) => return fail("C17:append-error", format!("append failed: {}", e)),
            Ok(Ok(())) => {}
        }
        let _ = append_msg(&app, &record_text(0, 1, 5));
        let should = c.file_size >= c.min_size;
        let arch = std::fs::metadata(dir.join("old.0.log")).map(|m| m.len()).ok();
        let active = std::fs::metadata(&path).map(|m| m.len()).unwrap_or(0);
        let two = 2 * rec.len() as u64;
        if should {
            ensure!(arch == Some(c.file_size) && active == two, "C17:missed-roll", "file of {} bytes at start-up, min_size {}: expected the file to be rolled; archive {:?} bytes, active {} bytes", c.file_size, c.min_size, arch, active);
        } else {
            ensure!(arch.is_none() && active == c.file_size + two, "C17:unexpected-roll", "file of {} bytes at start-up is smaller than min_size {}: it must not be rolled; archive {:?} bytes, active {} bytes", c.file_size, c.min_size, arch, active);
        }
        ensure!(!dir.join("old.1.log").exists(), "C17:extra-roll", "a second archive appeared");
        obs.sub_evals += 1;
        obs.nontrivial = true;
        obs.class("sizes-beyond-32-bits");
        Ok(())
    })();
    let _ = std::fs::remove_dir_all(&dir);
    r
}

pub fn run(run: &Run) {
    let tmp = run.tmp.clone();
    let f = move |c: &Case, o: &mut Obs| check(&tmp, c, o);
    run.run_replays::<Case>("startup", &f);
    if run.worker.0 == 1 % run.worker.1 {
        let g: u64 = 1 << 32;
        for (file_size, min_size) in [(g - 1, g), (g - 1, g - 1), (g, g + 1), (g + 10, 2 * g), (5 * g, u64::MAX), (5 * g, 5 * g), (g + 7, g + 8), (3 * g + 5, 3 * g + 4), (g - 2, g - 1)] {
            let t = run.tmp.clone();
            run.eval_one("huge", &Huge { file_size, min_size }, &move |c: &Huge, o: &mut Obs| check_huge(&t, c, o));
        }
    }
    if run.worker.0 == 0 {
        // one very long lifetime: the "first record" latch must hold beyond any counter width one might pick
        for (pre, min_size) in [(Some(10i64), 5u64), (Some(-3), 40)] {
            run.eval_one("startup", &Case { min_size, pre, append_mode: true, count: 2, records: vec![3, 0, 7], threads: None, second_lifetime: None, fail_first_roll: false, long_lifetime: 70_000, fail_after_moving: false, via_config_default: false, first_encode_fails: false, symlinked: false, moved_away: false, late_env: false }, &f);
        }
    }
    run.search("startup", run.tier.pick(1_500, 80_000), strategy(), &f);
}

pub fn replay(part: &str, case: serde_json::Value) -> Option<CaseResult> {
    match part {
        "startup" => {
            let tmp = std::env::temp_dir().join(format!("lv-replay-{}", std::process::id()));
            std::fs::create_dir_all(&tmp).ok()?;
            let r = check(&tmp, &serde_json::from_value(case).ok()?, &mut Obs::default());
            let _ = std::fs::remove_dir_all(&tmp);
            Some(r)
        }
        "huge" => {
            let tmp = std::env::temp_dir().join(format!("lv-replay-{}", std::process::id()));
            std::fs::create_dir_all(&tmp).ok()?;
            let r = check_huge(&tmp, &serde_json::from_value(case).ok()?, &mut Obs::default());
            let _ = std::fs::remove_dir_all(&tmp);
            Some(r)
        }
        _ => None,
    }
}

pub fn meta() -> EvidenceMeta {
    EvidenceMeta {
        level: "exploration",
        rule: "cases = min_size in {0,1,2,10,1000,random} x pre-existing file (absent, min-1, min, min+1, random) x append/truncate mode x window count 1-3 x a history of 1-20 appends (or a simultaneous start: 2-8 threads released by a barrier, 1-5 records each) x optional second appender lifetime on the same path; oracle after every append: rolled iff size at start-up >= min_size (0 in truncate mode); if rolled the newest archive is byte-identical to the pre-existing content and the active file is exactly the new records, else active = pre-existing ++ records; no further archive ever appears during the lifetime (all indices checked); threaded start: the active file parses into exactly the acknowledged records with per-thread order. The user-defined roller may fail on the start-up roll before or after moving the file (never made up for later; after a move the next record opens a fresh file); the trigger may come from the onstartup deserializer without min_size; two lifetimes of 70 000 records; the encoder may refuse the very first record (the rotation still belongs to it); part huge: sparse pre-existing files of 4 GiB - 2 ... 20 GiB against thresholds on either side. Further inputs (rounds 10-14): the configured path may be a symbolic link to the pre-existing file; the log file may be moved away by somebody between start-up and the first record (nothing left to archive, the first record opens a fresh file, no rotation later); the path may hold a reference to a variable that is set only after the appender was built. non-trivial = |size at start - min_size| <= 1, or the threaded start, or min_size 0 with an empty/absent file".into(),
        assumptions: vec!["OS scheduler not controlled: the simultaneous start is amplified by a barrier only".into()],
        mutants_caught: vec![],
    }
}
