//! C12 — JSON encoder: one record, one line, and the fields round-trip exactly.

use crate::engine::*;
use crate::ensure;
use crate::pat::{encode_with, Rec, LATE_MDC, LATE_MDC_PIECE};
use log4rs::encode::json::JsonEncoder;
use proptest::prelude::*;
use serde::{Deserialize, Serialize};
use std::collections::BTreeMap;

// ---- independent strict RFC 8259 parser ---------------------------------------------------------

#[derive(Debug, Clone, PartialEq)]
pub enum J {
    Null,
    Bool(bool),
    Num(String),
    Str(String),
    Arr(Vec<J>),
    Obj(Vec<(String, J)>),
}

struct P<'a> {
    b: &'a [u8],
    i: usize,
}

impl<'a> P<'a> {
    fn ws(&mut self) {
        while self.i < self.b.len() && matches!(self.b[self.i], b' ' | b'\t' | b'\n' | b'\r') {
            self.i += 1;
        }
    }
    fn eat(&mut self, c: u8) -> Result<(), String> {
        if self.i < self.b.len() && self.b[self.i] == c {
            self.i += 1;
            Ok(())
        } else {
            Err(format!("expected {:?} at byte {}", c as char, self.i))
        }
    }
    fn value(&mut self) -> Result<J, String> {
        self.ws();
        if self.i >= self.b.len() {
            return Err("unexpected end".into());
        }
        match self.b[self.i] {
            b'{' => {
                self.i += 1;
                let mut members: Vec<(String, J)> = vec![];
                self.ws();
                if self.i < self.b.len() && self.b[self.i] == b'}' {
                    self.i += 1;
                    return Ok(J::Obj(members));
                }
                loop {
                    self.ws();
                    let k = self.string()?;
                    if members.iter().any(|(n, _)| *n == k) {
                        return Err(format!("duplicate key {:?}", k));
                    }
                    self.ws();
                    self.eat(b':')?;
                    let v = self.value()?;
                    members.push((k, v));
                    self.ws();
                    if self.i < self.b.len() && self.b[self.i] == b',' {
                        self.i += 1;
                        continue;
                    }
                    self.eat(b'}')?;
                    return Ok(J::Obj(members));
                }
            }
            b'[' => {
                self.i += 1;
                let mut items = vec![];
                self.ws();
                if self.i < self.b.len() && self.b[self.i] == b']' {
                    self.i += 1;
                    return Ok(J::Arr(items));
                }
                loop {
                    items.push(self.value()?);
                    self.ws();
                    if self.i < self.b.len() && self.b[self.i] == b',' {
                        self.i += 1;
                        continue;
                    }
                    self.eat(b']')?;
                    return Ok(J::Arr(items));
                }
            }
            b'"' => Ok(J::Str(self.string()?)),
            b't' => self.lit("true", J::Bool(true)),
            b'f' => self.lit("false", J::Bool(false)),
            b'n' => self.lit("null", J::Null),
            b'-' | b'0'..=b'9' => self.number(),
            c => Err(format!("unexpected byte {:#x} at {}", c, self.i)),
        }
    }
    fn lit(&mut self, word: &str, v: J) -> Result<J, String> {
        if self.b[self.i..].starts_with(word.as_bytes()) {
            self.i += word.len();
            Ok(v)
        } else {
            Err(format!("bad literal at {}", self.i))
        }
    }
    fn number(&mut self) -> Result<J, String> {
        let start = self.i;
        if self.b[self.i] == b'-' {
            self.i += 1;
        }
        let digits = |p: &mut P| {
            let s = p.i;
            while p.i < p.b.len() && p.b[p.i].is_ascii_digit() {
                p.i += 1;
            }
            p.i - s
        };
        if self.i < self.b.len() && self.b[self.i] == b'0' {
            self.i += 1;
        } else if digits(self) == 0 {
            return Err("bad number".into());
        }
        if self.i < self.b.len() && self.b[self.i] == b'.' {
            self.i += 1;
            if digits(self) == 0 {
                return Err("bad fraction".into());
            }
        }
        if self.i < self.b.len() && (self.b[self.i] == b'e' || self.b[self.i] == b'E') {
            self.i += 1;
            if self.i < self.b.len() && (self.b[self.i] == b'+' || self.b[self.i] == b'-') {
                self.i += 1;
            }
            if digits(self) == 0 {
                return Err("bad exponent".into());
            }
        }
        Ok(J::Num(String::from_utf8_lossy(&self.b[start..self.i]).to_string()))
    }
    fn hex4(&mut self) -> Result<u32, String> {
        if self.i + 4 > self.b.len() {
            return Err("short \\u escape".into());
        }
        let s = std::str::from_utf8(&self.b[self.i..self.i + 4]).map_err(|_| "bad \\u escape")?;
        let v = u32::from_str_radix(s, 16).map_err(|_| "bad \\u escape".to_string())?;
        self.i += 4;
        Ok(v)
    }
    fn string(&mut self) -> Result<String, String> {
        self.eat(b'"')?;
        let mut out: Vec<u8> = vec![];
        loop {
            if self.i >= self.b.len() {
                return Err("unterminated string".into());
            }
            let c = self.b[self.i];
            self.i += 1;
            match c {
                b'"' => break,
                b'\\' => {
                    if self.i >= self.b.len() {
                        return Err("dangling backslash".into());
                    }
                    let e = self.b[self.i];
                    self.i += 1;
                    match e {
                        b'"' => out.push(b'"'),
                        b'\\' => out.push(b'\\'),
                        b'/' => out.push(b'/'),
                        b'b' => out.push(8),
                        b'f' => out.push(12),
                        b'n' => out.push(b'\n'),
                        b'r' => out.push(b'\r'),
                        b't' => out.push(b'\t'),
                        b'u' => {
                            let mut cp = self.hex4()?;
                            if (0xD800..0xDC00).contains(&cp) {
                                if self.b[self.i..].starts_with(b"\\u") {
                                    self.i += 2;
                                    let lo = self.hex4()?;
                                    if !(0xDC00..0xE000).contains(&lo) {
                                        return Err("bad low surrogate".into());
                                    }
                                    cp = 0x10000 + ((cp - 0xD800) << 10) + (lo - 0xDC00);
                                } else {
                                    return Err("lone high surrogate".into());
                                }
                            } else if (0xDC00..0xE000).contains(&cp) {
                                return Err("lone low surrogate".into());
                            }
                            let ch = char::from_u32(cp).ok_or("bad code point")?;
                            let mut buf = [0u8; 4];
                            out.extend_from_slice(ch.encode_utf8(&mut buf).as_bytes());
                        }
                        _ => return Err(format!("bad escape \\{}", e as char)),
                    }
                }
                0..=0x1F => return Err(format!("raw control character {:#x} inside a string", c)),
                _ => out.push(c),
            }
        }
        String::from_utf8(out).map_err(|_| "string is not UTF-8".to_string())
    }
}

pub fn parse_strict(b: &[u8]) -> Result<J, String> {
    let mut p = P { b, i: 0 };
    let v = p.value()?;
    p.ws();
    if p.i != b.len() {
        return Err(format!("trailing garbage at byte {}", p.i));
    }
    Ok(v)
}

// ---- generators ----------------------------------------------------------------------------------

const JCHARS: [char; 30] = [
    '"', '\\', '/', '\u{0}', '\u{1}', '\u{8}', '\t', '\n', '\r', '\u{c}', '\u{1f}', '\u{7f}', '\u{85}', '\u{2028}', '\u{2029}', '😀', '𝄞', '\u{0301}',
    'a', 'Z', '0', ' ', 'é', '漢', '{', '}', ':', ',', '[', 'u',
];

fn jtext() -> impl Strategy<Value = String> {
    let ch = prop_oneof![
        6 => any::<u16>().prop_map(|i| *pick(&JCHARS[..], i)),
        1 => any::<char>(),
    ];
    prop_oneof![
        3 => Just(String::new()),
        32 => prop::collection::vec(ch.clone(), 0..=12).prop_map(|v| v.into_iter().collect::<String>()),
        // one uninterrupted run of plain characters, well beyond any internal buffer size
        1 => (prop::sample::select(vec!['a', ' ', 'é', '漢', '😀']), 8_000usize..20_000, prop::sample::select(vec!["", "\"", "\n", "x"])).prop_map(|(c, n, tail)| {
            let mut s: String = std::iter::repeat(c).take(n).collect();
            s.push_str(tail);
            s
        }),
        4 => (prop::collection::vec(ch, 1..=8), 130usize..300).prop_map(|(v, n)| {
            // very long (>= 1024 bytes is reached by repetition)
            let unit: String = v.into_iter().collect();
            unit.repeat(n)
        }),
    ]
}

/// MDC maps; now and then with keys that differ from another key only in letter case or by a compatibility look-alike
/// (`requestId` / `requestid`, KELVIN SIGN / `K` / `k`): they are different keys
fn mdc_map() -> impl Strategy<Value = Vec<(String, String)>> {
    (prop::collection::vec((jtext(), jtext()), 0..=5), prop::option::weighted(0.25, (prop::sample::select(vec!["requestId", "ID", "\u{212a}ey", "Stra\u{df}e", "\u{3a3}x", "a"]), jtext(), jtext(), jtext()))).prop_map(|(mut v, twins)| {
        if let Some((k, v1, v2, v3)) = twins {
            let lower = k.to_lowercase();
            let upper = k.to_uppercase();
            for (kk, vv) in [(k.to_string(), v1), (lower, v2), (upper, v3)] {
                if !v.iter().any(|(x, _)| *x == kk) {
                    v.push((kk, vv));
                }
            }
        }
        v
    })
}

fn jpieces() -> impl Strategy<Value = Vec<String>> {
    (jtext(), prop::collection::vec(any::<u16>(), 0..=3), prop::bool::weighted(0.2)).prop_map(|(s, cuts, per_char)| {
        let chars: Vec<char> = s.chars().collect();
        if per_char && chars.len() <= 40 && !chars.is_empty() {
            // every character on its own (char arguments)
            return chars.iter().map(|c| c.to_string()).collect();
        }
        let mut pos: Vec<usize> = cuts.iter().map(|c| (*c as usize * (chars.len() + 1)) >> 16).collect();
        pos.sort();
        let mut out = vec![];
        let mut prev = 0;
        for p in pos {
            out.push(chars[prev..p].iter().collect::<String>());
            prev = p;
        }
        out.push(chars[prev..].iter().collect::<String>());
        out
    })
}

#[derive(Serialize, Deserialize, Debug, Clone)]
pub struct Case {
    pub rec: Rec,
    pub thread: Option<String>,
    pub script: Vec<u8>,
    /// run on a thread without a name: the `thread` field is then null
    #[serde(default)]
    pub unnamed_thread: bool,
    /// before the checked record, another record is encoded on the same thread into a writer that fails
    /// after this many bytes (state must not leak from the failed call into the next one)
    #[serde(default)]
    pub prior_failure: Option<usize>,
    /// how the encoder comes into being: 0 `JsonEncoder::new()`, 1 `Default::default()`, 2 `kind: json` through the
    /// default deserializers (what a configuration file does)
    #[serde(default)]
    pub ctor: u8,
    /// before the checked record, the same thread encodes a record whose MDC holds the same bytes with every
    /// key/value boundary moved by one character
    #[serde(default)]
    pub prior_shifted_mdc: bool,
    /// (records with an empty MDC only) the first message argument inserts an MDC entry while it is being formatted:
    /// the line is one well-formed object all the same, with the entry inside `mdc` or not at all
    #[serde(default)]
    pub late_mdc: bool,
}

/// The encoder by one of its public routes.
pub fn make_json_encoder(ctor: u8) -> Result<Box<dyn log4rs::encode::Encode>, String> {
    Ok(match ctor % 3 {
        0 => Box::new(JsonEncoder::new()),
        1 => Box::<JsonEncoder>::default(),
        _ => log4rs::config::Deserializers::default()
            .deserialize::<dyn log4rs::encode::Encode>("json", serde_value::Value::Map(Default::default()))
            .map_err(|e| e.to_string())?,
    })
}

pub fn strategy() -> impl Strategy<Value = Case> {
    (
        (
            0u8..5,
            jpieces(),
            jtext(),
            prop::option::weighted(0.6, prop_oneof![4 => jtext(), 1 => prop::sample::select(crate::pat::static_sites().to_vec()).prop_map(|s| s.to_string())]),
            prop::option::weighted(0.6, prop_oneof![4 => jtext(), 1 => prop::sample::select(crate::pat::static_sites().to_vec()).prop_map(|s| s.to_string())]),
            prop::option::weighted(0.6, prop_oneof![Just(0u32), Just(u32::MAX), any::<u32>()]),
            mdc_map(),
        ),
        prop::option::weighted(0.3, jtext().prop_filter("thread names cannot hold NUL", |s| !s.contains('\0'))),
        crate::pat::write_script(),
        prop::bool::weighted(0.1),
        (prop::option::weighted(0.25, prop_oneof![Just(0usize), 1usize..40, 100usize..2000]), 0u8..3, prop::bool::weighted(0.3), prop::bool::weighted(0.3)),
    )
        .prop_map(|((level, msg, target, module, file, line, mdc), thread, script, unnamed_thread, (prior_failure, ctor, prior_shifted_mdc, late_mdc))| Case {
            rec: Rec { level, msg, target, module, file, line, mdc },
            thread,
            script,
            unnamed_thread,
            prior_failure,
            ctor,
            prior_shifted_mdc,
            late_mdc,
        })
}

fn get<'a>(o: &'a [(String, J)], k: &str) -> Option<&'a J> {
    o.iter().find(|(n, _)| n == k).map(|(_, v)| v)
}

/// A sink that fails after a number of bytes.
struct FailW {
    left: usize,
}
impl std::io::Write for FailW {
    fn write(&mut self, buf: &[u8]) -> std::io::Result<usize> {
        if self.left == 0 {
            return Err(std::io::Error::new(std::io::ErrorKind::Other, "verif: sink failure"));
        }
        let n = buf.len().min(self.left);
        self.left -= n;
        Ok(n)
    }
    fn flush(&mut self) -> std::io::Result<()> {
        Ok(())
    }
}
impl log4rs::encode::Write for FailW {}

fn check_on_thread(case: &Case, obs: &mut Obs, thread_name: Option<&str>) -> CaseResult {
    let late = case.late_mdc && case.rec.mdc.is_empty();
    let with_late;
    let rec = if late {
        let mut r = case.rec.clone();
        r.msg.insert(0, LATE_MDC_PIECE.to_string());
        with_late = r;
        &with_late
    } else {
        &case.rec
    };
    let enc = make_json_encoder(case.ctor).map_err(|e| Failure { sig: "C12:constructor".into(), msg: format!("the json encoder could not be built by route {}: {}", case.ctor % 3, e) })?;
    let enc = &*enc;
    if let Some(k) = case.prior_failure {
        let other = Rec { level: 1, msg: vec!["an earlier record whose sink fails".into()], target: "earlier".into(), module: None, file: None, line: None, mdc: vec![] };
        let r = catch(|| {
            let mut w = FailW { left: k };
            crate::pat::with_rec(&other, |r| log4rs::encode::Encode::encode(enc, &mut w, r)).is_err()
        });
        match r {
            Err(p) => return fail("C12:panic", format!("encode into a failing sink panicked: {}", p)),
            Ok(_) => obs.class("after-a-failed-encode-on-this-thread"),
        }
    }
    if case.prior_shifted_mdc && !rec.mdc.is_empty() {
        let shifted: Vec<(String, String)> = rec
            .mdc
            .iter()
            .map(|(k, v)| match (k.chars().last(), v.chars().next()) {
                // "request" = "id-17"  ->  "reques" = "tid-17";  "" = "x"  ->  "x" = ""
                (Some(c), _) => (k[..k.len() - c.len_utf8()].to_string(), format!("{}{}", c, v)),
                (None, Some(c)) => (c.to_string(), v[c.len_utf8()..].to_string()),
                (None, None) => (k.clone(), v.clone()),
            })
            .collect();
        let other = Rec { level: 3, msg: vec!["the record before".into()], target: "earlier".into(), module: None, file: None, line: None, mdc: shifted };
        if let Err(p) = catch(|| encode_with(enc, &other, vec![])) {
            return fail("C12:panic", format!("encoding the preceding record panicked: {}", p));
        }
        obs.class("after-a-record-with-the-mdc-boundaries-shifted");
    }
    // the record before came from "the same place" as far as addresses go: its module path / file are the strings that
    // start at the same address as this record's and have another length, the line is the same
    {
        let twin = |s: &Option<String>| s.as_deref().and_then(crate::pat::static_twin).map(|t| t.to_string());
        let (tm, tf) = (twin(&rec.module), twin(&rec.file));
        if tm.is_some() || tf.is_some() {
            let mut other = rec.clone();
            other.msg = vec!["the record before, from next door".into()];
            if let Some(m) = tm {
                other.module = Some(m);
            }
            if let Some(f) = tf {
                other.file = Some(f);
            }
            if let Err(p) = catch(|| encode_with(enc, &other, vec![])) {
                return fail("C12:panic", format!("encoding the preceding record panicked: {}", p));
            }
            obs.class("after-a-record-whose-static-site-strings-start-at-the-same-address");
        }
    }
    let t0 = chrono::Utc::now();
    let (w, res) = match catch(|| encode_with(enc, rec, case.script.clone())) {
        Ok(x) => x,
        Err(p) => return fail("C12:panic", format!("JsonEncoder::encode panicked: {}", p)),
    };
    let t1 = chrono::Utc::now();
    if let Err(e) = res {
        return fail("C12:encode-error", format!("encode returned Err: {}", e));
    }
    // the JSON encoder has no business with styles: on a colour-capable writer (a terminal) a style request would put
    // an escape sequence into the line
    ensure!(w.styles().is_empty(), "C12:style-request", "the JSON encoder asked the writer for {} style change(s): on a terminal the line would carry escape sequences", w.styles().len());
    let bytes = w.bytes();
    // (a) exactly one line
    ensure!(bytes.last() == Some(&b'\n'), "C12:no-trailing-newline", "output does not end with a newline: {:?}", String::from_utf8_lossy(&bytes));
    let body = &bytes[..bytes.len() - 1];
    ensure!(
        !body.iter().any(|b| *b < 0x20),
        "C12:raw-control",
        "a raw newline/control byte inside the line: {:?}", String::from_utf8_lossy(body)
    );
    // (b) strict parse, cross-checked with serde_json
    let j = match parse_strict(body) {
        Ok(j) => j,
        Err(e) => return fail("C12:not-json", format!("line is not one strict JSON value: {} :: {:?}", e, String::from_utf8_lossy(body))),
    };
    let J::Obj(o) = &j else { return fail("C12:not-object", "line is not a JSON object") };
    let sv: serde_json::Value = match serde_json::from_slice(body) {
        Ok(v) => v,
        Err(e) => return fail("C12:not-json", format!("serde_json rejects the line: {}", e)),
    };
    // (c) fields
    let want_str = |k: &str, want: &str| -> CaseResult {
        match get(o, k) {
            Some(J::Str(s)) if s == want => {
                // agreement of the two parsers
                ensure!(sv.get(k).and_then(|v| v.as_str()) == Some(want), "C12:parser-disagreement", "serde_json and the strict parser disagree on {:?}", k);
                Ok(())
            }
            other => fail(format!("C12:field:{}", k), format!("field {:?} is {:?}, record has {:?}", k, other, want)),
        }
    };
    want_str("message", &rec.message())?;
    want_str("target", &rec.target)?;
    let level_name = ["ERROR", "WARN", "INFO", "DEBUG", "TRACE"][rec.level as usize % 5];
    want_str("level", level_name)?;
    for (k, v) in [("module_path", &rec.module), ("file", &rec.file)] {
        match v {
            Some(s) => want_str(k, s)?,
            None => ensure!(get(o, k).is_none(), format!("C12:absent-field-emitted:{}", k), "absent {:?} is emitted as {:?}", k, get(o, k)),
        }
    }
    match rec.line {
        Some(l) => ensure!(get(o, "line") == Some(&J::Num(l.to_string())), "C12:field:line", "line is {:?}, record has {}", get(o, "line"), l),
        None => ensure!(get(o, "line").is_none(), "C12:absent-field-emitted:line", "absent line is emitted as {:?}", get(o, "line")),
    }
    match thread_name {
        Some(n) => want_str("thread", n)?,
        None => ensure!(get(o, "thread") == Some(&J::Null), "C12:field:thread", "unnamed thread: field `thread` is {:?}, expected null", get(o, "thread")),
    }
    ensure!(
        get(o, "thread_id") == Some(&J::Num(thread_id::get().to_string())),
        "C12:field:thread_id",
        "thread_id is {:?}, expected {}", get(o, "thread_id"), thread_id::get()
    );
    let mut want_mdc: BTreeMap<String, String> = BTreeMap::new();
    for (k, v) in &rec.mdc {
        want_mdc.insert(k.clone(), v.clone());
    }
    match get(o, "mdc") {
        Some(J::Obj(m)) => {
            let got: BTreeMap<String, String> = m
                .iter()
                .map(|(k, v)| (k.clone(), if let J::Str(s) = v { s.clone() } else { format!("<non-string {:?}>", v) }))
                .collect();
            let mut with_late_entry = want_mdc.clone();
            with_late_entry.insert(LATE_MDC.0.to_string(), LATE_MDC.1.to_string());
            // (a message piece that inserts the late entry while being formatted may also come from a generator or a
            // fuzzer that found the marker: what counts is whether the record that was encoded contains it)
            let has_late = rec.msg.iter().any(|p| p == LATE_MDC_PIECE);
            let _ = late;
            ensure!((got == want_mdc && m.len() == want_mdc.len()) || (has_late && got == with_late_entry && m.len() == with_late_entry.len()), "C12:field:mdc", "mdc is {:?}, expected {:?}", m, want_mdc);
        }
        other => return fail("C12:field:mdc", format!("mdc is {:?}", other)),
    }
    match get(o, "time") {
        Some(J::Str(t)) => match chrono::DateTime::parse_from_rfc3339(t) {
            Ok(dt) => {
                let u = dt.with_timezone(&chrono::Utc);
                ensure!(u >= t0 && u <= t1, "C12:field:time", "time {} outside the encode bracket [{}, {}]", t, t0, t1);
            }
            Err(e) => return fail("C12:field:time", format!("time {:?} is not RFC 3339: {}", t, e)),
        },
        other => return fail("C12:field:time", format!("time is {:?}", other)),
    }
    // (d) no undocumented keys
    const DOCUMENTED: [&str; 10] = ["time", "message", "module_path", "file", "line", "level", "target", "thread", "thread_id", "mdc"];
    for (k, _) in o {
        ensure!(DOCUMENTED.contains(&k.as_str()), "C12:undocumented-key", "undocumented key {:?}", k);
    }
    // classification
    let needs_escape = |s: &str| s.chars().any(|c| c == '"' || c == '\\' || (c as u32) < 0x20);
    let all_strings: Vec<String> = std::iter::once(rec.message())
        .chain(std::iter::once(rec.target.clone()))
        .chain(rec.module.clone())
        .chain(rec.file.clone())
        .chain(rec.mdc.iter().flat_map(|(k, v)| [k.clone(), v.clone()]))
        .collect();
    let esc = all_strings.iter().any(|s| needs_escape(s));
    let absent = rec.module.is_none() || rec.file.is_none() || rec.line.is_none();
    obs.nontrivial = esc || absent;
    obs.class_if(esc, "needs-escaping");
    obs.class_if(absent, "absent-optional-field");
    obs.class_if(all_strings.iter().any(|s| s.contains('\n')), "embedded-newline");
    obs.class_if(all_strings.iter().any(|s| s.chars().any(|c| matches!(c, '\u{7f}' | '\u{85}' | '\u{2028}' | '\u{2029}'))), "del/nel/ls/ps(raw-is-legal-json)");
    obs.class_if(all_strings.iter().any(|s| s.len() >= 1024), "string>=1024-bytes");
    obs.class_if(all_strings.iter().any(|s| s.chars().any(|c| c as u32 > 0xFFFF)), "non-bmp");
    obs.class_if(!rec.mdc.is_empty(), "mdc-nonempty");
    obs.class_if(w.cut_inside_char, "write-cut-inside-char");
    obs.class_if(thread_name.map_or(false, |n| n != "main"), "named-thread");
    Ok(())
}

pub fn check(case: &Case, obs: &mut Obs) -> CaseResult {
    if case.unnamed_thread {
        let mut inner = Obs::default();
        let r = std::thread::scope(|s| s.spawn(|| check_on_thread(case, &mut inner, None)).join());
        obs.nontrivial = inner.nontrivial;
        obs.classes.append(&mut inner.classes);
        obs.class("unnamed-thread");
        return match r {
            Ok(r) => r,
            Err(_) => fail("C12:harness-panic", "check thread panicked"),
        };
    }
    match &case.thread {
        None => check_on_thread(case, obs, Some("main")),
        Some(name) => {
            let mut inner = Obs::default();
            let r = std::thread::scope(|s| {
                std::thread::Builder::new()
                    .name(name.clone())
                    .spawn_scoped(s, || check_on_thread(case, &mut inner, Some(name)))
                    .unwrap()
                    .join()
            });
            obs.nontrivial = inner.nontrivial;
            obs.classes.append(&mut inner.classes);
            match r {
                Ok(r) => r,
                Err(_) => fail("C12:harness-panic", "check thread panicked"),
            }
        }
    }
}

/// A message argument whose Display encodes two records of its own (through the same encoder, into another sink) while
/// the outer record is being encoded: a logging call inside a `Display` impl, a lazily evaluated field that logs. Every
/// one of the three records is one line of its own.
#[derive(Serialize, Deserialize, Debug, Clone)]
pub struct Nested {
    pub text: String,
    pub ctor: u8,
}

struct NestingArg<'a> {
    enc: &'a dyn log4rs::encode::Encode,
    side: &'a std::cell::RefCell<Vec<(Vec<u8>, bool)>>,
}

impl<'a> std::fmt::Display for NestingArg<'a> {
    fn fmt(&self, _: &mut std::fmt::Formatter) -> std::fmt::Result {
        for i in 0..2 {
            let mut w = crate::pat::CapW::new(vec![]);
            let ok = self
                .enc
                .encode(&mut w, &log::Record::builder().args(format_args!("inner-{}", i)).level(log::Level::Debug).target("inner").build())
                .is_ok();
            self.side.borrow_mut().push((w.bytes(), ok));
        }
        Ok(())
    }
}

pub fn check_nested(c: &Nested, obs: &mut Obs) -> CaseResult {
    let enc = make_json_encoder(c.ctor).map_err(|e| Failure { sig: "C12:constructor".into(), msg: e })?;
    let side = std::cell::RefCell::new(vec![]);
    let mut w = crate::pat::CapW::new(vec![]);
    let arg = NestingArg { enc: &*enc, side: &side };
    let r = catch(|| enc.encode(&mut w, &log::Record::builder().args(format_args!("{}{}", arg, c.text)).level(log::Level::Info).target("outer").build()));
    match r {
        Err(p) => return fail("C12:panic", format!("encoding a record whose argument encodes records of its own panicked: {}", p)),
        Ok(Err(e)) => return fail("C12:encode-error", format!("encode returned Err: {}", e)),
        Ok(Ok(())) => {}
    }
    let mut lines: Vec<(String, Vec<u8>)> = vec![(c.text.clone(), w.bytes())];
    for (i, (b, ok)) in side.borrow().iter().enumerate() {
        ensure!(*ok, "C12:encode-error", "the nested encode #{} returned an error", i);
        lines.push((format!("inner-{}", i), b.clone()));
    }
    ensure!(lines.len() == 3, "C12:harness", "{} records instead of 3", lines.len());
    for (msg, bytes) in &lines {
        obs.sub_evals += 1;
        ensure!(bytes.last() == Some(&b'\n'), "C12:no-trailing-newline", "a record encoded while another record was being encoded on the same thread (message {:?}) does not end with a newline: {:?}", msg, String::from_utf8_lossy(bytes));
        let body = &bytes[..bytes.len() - 1];
        ensure!(!body.iter().any(|b| *b < 0x20), "C12:raw-control", "raw control byte inside the line of {:?}: {:?}", msg, String::from_utf8_lossy(body));
        let j = parse_strict(body).map_err(|e| Failure { sig: "C12:not-json".into(), msg: format!("nested situation, record {:?}: {} :: {:?}", msg, e, String::from_utf8_lossy(body)) })?;
        match &j {
            J::Obj(o) => ensure!(get(o, "message") == Some(&J::Str(msg.clone())), "C12:field:message", "nested situation: message is {:?}, expected {:?}", get(o, "message"), msg),
            other => return fail("C12:not-json", format!("not an object: {:?}", other)),
        }
    }
    obs.nontrivial = true;
    obs.class("argument-encodes-records-of-its-own");
    Ok(())
}

pub fn run(run: &Run) {
    run.run_replays::<Nested>("nested", &check_nested);
    run.search("nested", run.tier.pick(300, 20_000), (jtext(), 0u8..3).prop_map(|(text, ctor)| Nested { text, ctor }), &check_nested);
    run.run_replays::<Case>("record", &check);
    run.search("record", run.tier.pick(20_000, 2_000_000), strategy(), &check);
}

pub fn replay(part: &str, case: serde_json::Value) -> Option<CaseResult> {
    match part {
        "record" => Some(check(&serde_json::from_value(case).ok()?, &mut Obs::default())),
        "nested" => Some(check_nested(&serde_json::from_value(case).ok()?, &mut Obs::default())),
        _ => None,
    }
}

pub fn meta() -> EvidenceMeta {
    EvidenceMeta {
        level: "exploration",
        rule: "cases = generated records (5 levels; message in 1-4 pieces; strings biased towards quote, backslash, slash, U+0000-001F, U+007F, U+0085, U+2028/9, non-BMP, combining marks, arbitrary chars, and >=1 KiB repetitions; optional fields present/absent; MDC maps of 0-5 entries with such keys/values (a quarter of them also hold keys that differ only in letter case or by a compatibility look-alike); module path and file may be `&'static str`s handed over through module_path_static / file_static (backslashes, quotes, controls); main or named thread; scripted short writes); oracle = output is exactly one line (final newline, no byte < 0x20 before it), parses with the harness's own strict RFC 8259 parser (rejects raw controls, duplicate keys, trailing garbage) and with serde_json, every documented field equals the record's value exactly, absent optional fields are omitted, time is RFC 3339 inside the encode bracket, no undocumented key; In 20% of the messages every character is delivered on its own (the way char arguments arrive); in 30% of the cases the same thread first encodes a record whose MDC holds the same bytes with every key/value boundary moved by one character. The first message argument may insert an MDC entry while it is being formatted (the line stays one well-formed object); no style request may reach the writer. Part nested: a message argument whose Display encodes two records of its own through the same encoder - all three are lines of their own. A record may follow one whose module path / file are the `&'static str`s that start at the same address and have another length (same line). Text fields may hold one uninterrupted plain run of 8-20 kB; the encoder is built by JsonEncoder::new(), Default::default() or the kind: json deserializer; the sink may answer write calls with ErrorKind::Interrupted. non-trivial = some string needs escaping or an optional field is absent; distinct = FNV hash of the case".into(),
        assumptions: vec!["'control character' = U+0000-U+001F (JSON's own definition); U+007F/U+0085/U+2028/9 are legal raw and only counted".into()],
        mutants_caught: vec![],
    }
}
