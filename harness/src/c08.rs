//! C08 — a failed or interrupted rotation loses no acknowledged data and is recoverable.
//! Fault enumeration: for every generated history, every (rotation, step) pair is taken once as
//! an injected error and once as a crash point (directory image), through hook H2.

use crate::c05::{archive_path, read_chunks, window_count, T0};
use crate::child::*;
use crate::engine::*;
use crate::ensure;
use crate::fsx::*;
use crate::roll::*;
use log4rs::append::rolling_file::policy::compound::roll::fixed_window::verif as steps;
use log4rs::append::rolling_file::policy::compound::trigger::time::verif as clock;
use log4rs::append::rolling_file::RollingFileAppender;
use proptest::prelude::*;
use serde::{Deserialize, Serialize};
use std::path::{Path, PathBuf};
use std::sync::{Arc, Mutex};

#[derive(Serialize, Deserialize, Debug, Clone)]
pub struct Case {
    pub trigger: TrigSpec,
    pub roller: RollSpec,
    pub append_mode: bool,
    /// (payload length, seconds the clock advances before the append)
    pub history: Vec<(usize, u32)>,
    /// how many rotation attempts in a row hit the obstruction
    pub persist: usize,
    pub continuation: Vec<(usize, u32)>,
    /// the active file lives on another filesystem than the archives (rename fails with EXDEV, copy fallback)
    #[serde(default)]
    pub cross_device: bool,
}

#[derive(Serialize, Deserialize, Debug, Clone, PartialEq)]
pub enum Fault {
    None,
    /// fail step `s` of rotation attempt `r` (and of the following `persist - 1` attempts)
    Error { r: usize, s: usize },
    /// copy the directory when step `s` of rotation `r` is about to run
    Crash { r: usize, s: usize },
    /// hook-free: a non-empty directory sits at archive offset `off` while rotation `r` runs
    Obstacle { r: usize, off: u32 },
    /// hook-free, directory-component patterns: the directory of archive offset `off` is a dangling symlink
    DanglingDir { r: usize, off: u32 },
    /// hook-free, directory-component patterns: a regular file sits where the directory of archive offset `off` belongs
    FileAtDir { r: usize, off: u32 },
    /// hook-free, directory-component patterns: the directory of archive offset `off` is a symbolic link into a file
    /// system of another kind where nothing can be created (/proc/self): rename fails one way, the copy fallback another
    ForeignDir { r: usize, off: u32 },
    /// hook-free, compressing patterns with a window of one: the archive name is a symbolic link to /dev/full, so the
    /// archive can be created but every byte written to it is refused (ENOSPC) - a device that fills up while the
    /// rolled file is being compressed; small archives meet the error only when the encoder is finished/flushed
    FullDevice { r: usize },
    /// hook-free: rotation attempt `r` is carried out - the file is archived - and only then reported as failed (a roller
    /// with a follow-up step of its own: an upload, an index file, a notification)
    FailAfterMove { r: usize },
}

/// One faulted execution = what a replay file holds.
#[derive(Serialize, Deserialize, Debug, Clone)]
pub struct Faulted {
    pub case: Case,
    pub fault: Fault,
}

pub fn strategy() -> impl Strategy<Value = Case> {
    let trigger = prop_oneof![
        5 => (30u64..400).prop_map(TrigSpec::Size),
        2 => prop::collection::vec(prop::bool::weighted(0.35), 8..=40).prop_map(|s| TrigSpec::Scripted(s, true)),
        2 => prop::collection::vec(prop::bool::weighted(0.35), 8..=40).prop_map(|s| TrigSpec::Scripted(s, false)),
        2 => (1u32..=3).prop_map(|n| TrigSpec::Time(format!("{} seconds", n), false)),
    ];
    // (u32::MAX stands for "the window ends at index u32::MAX")
    let roller = (prop::sample::select(vec![0u32, 1, 7, 0, 1, 7, u32::MAX]), 1u32..=6, prop::sample::select(vec!["a.{}.log", "arch/{}/a.log", "a.{}.log.gz", "arch/{}/a.{}.log", crate::c05::FIXED_PATTERNS[7], crate::c05::FIXED_PATTERNS[8]]))
        .prop_map(|(base, count, p)| RollSpec::Fixed { base: if base == u32::MAX { u32::MAX - (count - 1) } else { base }, count, pattern: p.to_string() });
    let roller = prop_oneof![
        8 => roller,
        1 => (prop::sample::select(vec![0u32, 1, 7]), prop::sample::select(vec!["a.{}.log.gz", "a.{}.log.zst", "arch/{}/a.log.gz"])).prop_map(|(base, p)| RollSpec::Fixed { base, count: 1, pattern: p.to_string() }),
    ];
    let step = || (prop_oneof![4 => 0usize..100, 1 => 1000usize..1040], prop_oneof![3 => Just(0u32), 2 => 1u32..4]);
    (trigger, roller, prop::bool::weighted(0.6), prop::collection::vec(step(), 5..=40), 1usize..=3, prop::collection::vec(step(), 3..=25), prop::bool::weighted(0.25))
        .prop_map(|(trigger, roller, append_mode, history, persist, continuation, cross_device)| Case { trigger, roller, append_mode, history, persist, continuation, cross_device })
}

#[derive(Default)]
struct HookState {
    fault: Option<Fault>,
    persist: usize,
    /// index of the rotation attempt in progress and of the next step inside it
    rotation: usize,
    step: usize,
    in_rotation: bool,
    failures_left: usize,
    dir: PathBuf,
    image_dir: PathBuf,
    active: PathBuf,
    image_active: PathBuf,
    image_taken: bool,
    /// (rotation, step) pairs seen (dry run)
    seen: Vec<(usize, usize)>,
    injected: usize,
    steps_per_rotation: usize,
}

struct Outcome {
    seen: Vec<(usize, usize)>,
    image_taken: bool,
    injected: usize,
}

const ACTIVE: &str = "active.log";

/// Where the active file of the appender working in `dir` lives.
fn active_path(dir: &Path, cross_device: bool) -> PathBuf {
    if cross_device {
        if let Some(alt) = other_fs_dir(dir) {
            return alt.join(ACTIVE);
        }
    }
    dir.join(ACTIVE)
}

fn build(dir: &Path, case: &Case, fault: &Fault, scripted_failures: &Arc<std::sync::atomic::AtomicUsize>) -> Result<RollingFileAppender, Failure> {
    let policy = match fault {
        Fault::FailAfterMove { r } => {
            let mut script = vec![false; *r];
            script.push(true);
            make_flaky_policy_with(dir, &case.trigger, &case.roller, &script, true, scripted_failures)
        }
        _ => make_policy(dir, &case.trigger, &case.roller),
    }
    .map_err(|e| Failure { sig: "C08:build".into(), msg: e.to_string() })?;
    build_appender(&active_path(dir, case.cross_device), case.append_mode, &None, policy).map_err(|e| Failure { sig: "C08:build".into(), msg: e.to_string() })
}

/// Decoded contents of all managed files (archives inside the window + active path) by name.
fn managed(dir: &Path, roller: &RollSpec, active: &Path) -> Vec<(String, Vec<u8>)> {
    let mut v = vec![];
    for off in 0..window_count(roller) {
        let p = archive_path(dir, roller, off).unwrap();
        if is_full_device_link(&p) {
            continue; // (reading /dev/full never ends)
        }
        if let Ok(raw) = std::fs::read(&p) {
            let name = p.to_string_lossy().to_string();
            if let Ok(dec) = decoded(&name, &raw) {
                v.push((format!("archive+{}", off), dec));
            } else {
                v.push((format!("archive+{}(undecodable)", off), raw));
            }
        }
    }
    if let Ok(b) = std::fs::read(active) {
        v.push(("active".to_string(), b));
    }
    v
}

/// The stream oracle on a directory state: whole records; an in-order, duplicate-free subsequence of
/// the attempted records; gap-free with respect to acknowledged records from its first element on.
fn check_stream(dir: &Path, roller: &RollSpec, active: &Path, attempted: &[RecId], acked: &[bool], what: &str) -> CaseResult {
    let (chunks, _) = read_chunks(dir, roller, active).map_err(|f| Failure { sig: "C08:archive-undecodable".into(), msg: format!("{}: {}", what, f.msg) })?;
    let mut stream: Vec<RecId> = vec![];
    for (i, c) in chunks.iter().enumerate() {
        match parse_stream(c) {
            Ok(r) => stream.extend(r),
            Err(off) => return fail("C08:split-record", format!("{}: file #{} (oldest first) is not whole records at byte {} of {}", what, i, off, c.len())),
        }
    }
    // subsequence of attempted, in order, no duplicates
    let mut pos = 0usize;
    let mut first: Option<usize> = None;
    let mut present = vec![false; attempted.len()];
    for r in &stream {
        let mut found = None;
        while pos < attempted.len() {
            if attempted[pos] == *r {
                found = Some(pos);
                pos += 1;
                break;
            }
            pos += 1;
        }
        match found {
            Some(p) => {
                present[p] = true;
                if first.is_none() {
                    first = Some(p);
                }
            }
            None => return fail("C08:out-of-order", format!("{}: record seq {} on disk is duplicated, reordered or was never written (disk order {:?})", what, r.seq, stream.iter().map(|x| x.seq).collect::<Vec<_>>())),
        }
    }
    if let Some(f) = first {
        for p in f..attempted.len() {
            ensure!(
                present[p] || !acked[p],
                "C08:gap-in-stream",
                "{}: acknowledged record seq {} is missing from the middle of the stream (disk holds {:?})", what, attempted[p].seq, stream.iter().map(|x| x.seq).collect::<Vec<_>>()
            );
        }
    }
    Ok(())
}

/// Every chunk that existed before (except the archive at the top index) is still present byte-for-byte
/// (the active chunk may have grown) under a managed name or the active path.
fn check_retained(before: &[(String, Vec<u8>)], after: &[(String, Vec<u8>)], roller: &RollSpec, what: &str) -> CaseResult {
    let count = window_count(roller);
    let top = format!("archive+{}", count.saturating_sub(1));
    // the content of the top slot may go when the rotation shifts the slot below onto it (or, with a window of one, puts
    // the rolled file there); with that slot vacant - the state an interrupted rotation leaves behind - nothing is
    // shifted onto it, the window has room, and the completed rotation keeps it
    let top_may_go = count <= 1 || before.iter().any(|(n, _)| *n == format!("archive+{}", count - 2));
    for (name, content) in before {
        if (*name == top && top_may_go) || content.is_empty() {
            continue;
        }
        let kept = after.iter().any(|(_, c)| if name == "active" { c.starts_with(content) } else { c == content });
        ensure!(
            kept,
            if name == "active" { "C08:lost-acked:active-content" } else { "C08:lost-acked:archive" },
            "{}: the {} bytes that were in {} before the operation are no longer on disk under any managed name (after: {:?})", what, content.len(), name, after.iter().map(|(n, c)| (n.clone(), c.len())).collect::<Vec<_>>()
        );
    }
    Ok(())
}

pub struct Report {
    pub rotations: usize,
    pub steps_per_rotation: usize,
    pub seen: Vec<(usize, usize)>,
}

/// Runs the history (with the fault), then the continuation; checks the oracle after every append.
pub fn execute(tmp: &Path, f: &Faulted, obs: &mut Obs) -> Result<Report, Failure> {
    let dir = scratch(tmp, "c08");
    let image = scratch(tmp, "c08img");
    clock::set_now(Some((T0, 0)));
    let r = execute_in(&dir, &image, f, obs);
    steps::set_step_callback(None);
    clock::set_now(None);
    for d in [&dir, &image] {
        if f.case.cross_device {
            if let Some(alt) = other_fs_dir(d) {
                let _ = std::fs::remove_dir_all(alt);
            }
        }
        let _ = std::fs::remove_dir_all(d);
    }
    r
}

fn execute_in(dir: &Path, image: &Path, f: &Faulted, obs: &mut Obs) -> Result<Report, Failure> {
    let case = &f.case;
    let count = window_count(&case.roller) as usize;
    let state = Arc::new(Mutex::new(HookState {
        fault: Some(f.fault.clone()),
        persist: case.persist,
        dir: dir.to_path_buf(),
        image_dir: image.to_path_buf(),
        active: active_path(dir, case.cross_device),
        image_active: active_path(image, case.cross_device),
        steps_per_rotation: count,
        ..Default::default()
    }));
    {
        let st = state.clone();
        steps::set_step_callback(Some(Box::new(move |kind: &str, _idx: u32| {
            let mut s = st.lock().unwrap();
            if !s.in_rotation {
                s.in_rotation = true;
                s.step = 0;
            }
            let (r, k) = (s.rotation, s.step);
            s.seen.push((r, k));
            let mut result = Ok(());
            match s.fault.clone() {
                Some(Fault::Error { r: fr, s: fs }) => {
                    if r == fr && k == fs {
                        s.failures_left = s.persist;
                    }
                    if s.failures_left > 0 && k == fs && r >= fr {
                        s.failures_left -= 1;
                        s.injected += 1;
                        result = Err(std::io::Error::new(std::io::ErrorKind::Other, "verif-injected"));
                    }
                }
                Some(Fault::Crash { r: fr, s: fs }) => {
                    if r == fr && k == fs && !s.image_taken {
                        copy_tree(&s.dir, &s.image_dir);
                        if s.active != s.dir.join(ACTIVE) {
                            // the active file lives on the other filesystem: it belongs to the image as well
                            if let Ok(b) = std::fs::read(&s.active) {
                                let _ = std::fs::write(&s.image_active, b);
                            }
                        }
                        s.image_taken = true;
                    }
                }
                _ => {}
            }
            s.step += 1;
            if kind == "final" || result.is_err() {
                s.in_rotation = false;
                s.rotation += 1;
            }
            result
        })));
    }
    let active = active_path(dir, case.cross_device);
    let image_active = active_path(image, case.cross_device);
    let scripted_failures = Arc::new(std::sync::atomic::AtomicUsize::new(0));
    let mut app = build(dir, case, &f.fault, &scripted_failures)?;
    let mut now = T0;
    let mut attempted: Vec<RecId> = vec![];
    let mut acked: Vec<bool> = vec![];
    let mut seq = 0u32;
    let mut crash_attempted: Option<(Vec<RecId>, Vec<bool>)> = None;
    let mut fault_lifted_at: Option<usize> = None;
    let total = case.history.len() + case.continuation.len();
    let pre_process = matches!(case.trigger, TrigSpec::Scripted(_, true) | TrigSpec::Time(..));
    let mut obstacle_placed = false;
    for i in 0..total {
        let (len, dt) = if i < case.history.len() { case.history[i] } else { case.continuation[i - case.history.len()] };
        now += dt as i64;
        clock::set_now(Some((now, 0)));
        // hook-free obstacle: present while rotation attempt r is pending, removed after `persist` failures
        if let Fault::Obstacle { r, off } = &f.fault {
            let rot = state.lock().unwrap().rotation;
            let p = archive_path(dir, &case.roller, *off).unwrap();
            if rot == *r && !obstacle_placed && fault_lifted_at.is_none() && !p.exists() {
                std::fs::create_dir_all(p.join("obstacle")).unwrap();
                std::fs::write(p.join("obstacle/x"), b"x").unwrap();
                obstacle_placed = true;
            }
        }
        if let Fault::DanglingDir { r, off } | Fault::FileAtDir { r, off } | Fault::ForeignDir { r, off } = &f.fault {
            let rot = state.lock().unwrap().rotation;
            let slot = archive_path(dir, &case.roller, *off).unwrap().parent().unwrap().to_path_buf();
            // the roller creates the slot directories ahead of use: an absent or still empty one is replaced
            let due = rot == *r && !obstacle_placed && fault_lifted_at.is_none();
            let replaceable = due
                && match std::fs::symlink_metadata(&slot) {
                    Err(_) => true,
                    Ok(m) => m.is_dir() && std::fs::read_dir(&slot).map_or(false, |mut d| d.next().is_none()) && std::fs::remove_dir(&slot).is_ok(),
                };
            if due && replaceable {
                std::fs::create_dir_all(slot.parent().unwrap()).unwrap();
                if matches!(f.fault, Fault::DanglingDir { .. }) {
                    std::os::unix::fs::symlink(dir.join("no-such-volume"), &slot).unwrap();
                } else if matches!(f.fault, Fault::ForeignDir { .. }) {
                    std::os::unix::fs::symlink("/proc/self", &slot).unwrap();
                } else {
                    std::fs::write(&slot, b"not a directory").unwrap();
                }
                obstacle_placed = true;
            }
        }
        if let Fault::FullDevice { r } = &f.fault {
            let rot = state.lock().unwrap().rotation;
            let p = archive_path(dir, &case.roller, 0).unwrap();
            if rot == *r && !obstacle_placed && fault_lifted_at.is_none() && std::fs::symlink_metadata(&p).is_err() {
                std::fs::create_dir_all(p.parent().unwrap()).unwrap();
                std::os::unix::fs::symlink("/dev/full", &p).unwrap();
                obstacle_placed = true;
            }
        }
        // an obstacle directory that sits at a *source* name is renamed along by the roller: locate it afresh
        let obstacle_at: Option<PathBuf> = (0..window_count(&case.roller))
            .filter_map(|o| archive_path(dir, &case.roller, o))
            .find(|p| p.join("obstacle/x").exists())
            .or_else(|| {
                (0..window_count(&case.roller))
                    .filter_map(|o| archive_path(dir, &case.roller, o))
                    .filter_map(|p| p.parent().map(|x| x.to_path_buf()))
                    .find(|slot| slot != dir && std::fs::symlink_metadata(slot).map_or(false, |m| m.file_type().is_symlink() || m.is_file()))
            })
            .or_else(|| (0..window_count(&case.roller)).filter_map(|o| archive_path(dir, &case.roller, o)).find(|p| is_full_device_link(p)));
        let before = managed(dir, &case.roller, &active);
        let injected_before = state.lock().unwrap().injected;
        let scripted_before = scripted_failures.load(std::sync::atomic::Ordering::SeqCst);
        let image_before = state.lock().unwrap().image_taken;
        let id = RecId { tid: 0, seq, len };
        let text = record_text(0, seq, len);
        seq += 1;
        attempted.push(id);
        let res = catch(|| append_msg(&app, &text));
        obs.sub_evals += 1;
        let what = format!("append #{} (fault {:?})", i, f.fault);
        let scripted_now = scripted_failures.load(std::sync::atomic::Ordering::SeqCst) > scripted_before;
        let injected_now = state.lock().unwrap().injected > injected_before || scripted_now;
        let ok = match res {
            Err(p) => return fail("C08:panic", format!("{}: append panicked instead of reporting an error: {}", what, p)),
            Ok(Ok(())) => true,
            Ok(Err(e)) => {
                let expected_failure = injected_now || obstacle_at.is_some();
                ensure!(expected_failure, "C08:spurious-error", "{}: append returned an error although no step was obstructed: {}", what, e);
                false
            }
        };
        if injected_now {
            ensure!(!ok, "C08:error-swallowed", "{}: a rotation step failed but the append reported success", what);
        }
        acked.push(ok);
        // crash image taken during this append: the in-flight record is unacknowledged there
        if !image_before && state.lock().unwrap().image_taken {
            let mut a = acked.clone();
            *a.last_mut().unwrap() = false;
            crash_attempted = Some((attempted.clone(), a));
        }
        let after = managed(dir, &case.roller, &active);
        if std::env::var_os("LV_DEBUG").is_some() {
            eprintln!("[c08] {} ok={} obstacle={:?} before={:?} after={:?}", what, ok, obstacle_at, before.iter().map(|(n, c)| (n.clone(), c.len())).collect::<Vec<_>>(), after.iter().map(|(n, c)| (n.clone(), c.len())).collect::<Vec<_>>());
        }
        check_retained(&before, &after, &case.roller, &what)?;
        check_stream(dir, &case.roller, &active, &attempted, &acked, &what)?;
        if obstacle_at.is_some() && !ok {
            // the obstacle stays for `persist` failed attempts, then it is lifted
            let fails = acked.iter().filter(|a| !**a).count();
            if fails >= case.persist {
                let o = obstacle_at.as_ref().unwrap();
                if std::fs::symlink_metadata(o).map_or(false, |m| m.file_type().is_symlink() || m.is_file()) {
                    let _ = std::fs::remove_file(o);
                } else {
                    let _ = std::fs::remove_dir_all(o);
                }
                fault_lifted_at = Some(i);
            }
        }
        if scripted_now && fault_lifted_at.is_none() {
            fault_lifted_at = Some(i);
        }
        if injected_now && state.lock().unwrap().failures_left == 0 && fault_lifted_at.is_none() {
            fault_lifted_at = Some(i);
        }
        // recovery: once the fault is lifted every append succeeds, and a size trigger performs the pending rotation
        if let Some(l) = fault_lifted_at {
            if i > l {
                ensure!(ok, "C08:no-recovery", "{}: the obstruction is gone but the append still fails", what);
                if let TrigSpec::Size(limit) = &case.trigger {
                    let sz = std::fs::metadata(&active).map(|m| m.len()).unwrap_or(0);
                    ensure!(sz <= *limit || !active.exists(), "C08:pending-rotation-not-performed", "{}: active file has {} bytes > limit {} after a successful append following the fault", what, sz, limit);
                }
            }
        }
    }
    let st = state.lock().unwrap();
    let report = Report { rotations: st.rotation, steps_per_rotation: count, seen: st.seen.clone() };
    let image_taken = st.image_taken;
    drop(st);
    drop(app);
    // crash point: restart on the crash image (same mode) and run the continuation
    if let (Fault::Crash { .. }, true) = (&f.fault, image_taken) {
        steps::set_step_callback(None);
        let (mut att, mut ack) = crash_attempted.unwrap();
        let what = format!("crash image of {:?}", f.fault);
        // (2) on the image itself
        check_stream(image, &case.roller, &image_active, &att, &ack, &what)?;
        // every file of the image parses; now restart
        let before_restart = managed(image, &case.roller, &image_active);
        app = build(image, case, &Fault::None, &scripted_failures)?;
        if !case.append_mode {
            // truncate mode discards the active file's content at open: those records leave the reference
            let active_recs = before_restart.iter().find(|(n, _)| n == "active").map(|(_, c)| parse_stream(c).unwrap_or_default()).unwrap_or_default();
            for r in &active_recs {
                if let Some(p) = att.iter().position(|a| a == r) {
                    att.remove(p);
                    ack.remove(p);
                }
            }
        }
        let mut s2 = 1_000_000u32;
        for (i, (len, dt)) in case.continuation.iter().enumerate() {
            now += *dt as i64;
            clock::set_now(Some((now, 0)));
            let before = managed(image, &case.roller, &image_active);
            let text = record_text(0, s2, *len);
            att.push(RecId { tid: 0, seq: s2, len: *len });
            s2 += 1;
            let what = format!("restart on the crash image of {:?}, append #{}", f.fault, i);
            match catch(|| append_msg(&app, &text)) {
                Err(p) => return fail("C08:panic", format!("{}: append panicked: {}", what, p)),
                Ok(Err(e)) => return fail("C08:no-recovery", format!("{}: a restarted appender cannot write: {}", what, e)),
                Ok(Ok(())) => ack.push(true),
            }
            obs.sub_evals += 1;
            let after = managed(image, &case.roller, &image_active);
            check_retained(&before, &after, &case.roller, &what)?;
            check_stream(image, &case.roller, &image_active, &att, &ack, &what)?;
        }
        drop(app);
    }
    let _ = pre_process;
    Ok(report)
}

pub fn check_faulted(tmp: &Path, f: &Faulted, obs: &mut Obs) -> CaseResult {
    let rep = execute(tmp, f, obs)?;
    let count = window_count(&f.case.roller);
    let shift_step = match &f.fault {
        Fault::Error { s, .. } | Fault::Crash { s, .. } => (*s as u32) < count.saturating_sub(1),
        Fault::Obstacle { off, .. } | Fault::DanglingDir { off, .. } | Fault::FileAtDir { off, .. } | Fault::ForeignDir { off, .. } => *off > 0,
        Fault::FullDevice { .. } | Fault::FailAfterMove { .. } => true,
        Fault::None => false,
    };
    let pre = matches!(f.case.trigger, TrigSpec::Scripted(_, true) | TrigSpec::Time(..));
    obs.nontrivial = f.fault != Fault::None && ((shift_step && count >= 2) || !f.case.append_mode || pre);
    obs.class(match &f.fault {
        Fault::None => "fault=none(dry run)",
        Fault::Error { .. } => "fault=injected-error",
        Fault::Crash { .. } => "fault=crash-image",
        Fault::Obstacle { .. } => "fault=obstacle-directory",
        Fault::FullDevice { .. } => "fault=archive-on-a-full-device",
        Fault::FailAfterMove { .. } => "fault=roller-archives-then-reports-failure",
        Fault::DanglingDir { .. } => "fault=dangling-symlink-directory",
        Fault::FileAtDir { .. } => "fault=regular-file-at-slot-directory",
        Fault::ForeignDir { .. } => "fault=slot-directory-is-a-link-into-procfs",
    });
    obs.class_if(shift_step, "fault-at-shift-step");
    obs.class_if(!f.case.append_mode, "truncate-mode");
    obs.class_if(f.case.cross_device && other_fs_dir(tmp).is_some(), "active-file-on-another-filesystem");
    obs.class_if(pre, "pre-process-trigger");
    obs.class(format!("count={}", count));
    obs.class(format!("rotations={}", rep.rotations.min(8)));
    Ok(())
}

/// Expands one history into all of its faulted executions.
pub fn expand(tmp: &Path, case: &Case) -> Result<Vec<Faulted>, Failure> {
    let mut o = Obs::default();
    let dry = Faulted { case: case.clone(), fault: Fault::None };
    let rep = execute(tmp, &dry, &mut o)?;
    let mut pairs: Vec<(usize, usize)> = rep.seen.clone();
    pairs.sort();
    pairs.dedup();
    let mut out = vec![dry];
    for (r, s) in pairs {
        out.push(Faulted { case: case.clone(), fault: Fault::Error { r, s } });
        out.push(Faulted { case: case.clone(), fault: Fault::Crash { r, s } });
    }
    for r in 0..rep.rotations.min(4) {
        out.push(Faulted { case: case.clone(), fault: Fault::FailAfterMove { r } });
    }
    // hook-free cross-check on plain (rename-based) patterns: obstacle at the destination of the final move / first shift
    if let RollSpec::Fixed { count, pattern, .. } = &case.roller {
        if *count == 1 && (pattern.ends_with(".gz") || pattern.ends_with(".zst")) && full_device_ok() {
            for r in 0..rep.rotations.min(3) {
                out.push(Faulted { case: case.clone(), fault: Fault::FullDevice { r } });
            }
        }
        if *count == 1 && (pattern.ends_with(".gz") || pattern.ends_with(".zst")) {
            // a non-empty directory at the only archive name (no shift carries it away): the compressed archive cannot be
            // put in place, at whichever moment the roller tries to
            for r in 0..rep.rotations.min(3) {
                out.push(Faulted { case: case.clone(), fault: Fault::Obstacle { r, off: 0 } });
            }
        }
        if !pattern.ends_with(".gz") && !pattern.ends_with(".zst") {
            // rotation r is the first one to use index base+r: an obstacle there fails its first step
            for r in 0..rep.rotations.min(*count as usize) {
                out.push(Faulted { case: case.clone(), fault: Fault::Obstacle { r, off: r as u32 } });
                if pattern.contains("{}/") {
                    // the roller prepares every slot directory of the window ahead of use: any of them may be in the way
                    for off in (r as u32)..*count {
                        out.push(Faulted { case: case.clone(), fault: Fault::DanglingDir { r, off } });
                        out.push(Faulted { case: case.clone(), fault: Fault::FileAtDir { r, off } });
                        if Path::new("/proc/self").is_dir() {
                            out.push(Faulted { case: case.clone(), fault: Fault::ForeignDir { r, off } });
                        }
                    }
                }
            }
        }
    }
    Ok(out)
}

pub fn check_history(run: &Run, tmp: &Path, case: &Case, obs: &mut Obs) -> CaseResult {
    let all = expand(tmp, case)?;
    let mut nontrivial = false;
    for f in &all {
        let mut o = Obs::default();
        let r = check_faulted(tmp, f, &mut o);
        obs.sub_evals += 1 + o.sub_evals;
        nontrivial |= o.nontrivial;
        for c in o.classes {
            obs.classes.push(c);
        }
        if let Err(fl) = r {
            if run.is_known(&fl.sig) {
                obs.class(format!("known:{}", fl.sig));
                continue;
            }
            // report the single faulted execution (the replayable unit), then fail the history for shrinking
            return Err(Failure { sig: fl.sig, msg: format!("{} :: fault {:?}", fl.msg, f.fault) });
        }
    }
    obs.nontrivial = nontrivial;
    obs.sample = Some(serde_json::json!({"history": case, "faulted_executions": all.len()}));
    Ok(())
}

// ---- the appender as part of the installed global logger -----------------------------------------------------------

/// The rolling appender is the root appender of the process's global logger (child process); the slot of its single
/// archive is obstructed, so rotations fail for real. Whatever the rotation code reports about that failure - and
/// through whichever channel - the append has to come back with the error, and logging has to go on.
#[derive(Serialize, Deserialize, Debug, Clone)]
pub struct Global {
    pub dir: String,
    pub limit: u64,
    pub count: u32,
    pub gz: bool,
    pub records: Vec<usize>,
}

pub fn global_strategy() -> impl Strategy<Value = (u64, u32, bool, Vec<usize>)> {
    (30u64..200, 1u32..=2, prop::bool::ANY, prop::collection::vec(prop_oneof![0usize..60, 100usize..300], 4..=10))
}

pub fn global_child(g: &Global, obs: &mut Obs) -> CaseResult {
    use log4rs::config::{Appender, Config, Root};
    let dir = Path::new(&g.dir);
    let active = dir.join("active.log");
    let pattern = if g.gz { "slot.{}.log.gz" } else { "slot.{}.log" };
    let roller = RollSpec::Fixed { base: 0, count: g.count, pattern: pattern.into() };
    // every slot of the window is a non-empty directory: the final step of each rotation fails
    for o in 0..g.count {
        let p = archive_path(dir, &roller, o).unwrap();
        std::fs::create_dir_all(p.join("obstacle")).unwrap();
        std::fs::write(p.join("obstacle/x"), b"x").unwrap();
    }
    let policy = make_policy(dir, &TrigSpec::Size(g.limit), &roller).map_err(|e| Failure { sig: "C08:build".into(), msg: e.to_string() })?;
    let app = build_appender(&active, true, &None, policy).map_err(|e| Failure { sig: "C08:build".into(), msg: e.to_string() })?;
    let errors = Arc::new(Mutex::new(0usize));
    let e2 = errors.clone();
    let config = Config::builder().appender(Appender::builder().build("roll", Box::new(app))).build(Root::builder().appender("roll").build(log::LevelFilter::Trace)).unwrap();
    log4rs::config::init_config_with_err_handler(config, Box::new(move |_e| *e2.lock().unwrap() += 1)).map_err(|e| Failure { sig: "C08:init".into(), msg: e.to_string() })?;
    let (tx, rx) = std::sync::mpsc::channel::<usize>();
    let lens = g.records.clone();
    let d2 = dir.to_path_buf();
    let r2 = roller.clone();
    let count = g.count;
    std::thread::spawn(move || {
        for (i, l) in lens.iter().enumerate() {
            log::info!(target: "t", "{}", record_text(0, i as u32, *l));
            let _ = tx.send(i);
            if i + 1 == lens.len() / 2 {
                // the obstruction goes away half-way through
                for o in 0..count {
                    let _ = std::fs::remove_dir_all(archive_path(&d2, &r2, o).unwrap());
                }
            }
        }
    });
    let mut done = 0;
    while done < g.records.len() {
        match rx.recv_timeout(std::time::Duration::from_secs(20)) {
            Ok(_) => done += 1,
            Err(_) => {
                return fail(
                    "C08:append-never-returns",
                    format!("record #{} logged through the installed logger (root appender = rolling file appender whose archive slot is obstructed, limit {} bytes, window {}{}) has not come back after 20 s: the failing append neither returned its error nor let logging continue", done, g.limit, g.count, if g.gz { ", gzip" } else { "" }),
                )
            }
        }
        obs.sub_evals += 1;
    }
    log::logger().flush();
    // nothing acknowledged is lost: archives oldest-to-newest then the active file hold the records in order
    let mut all = vec![];
    for o in (0..g.count).rev() {
        let p = archive_path(dir, &roller, o).unwrap();
        if let Ok(raw) = std::fs::read(&p) {
            all.extend(decoded(&p.to_string_lossy(), &raw).map_err(|e| Failure { sig: "C08:archive-undecodable".into(), msg: e })?);
        }
    }
    all.extend(std::fs::read(&active).unwrap_or_default());
    let recs = parse_stream(&all).map_err(|off| Failure { sig: "C08:split-record".into(), msg: format!("archives + active file are not a concatenation of whole records (offset {} of {})", off, all.len()) })?;
    let seqs: Vec<u32> = recs.iter().map(|r| r.seq).collect();
    ensure!(seqs.windows(2).all(|w| w[0] < w[1]), "C08:reordered", "records out of order after obstructed rotations through the global logger: {:?}", seqs);
    ensure!(seqs.last().copied() == Some(g.records.len() as u32 - 1), "C08:lost-acked:active-content", "the last record is not in the active file: {:?}", seqs);
    obs.nontrivial = *errors.lock().unwrap() > 0;
    obs.class(format!("global-logger:rotation-errors-reported={}", (*errors.lock().unwrap()).min(3)));
    Ok(())
}

pub fn check_global(tmp: &Path, c: &(u64, u32, bool, Vec<usize>), obs: &mut Obs) -> CaseResult {
    let dir = scratch(tmp, "c08g");
    let g = Global { dir: dir.display().to_string(), limit: c.0, count: c.1, gz: c.2, records: c.3.clone() };
    let out = call_child(tmp, "c08global", &g, &[], std::time::Duration::from_secs(120));
    let _ = std::fs::remove_dir_all(&dir);
    absorb(out, obs)
}

pub fn run(run: &Run) {
    let tmp = run.tmp.clone();
    let t5 = tmp.clone();
    let g = move |c: &(u64, u32, bool, Vec<usize>), o: &mut Obs| check_global(&t5, c, o);
    run.run_replays::<(u64, u32, bool, Vec<usize>)>("global-logger", &g);
    run.search("global-logger", run.tier.pick(6, 300), global_strategy(), &g);
    let t2 = tmp.clone();
    let single = move |f: &Faulted, o: &mut Obs| check_faulted(&t2, f, o);
    run.run_replays::<Faulted>("faulted", &single);
    let f = |c: &Case, o: &mut Obs| check_history(run, &tmp, c, o);
    run.search("history", run.tier.pick(80, 3_000), strategy(), &f);
}

pub fn replay(part: &str, case: serde_json::Value) -> Option<CaseResult> {
    let tmp = std::env::temp_dir().join(format!("lv-replay-{}", std::process::id()));
    std::fs::create_dir_all(&tmp).ok()?;
    let r = match part {
        "global-logger" => Some(check_global(&tmp, &serde_json::from_value(case).ok()?, &mut Obs::default())),
        "faulted" => Some(check_faulted(&tmp, &serde_json::from_value(case).ok()?, &mut Obs::default())),
        "history" => {
            let c: Case = serde_json::from_value(case).ok()?;
            let mut res = Ok(());
            match expand(&tmp, &c) {
                Ok(all) => {
                    for f in &all {
                        if let Err(e) = check_faulted(&tmp, f, &mut Obs::default()) {
                            res = Err(Failure { sig: e.sig, msg: format!("{} :: fault {:?}", e.msg, f.fault) });
                            break;
                        }
                    }
                }
                Err(e) => res = Err(e),
            }
            Some(res)
        }
        _ => None,
    };
    let _ = std::fs::remove_dir_all(&tmp);
    r
}

pub fn meta() -> EvidenceMeta {
    EvidenceMeta {
        level: "fault_enumeration",
        rule: "cases = generated histories (trigger: size / scripted pre-processing / scripted post-processing / time via the guarded clock; fixed window base in {0,1,7, u32::MAX-count+1}, count 1-6, plain / directory-component / .gz pattern / long directory names outside ASCII; append or truncate mode; 5-40 appends of self-delimiting records; obstruction persisting for 1-3 rotation attempts; continuation of 3-25 appends). Each history is first run dry to learn its rotations, then EVERY (rotation, step) pair - each archive shift and the final move/compress - is enumerated twice through hook H2: as an injected error (rotate aborts exactly there) and as a crash point (directory image, restart on the image in the same mode, continuation); plus hook-free obstructions: a non-empty directory at the destination of the final move / of the first shift, and (directory patterns) a dangling symlink, a regular file or a link into procfs (rename fails with EXDEV, the copy fallback in its own way) in place of any slot directory of the window. Part global-logger (child process per case): the rolling appender is the root appender of the installed global logger, every archive slot is a non-empty directory until half-way through; every record logged through the macros must come back (20 s watchdog per record: a rotation failure that is reported through the logger itself must not dead-lock the appender), in order, none lost. evaluations counts histories, oracle_evaluations_inside_cases counts faulted executions and appends. Oracle after every append and on every crash image: failing append returns Err and never panics; every managed file parses into whole records; archives by descending index then the active file yield an in-order duplicate-free stream that is gap-free w.r.t. acknowledged records; every chunk on disk before the operation except the top-index archive is still present byte-for-byte (active chunk may have grown); after the fault is lifted every append succeeds and a size trigger performs the pending rotation. Further hook-free faults: the archive on a full device (name linked to /dev/full) and a non-empty directory at the only archive name for compressing patterns with a window of one; a roller that archives the file and only then reports a failure (rotation r of the history). non-trivial = a history with a fault at a shift step of a window >= 2, or any fault in truncate mode, or a pre-processing trigger".into(),
        assumptions: vec![
            "crash = process death with an intact page cache (directory image at hook points between steps); fsync/power loss and mid-compression crashes are not modelled".into(),
            "foreground rotation only (the statement does not quantify over background rotation)".into(),
            "'would still retain' is read per rotation attempt: relative to the directory state before that attempt, only the top-index archive may disappear".into(),
        ],
        mutants_caught: vec![],
    }
}
