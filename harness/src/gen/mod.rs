pub mod cfgtree;
