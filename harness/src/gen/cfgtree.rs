//! Generator of logical routing configurations (`cfgtree`) and of probe targets derived from them.

use crate::engine::pick;
use crate::model::route::{LCfg, LLogger};
use proptest::prelude::*;
use serde::{Deserialize, Serialize};

/// Component alphabet: siblings share a textual but not a component prefix (a / ab / aa).
macro_rules! c16 {
    ($s:expr) => {
        concat!($s, $s, $s, $s, $s, $s, $s, $s, $s, $s, $s, $s, $s, $s, $s, $s)
    };
}
/// (the last component is 300 characters long; "a" is listed more than once to keep shared prefixes likely)
pub const COMPS: [&str; 11] = ["a", "b", "ab", "aa", "ba", "é", "a", "b", "\u{43a}", "caf\u{e9}", concat!("long", c16!(c16!("n")), c16!("mm"), "12345678")];
pub const APPENDERS: [&str; 5] = ["A0", "A1", "A2", "A3", "A4"];

#[derive(Debug, Clone, Serialize, Deserialize)]
pub struct RawLogger {
    pub kind: u8,
    pub parent: u16,
    pub comps: Vec<u16>,
    pub level: u8,
    pub additive: bool,
    pub refs: Vec<u16>,
}

#[derive(Debug, Clone, Serialize, Deserialize)]
pub struct RawCfg {
    pub n_appenders: usize,
    pub root_level: u8,
    pub root_refs: Vec<u16>,
    pub loggers: Vec<RawLogger>,
}

pub fn raw_logger() -> impl Strategy<Value = RawLogger> {
    (
        0u8..20,
        any::<u16>(),
        prop::collection::vec(any::<u16>(), 1..=4),
        0u8..6,
        prop::bool::weighted(0.6),
        prop::collection::vec(any::<u16>(), 0..=3),
    )
        .prop_map(|(kind, parent, comps, level, additive, refs)| RawLogger {
            kind,
            parent,
            comps,
            level,
            additive,
            refs,
        })
}

pub fn raw_cfg(max_loggers: usize) -> impl Strategy<Value = RawCfg> {
    (
        1usize..=5,
        0u8..6,
        prop::collection::vec(any::<u16>(), 0..=3),
        prop::collection::vec(raw_logger(), 0..=max_loggers),
    )
        .prop_map(|(n_appenders, root_level, root_refs, loggers)| RawCfg {
            n_appenders,
            root_level,
            root_refs,
            loggers,
        })
}

fn comp(i: u16) -> &'static str {
    *pick(&COMPS[..], i)
}

/// Resolves the raw draw into a valid logical configuration (unique well-formed names).
pub fn resolve(raw: &RawCfg) -> LCfg {
    let apps: Vec<String> = APPENDERS[..raw.n_appenders]
        .iter()
        .map(|s| s.to_string())
        .collect();
    let refs = |r: &Vec<u16>| -> Vec<String> { r.iter().map(|i| pick(&apps, *i).clone()).collect() };
    let mut loggers: Vec<LLogger> = vec![];
    for rl in &raw.loggers {
        let names: Vec<String> = loggers.iter().map(|l| l.name.clone()).collect();
        let path = |cs: &[u16]| cs.iter().map(|c| comp(*c)).collect::<Vec<_>>().join("::");
        let name = match rl.kind {
            // extend an existing path by one component (descendant)
            8..=11 if !names.is_empty() => {
                format!("{}::{}", pick(&names, rl.parent), comp(rl.comps[0]))
            }
            // skip a level: implied intermediate
            12..=14 if !names.is_empty() => {
                let k = rl.comps.len().min(3).max(2);
                format!("{}::{}", pick(&names, rl.parent), path(&rl.comps[..k.min(rl.comps.len())]))
            }
            // textual-prefix sibling: last component extended by a letter
            15..=17 if !names.is_empty() => {
                let suffix = if rl.comps[0] & 1 == 0 { "a" } else { "b" };
                format!("{}{}", pick(&names, rl.parent), suffix)
            }
            // leading "::" (an empty first component; accepted by the name check)
            18 => format!("::{}", path(&rl.comps[..1])),
            // deep fresh path (implied intermediates everywhere)
            19 => {
                let mut cs = rl.comps.clone();
                cs.push(rl.parent);
                path(&cs)
            }
            _ => path(&rl.comps[..rl.comps.len().min(3)]),
        };
        if loggers.iter().any(|l| l.name == name) {
            continue;
        }
        loggers.push(LLogger {
            name,
            level: rl.level,
            additive: rl.additive,
            appenders: refs(&rl.refs),
        });
    }
    LCfg {
        appenders: apps.clone(),
        root_level: raw.root_level,
        root_appenders: refs(&raw.root_refs),
        loggers,
    }
}

pub fn lcfg(max_loggers: usize) -> impl Strategy<Value = LCfg> {
    raw_cfg(max_loggers).prop_map(|r| resolve(&r))
}

/// Probe targets derived from the configuration (kind, logger index, extra).
pub fn raw_targets(n: std::ops::RangeInclusive<usize>) -> impl Strategy<Value = Vec<(u8, u16, u16)>> {
    prop::collection::vec((0u8..12, any::<u16>(), any::<u16>()), n)
}

pub fn resolve_target(cfg: &LCfg, kind: u8, li: u16, extra: u16) -> String {
    if cfg.loggers.is_empty() {
        return match kind {
            0..=3 => comp(extra).to_string(),
            4..=6 => format!("{}::{}", comp(li), comp(extra)),
            7 => String::new(),
            8 => "::".to_string(),
            _ => "zzz::q".to_string(),
        };
    }
    let name = &pick(&cfg.loggers, li).name;
    match kind {
        0 => name.clone(),
        1 => format!("{}::x", name),
        2 => format!("{}::", name),
        3 => format!("{}x", name),
        4 => {
            // proper component prefix
            match name.rfind("::") {
                Some(i) => name[..i].to_string(),
                None => String::new(),
            }
        }
        5 => {
            // one ':' inserted or removed
            if name.contains("::") {
                if extra & 1 == 0 {
                    name.replacen("::", ":::", 1)
                } else {
                    name.replacen("::", ":", 1)
                }
            } else {
                format!("{}:{}", name, comp(extra))
            }
        }
        6 => format!("::{}", name),
        7 => String::new(),
        8 => "zzz".to_string(),
        9 | 10 => format!("{}::{}", name, comp(extra)),
        _ => format!("{}::{}::{}", name, comp(extra), comp(extra.rotate_left(5))),
    }
}

/// Structural facts about a configuration used for classification.
pub struct Shape {
    pub implied_intermediate: bool,
    pub additive_false: bool,
    pub duplicate_attachment: bool,
    pub textual_sibling: bool,
    pub max_depth: usize,
}

pub fn shape(cfg: &LCfg) -> Shape {
    use crate::model::route::components;
    let names: Vec<Vec<String>> = cfg.loggers.iter().map(|l| components(&l.name)).collect();
    let mut implied = false;
    for n in &names {
        for k in 1..n.len() {
            if !names.iter().any(|m| m[..] == n[..k]) {
                implied = true;
            }
        }
    }
    let mut textual = false;
    for a in &cfg.loggers {
        for b in &cfg.loggers {
            if a.name != b.name
                && b.name.starts_with(&a.name)
                && !b.name[a.name.len()..].starts_with("::")
            {
                textual = true;
            }
        }
    }
    let dup = |v: &Vec<String>| {
        let mut s = v.clone();
        s.sort();
        s.windows(2).any(|w| w[0] == w[1])
    };
    Shape {
        implied_intermediate: implied,
        additive_false: cfg.loggers.iter().any(|l| !l.additive),
        duplicate_attachment: dup(&cfg.root_appenders) || cfg.loggers.iter().any(|l| dup(&l.appenders)),
        textual_sibling: textual,
        max_depth: names.iter().map(|n| n.len()).max().unwrap_or(0),
    }
}


/// Pairs of distinct name components that a sloppy key for the logger tree would conflate: published collisions of
/// common string hashes (FNV-1a 64/32, FNV-1 32, Java's String.hashCode, djb2, djb2a, CRC-32 - each verified when the
/// list was written), anagrams (order-insensitive sums), and names that are equal after case folding, Unicode
/// normalisation, trimming or truncation at a NUL. Generated search cannot find a 64-bit hash collision; a fixed list
/// can at least cover the hashes people actually reach for.
pub fn lookalike_pairs() -> Vec<(&'static str, &'static str)> {
    vec![
        ("8yn0iYCKYHlIj4-BwPqk", "GReLUrM4wMqfg9yzV3KQ"),
        ("gMPflVXtwGDXbIhP73TX", "LtHf1prlU1bCeYZEdqWf"),
        ("costarring", "liquid"),
        ("declinate", "macallums"),
        ("altarage", "zinke"),
        ("altarages", "zinkes"),
        ("creamwove", "quists"),
        ("Aa", "BB"),
        ("plumless", "buckeroo"),
        ("hetairas", "mentioner"),
        ("heliotropes", "neurospora"),
        ("depravement", "serafins"),
        ("stylist", "subgenera"),
        ("joyful", "synaphea"),
        ("redescribed", "urites"),
        ("dram", "vivency"),
        ("playwright", "snush"),
        ("ab", "ba"),
        ("listen", "silent"),
        ("A", "a"),
        ("Module", "module"),
        ("\u{e9}", "e\u{301}"),
        ("a", " a"),
        ("a", "a "),
        ("a", "a\u{0}"),
        ("a\u{0}b", "a\u{0}c"),
        ("\u{fb01}", "fi"),
        ("\u{df}", "ss"),
        ("\u{212a}", "K"),
        ("a", "\u{430}"),
        ("x1", "x01"),
        ("0", "00"),
        ("file", "file\n"),
        ("file", "file\r\n"),
        ("file", "file\r"),
        ("file", "file\t"),
        ("file", "\u{feff}file"),
        ("file", "file\u{200b}"),
    ]
}

/// Configuration in which the two components name sibling loggers (at the top and below `p`) with different levels,
/// appenders and additivity, plus the probe targets that tell them apart.
pub fn lookalike_cfg(x: &str, y: &str, flip: bool) -> (LCfg, Vec<String>) {
    let (x, y) = if flip { (y, x) } else { (x, y) };
    let lg = |name: String, level: u8, additive: bool, app: &str| LLogger { name, level, additive, appenders: vec![app.to_string()] };
    let cfg = LCfg {
        appenders: APPENDERS[..4].iter().map(|s| s.to_string()).collect(),
        root_level: 2,
        root_appenders: vec!["A3".to_string()],
        loggers: vec![
            lg(x.to_string(), 5, false, "A0"),
            lg(y.to_string(), 1, true, "A1"),
            lg(format!("p::{}", x), 1, true, "A2"),
            lg(format!("p::{}", y), 4, false, "A0"),
            lg(format!("{}::c", y), 3, true, "A2"),
        ],
    };
    let targets = vec![x.to_string(), y.to_string(), format!("{}::c", x), format!("{}::c", y), format!("p::{}", x), format!("p::{}", y), format!("p::{}::d", y), "p".to_string()];
    (cfg, targets)
}


/// A family of `n` sibling loggers below `parent` ("" = below the root), every one with its own level, appender and
/// additivity, plus a grandchild below some of them; targets hit every sibling. (A node's children may be kept in a
/// small container that changes shape when it grows.)
pub fn sibling_family(parent: &str, n: usize) -> (LCfg, Vec<String>) {
    let pre = if parent.is_empty() { String::new() } else { format!("{}::", parent) };
    let mut loggers = vec![];
    if !parent.is_empty() {
        loggers.push(LLogger { name: parent.to_string(), level: 2, additive: true, appenders: vec!["A3".to_string()] });
    }
    let mut targets = vec![];
    for i in 0..n {
        let name = format!("{}s{}", pre, i);
        loggers.push(LLogger { name: name.clone(), level: (1 + (i * 7) % 5) as u8, additive: i % 3 != 0, appenders: vec![APPENDERS[i % 3].to_string()] });
        if i % 4 == 1 {
            loggers.push(LLogger { name: format!("{}::k", name), level: 5, additive: true, appenders: vec!["A4".to_string()] });
        }
        targets.push(name.clone());
        if i % 2 == 0 {
            targets.push(format!("{}::k", name));
        }
    }
    targets.push(format!("{}s", pre));
    targets.push(format!("{}s{}", pre, n));
    (LCfg { appenders: APPENDERS.iter().map(|s| s.to_string()).collect(), root_level: 1, root_appenders: vec!["A4".to_string()], loggers }, targets)
}
