//! C15 — runtime reconfiguration is atomic; the file reloader keeps the last good config.

use crate::child::*;
use crate::engine::*;
use crate::ensure;
use crate::glue::with_record;
use log::Log;
use log4rs::append::Append;
use log4rs::config::{Appender, Config, Deserializers, Root};
use proptest::prelude::*;
use serde::{Deserialize, Serialize};
use std::collections::BTreeMap;
use std::path::Path;
use std::sync::atomic::{AtomicBool, AtomicUsize, Ordering};
use std::sync::{Arc, Mutex};
use std::time::{Duration, SystemTime};

// =================================================================================================
// Part A — atomic swap

type Deliveries = Arc<Mutex<Vec<(usize, usize, u64)>>>; // (generation, appender position, record id)

struct Reenter {
    /// report an error after the swap (the record in flight belongs to the old configuration, and so does its error)
    fail_after_swap: bool,
    armed: AtomicBool,
    handle: Mutex<Option<log4rs::Handle>>,
    next: Box<dyn Fn() -> Config + Send + Sync>,
    returned: AtomicBool,
    /// after the swap has returned, still inside `append`, log one more record (id 7) through this logger
    nested: Mutex<Option<Arc<log4rs::Logger>>>,
}

struct GenCap {
    gen: usize,
    pos: usize,
    sink: Deliveries,
    reenter: Option<Arc<Reenter>>,
}

impl std::fmt::Debug for GenCap {
    fn fmt(&self, f: &mut std::fmt::Formatter<'_>) -> std::fmt::Result {
        write!(f, "GenCap({},{})", self.gen, self.pos)
    }
}

impl Append for GenCap {
    fn append(&self, record: &log::Record) -> anyhow::Result<()> {
        let id: u64 = format!("{}", record.args()).parse().unwrap_or(u64::MAX);
        self.sink.lock().unwrap().push((self.gen, self.pos, id));
        if let Some(r) = &self.reenter {
            if r.armed.swap(false, Ordering::SeqCst) {
                // swap the configuration from inside a record's fan-out
                let h = r.handle.lock().unwrap().clone();
                if let Some(h) = h {
                    h.set_config((r.next)());
                    r.returned.store(true, Ordering::SeqCst);
                    let nested = r.nested.lock().unwrap().clone();
                    if let Some(l) = nested {
                        with_record("t", log::Level::Info, "7", |rec| l.log(rec));
                    }
                    if r.fail_after_swap {
                        anyhow::bail!("verif: failure after the re-entrant swap");
                    }
                }
            }
        }
        Ok(())
    }
    fn flush(&self) {}
}

#[derive(Serialize, Deserialize, Debug, Clone)]
pub struct Plan {
    /// number of appenders per generation
    pub fanout: Vec<usize>,
    /// declaration order seed per generation
    pub order: Vec<u16>,
    /// records per logging thread
    pub loggers: Vec<usize>,
    /// per reconfiguring thread: pause (in spins) between swaps
    pub swappers: Vec<u16>,
    /// threads that swap and then log themselves (own set_config returned => new generation)
    pub self_checkers: usize,
    /// per generation shape: the root (and with it everything) is switched off - a record routed under such a
    /// configuration reaches nobody, so any delivery tagged with it was admitted under a different configuration
    #[serde(default)]
    pub off: Vec<bool>,
}

fn make_config(gen: usize, m: usize, order: u16, sink: &Deliveries, reenter: Option<(usize, Arc<Reenter>)>) -> Config {
    make_config_at(gen, m, order, sink, reenter, log::LevelFilter::Trace)
}

fn make_config_at(gen: usize, m: usize, order: u16, sink: &Deliveries, reenter: Option<(usize, Arc<Reenter>)>, level: log::LevelFilter) -> Config {
    // positions are declared in a generated order so that index tables differ between generations
    let mut idx: Vec<usize> = (0..m).collect();
    let rot = (order as usize) % m.max(1);
    idx.rotate_left(rot);
    if order & 1 == 1 {
        idx.reverse();
    }
    let mut b = Config::builder();
    for p in &idx {
        let re = reenter.as_ref().and_then(|(pos, r)| if pos == p { Some(r.clone()) } else { None });
        b = b.appender(Appender::builder().build(format!("g{}a{}", gen, p), Box::new(GenCap { gen, pos: *p, sink: sink.clone(), reenter: re })));
    }
    let mut root = Root::builder();
    for p in 0..m {
        root = root.appender(format!("g{}a{}", gen, p));
    }
    b.build(root.build(level)).expect("valid configuration")
}

pub fn plan_strategy() -> impl Strategy<Value = Plan> {
    (
        prop::collection::vec(1usize..=5, 2..=6),
        prop::collection::vec(any::<u16>(), 6),
        prop::collection::vec(200usize..1500, 1..=6),
        prop::collection::vec(0u16..400, 1..=2),
        0usize..=2,
        prop::collection::vec(prop::bool::weighted(0.25), 6),
    )
        .prop_map(|(mut fanout, order, loggers, swappers, self_checkers, mut off)| {
            // the first shape stays on (the logger starts with it), and self-checking plans need every record delivered
            off[0] = false;
            if self_checkers > 0 {
                off.iter_mut().for_each(|o| *o = false);
            }
            // neighbours differ in fan-out
            for i in 1..fanout.len() {
                if fanout[i] == fanout[i - 1] {
                    fanout[i] = fanout[i] % 5 + 1;
                }
            }
            Plan { fanout, order, loggers, swappers, self_checkers, off }
        })
}

fn verify_deliveries(d: &[(usize, usize, u64)], fanout: &dyn Fn(usize) -> usize, what: &str) -> CaseResult {
    let mut by_id: BTreeMap<u64, Vec<(usize, usize)>> = BTreeMap::new();
    for (g, p, id) in d {
        by_id.entry(*id).or_default().push((*g, *p));
    }
    for (id, v) in &by_id {
        let g = v[0].0;
        ensure!(v.iter().all(|x| x.0 == g), "C15:mixed-generations", "{}: record {} was delivered under a mixture of configurations: {:?}", what, id, v);
        let mut pos: Vec<usize> = v.iter().map(|x| x.1).collect();
        pos.sort();
        let want: Vec<usize> = (0..fanout(g)).collect();
        ensure!(pos == want, "C15:incomplete-fanout", "{}: record {} under configuration {} reached appenders {:?}, that configuration attaches {:?}", what, id, g, pos, want);
    }
    Ok(())
}

pub fn check_plan(plan: &Plan, obs: &mut Obs) -> CaseResult {
    let sink: Deliveries = Arc::new(Mutex::new(vec![]));
    let k = plan.fanout.len();
    let fan = plan.fanout.clone();
    let ord = plan.order.clone();
    let s2 = sink.clone();
    let offs = plan.off.clone();
    let is_off = move |g: usize| offs.get(g % k).copied().unwrap_or(false);
    let is_off2 = is_off.clone();
    let mk = Arc::new(move |g: usize| make_config_at(g, fan[g % k], ord[g % ord.len()], &s2, None, if is_off2(g) { log::LevelFilter::Off } else { log::LevelFilter::Trace }));
    let logger = Arc::new(log4rs::Logger::new(mk(0)));
    let handle = logger.verif_handle();
    let stop = Arc::new(AtomicBool::new(false));
    let current_gen = Arc::new(AtomicUsize::new(0));
    let panicked = Arc::new(Mutex::new(None::<String>));
    let mut threads = vec![];
    // reconfiguring threads step through the family (generation numbers keep growing; shape = g mod k)
    // the "own set_config returned => new configuration" clause needs a single reconfiguring thread
    // (with several, a swap that was requested earlier may legitimately be installed later)
    let no_swappers: Vec<u16> = vec![];
    for pause in (if plan.self_checkers > 0 { &no_swappers } else { &plan.swappers }).iter() {
        let (handle, mk, stop, current_gen, pause) = (handle.clone(), mk.clone(), stop.clone(), current_gen.clone(), *pause);
        threads.push(std::thread::spawn(move || {
            while !stop.load(Ordering::SeqCst) {
                let g = current_gen.fetch_add(1, Ordering::SeqCst) + 1;
                handle.set_config(mk(g));
                for _ in 0..pause {
                    std::hint::spin_loop();
                }
                std::thread::yield_now();
            }
        }));
    }
    let mut log_threads = vec![];
    for (ti, n) in plan.loggers.iter().enumerate() {
        let (logger, n, panicked) = (logger.clone(), *n, panicked.clone());
        log_threads.push(std::thread::spawn(move || {
            install_quiet_panic_hook();
            for i in 0..n {
                let id = (ti as u64) << 32 | i as u64;
                if let Err(p) = catch(|| with_record("t", log::Level::Info, &id.to_string(), |r| logger.log(r))) {
                    *panicked.lock().unwrap() = Some(p);
                    return;
                }
            }
        }));
    }
    // self-checkers: swap, then log: the record must use a generation >= the one just installed
    let mut self_results = vec![];
    for ci in 0..plan.self_checkers.min(1) {
        let (handle, mk, logger, current_gen, sink) = (handle.clone(), mk.clone(), logger.clone(), current_gen.clone(), sink.clone());
        self_results.push(std::thread::spawn(move || -> Result<(), String> {
            for j in 0..200u64 {
                let g = current_gen.fetch_add(1, Ordering::SeqCst) + 1;
                handle.set_config(mk(g));
                let id = (1000 + ci as u64) << 32 | j;
                if let Err(p) = catch(|| with_record("t", log::Level::Info, &id.to_string(), |r| logger.log(r))) {
                    return Err(format!("PANIC log() panicked right after set_config returned: {}", p));
                }
                let d = sink.lock().unwrap();
                let gens: Vec<usize> = d.iter().filter(|x| x.2 == id).map(|x| x.0).collect();
                if gens.iter().any(|x| *x != g) {
                    return Err(format!("a record logged after set_config(generation {}) returned was routed under generation {:?}", g, gens));
                }
            }
            Ok(())
        }));
    }
    for t in log_threads {
        let _ = t.join();
    }
    let mut self_err = None;
    for t in self_results {
        match t.join() {
            Ok(Ok(())) => {}
            Ok(Err(e)) => self_err = Some(e),
            Err(_) => self_err = Some("self-checker thread panicked".into()),
        }
    }
    stop.store(true, Ordering::SeqCst);
    for t in threads {
        let _ = t.join();
    }
    if let Some(p) = panicked.lock().unwrap().take() {
        return fail("C15:panic", format!("log() panicked while the configuration was being replaced: {}", p));
    }
    if let Some(e) = self_err {
        return fail(if e.starts_with("PANIC") { "C15:panic" } else { "C15:stale-after-swap" }, e);
    }
    let d = sink.lock().unwrap().clone();
    let fanout = plan.fanout.clone();
    if let Some(x) = d.iter().find(|x| is_off(x.0)) {
        return fail("C15:routed-under-a-configuration-that-rejects-it", format!("record {} was delivered to appender {} of configuration {} whose root level is Off: it was admitted under one configuration and routed under another", x.2, x.1, x.0));
    }
    verify_deliveries(&d, &move |g| fanout[g % k], "concurrent plan")?;
    let total: usize = plan.loggers.iter().sum::<usize>() + plan.self_checkers.min(1) * 200;
    let ids: std::collections::BTreeSet<u64> = d.iter().map(|x| x.2).collect();
    let any_off = plan.off.iter().take(k).any(|o| *o);
    ensure!(ids.len() == total || (any_off && ids.len() < total), "C15:lost-record", "{} records logged, {} delivered", total, ids.len());
    obs.class_if(any_off, "some-configurations-switch-everything-off");
    let swaps = current_gen.load(Ordering::SeqCst);
    let gens: std::collections::BTreeSet<usize> = d.iter().map(|x| x.0).collect();
    obs.sub_evals += total as u64;
    obs.nontrivial = gens.len() >= 3;
    obs.class(format!("generations-observed={}", gens.len().min(20)));
    obs.class(format!("swaps>={}", if swaps >= 1000 { 1000 } else if swaps >= 100 { 100 } else { 1 }));
    Ok(())
}

#[derive(Serialize, Deserialize, Debug, Clone)]
pub struct Reentrant {
    pub m_old: usize,
    pub m_new: usize,
    pub position: usize,
    pub order: u16,
    #[serde(default)]
    pub fail_after_swap: bool,
    /// the swapping appender logs one more record after set_config has returned, still inside append
    #[serde(default)]
    pub nested_after_swap: bool,
}

pub fn check_reentrant(c: &Reentrant, obs: &mut Obs) -> CaseResult {
    let sink: Deliveries = Arc::new(Mutex::new(vec![]));
    let (s2, m_new, order) = (sink.clone(), c.m_new, c.order);
    let re = Arc::new(Reenter { fail_after_swap: c.fail_after_swap, armed: AtomicBool::new(false), handle: Mutex::new(None), next: Box::new(move || make_config(1, m_new, order.rotate_left(3), &s2, None)), returned: AtomicBool::new(false), nested: Mutex::new(None) });
    let pos = c.position % c.m_old;
    let handled: Arc<Mutex<Vec<String>>> = Arc::new(Mutex::new(vec![]));
    let h2 = handled.clone();
    let logger = log4rs::Logger::new_with_err_handler(make_config(0, c.m_old, c.order, &sink, Some((pos, re.clone()))), Box::new(move |e: &anyhow::Error| h2.lock().unwrap().push(e.to_string())));
    *re.handle.lock().unwrap() = Some(logger.verif_handle());
    let logger = Arc::new(logger);
    if c.nested_after_swap {
        *re.nested.lock().unwrap() = Some(logger.clone());
    }
    // an ordinary record first
    if let Err(p) = catch(|| with_record("t", log::Level::Info, "1", |r| logger.log(r))) {
        return fail("C15:panic", format!("log() panicked: {}", p));
    }
    re.armed.store(true, Ordering::SeqCst);
    let r = catch(|| with_record("t", log::Level::Info, "2", |r| logger.log(r)));
    if let Err(p) = r {
        return fail("C15:panic", format!("set_config from inside append (fan-out position {} of {}) panicked: {}", pos, c.m_old, p));
    }
    ensure!(re.returned.load(Ordering::SeqCst), "C15:reentrant-not-run", "the re-entrant appender was not reached");
    if c.fail_after_swap {
        // the record was dispatched under the old configuration: its error goes to that configuration's handler, once
        let got = handled.lock().unwrap().clone();
        ensure!(got.len() == 1 && got[0].contains("failure after the re-entrant swap"), "C15:error-handler-after-swap", "an appender failed while handling a record during which the configuration was swapped: the error handler configured with the dispatching logger saw {:?}, expected exactly that one error", got);
    }
    if let Err(p) = catch(|| with_record("t", log::Level::Info, "3", |r| logger.log(r))) {
        return fail("C15:panic", format!("the record after a re-entrant swap (old fan-out {}, new fan-out {}) panicked: {}", c.m_old, c.m_new, p));
    }
    let d = sink.lock().unwrap().clone();
    let (m_old, m_new) = (c.m_old, c.m_new);
    verify_deliveries(&d, &move |g| if g == 0 { m_old } else { m_new }, "re-entrant plan")?;
    let gen_of = |id: u64| d.iter().find(|x| x.2 == id).map(|x| x.0);
    ensure!(gen_of(2) == Some(0), "C15:reentrant-inflight", "the record in flight during the re-entrant swap was routed under {:?}, expected entirely the old configuration", gen_of(2));
    ensure!(gen_of(3) == Some(1), "C15:stale-after-swap", "the record after the re-entrant swap was routed under {:?}, expected the new configuration", gen_of(3));
    if c.nested_after_swap {
        ensure!(gen_of(7) == Some(1), "C15:stale-after-swap", "the appender that swapped the configuration logged another record after set_config had returned (still inside append): it was routed under {:?}, expected the new configuration", gen_of(7));
        obs.class("nested-record-after-the-re-entrant-swap");
    }
    *re.nested.lock().unwrap() = None;
    obs.nontrivial = true;
    obs.class(format!("position={}/{}", pos, c.m_old));
    Ok(())
}

// =================================================================================================
// Part B — the reloader, single-stepped through the guarded API

#[derive(Debug, Deserialize)]
struct ProbeConfig {
    tag: String,
    /// building this appender takes that long (a syslog/database appender that connects when it is built)
    #[serde(default)]
    slow_ms: Option<u64>,
    /// while it is being built the appender logs a record of its own through the log macros ("connecting to ...")
    #[serde(default)]
    log_while_building: Option<String>,
}

struct ProbeDeserializer {
    sink: Arc<Mutex<Vec<(String, String)>>>,
    built: Arc<AtomicUsize>,
}

#[derive(Debug)]
struct ProbeAppender {
    tag: String,
    sink: Arc<Mutex<Vec<(String, String)>>>,
}

/// (tag of the delivering configuration, message) of records logged by appenders while they were being built
static BUILD_RECORDS: Mutex<Vec<(String, String)>> = Mutex::new(Vec::new());

impl Append for ProbeAppender {
    fn append(&self, record: &log::Record) -> anyhow::Result<()> {
        if record.target() == "reload-build" {
            BUILD_RECORDS.lock().unwrap().push((self.tag.clone(), record.args().to_string()));
            return Ok(());
        }
        self.sink.lock().unwrap().push((self.tag.clone(), record.target().to_string()));
        Ok(())
    }
    fn flush(&self) {}
}

impl log4rs::config::Deserialize for ProbeDeserializer {
    type Trait = dyn Append;
    type Config = ProbeConfig;
    fn deserialize(&self, config: ProbeConfig, _: &Deserializers) -> anyhow::Result<Box<dyn Append>> {
        self.built.fetch_add(1, Ordering::SeqCst);
        if let Some(ms) = config.slow_ms {
            std::thread::sleep(Duration::from_millis(ms));
        }
        if let Some(text) = &config.log_while_building {
            log::error!(target: "reload-build", "{}", text);
        }
        Ok(Box::new(ProbeAppender { tag: config.tag, sink: self.sink.clone() }))
    }
}

#[derive(Serialize, Deserialize, Debug, Clone, PartialEq)]
pub enum Edit {
    /// write variant v (text differs per variant) with a fresh mtime
    WriteValid(u8),
    /// same bytes, mtime forward
    Touch,
    Nop,
    WriteGarbage(u8),
    Delete,
    /// different bytes but the mtime is put back to the previous value (documented as undetectable)
    WriteSameMtime(u8),
    /// change only the refresh rate (seconds) of the current file content
    SetRate(u8),
    RemoveRate,
    /// different bytes with an mtime older than the previous one (a restored backup, `cp -p`, `mv` of a staged file)
    WriteOlderMtime(u8),
    /// a perfectly good variant plus a comment holding a byte that is not UTF-8: the file cannot be read as text
    WriteNonUtf8(u8),
    /// one save that removes the refresh rate AND says something else (variant v): the last word of the file is
    /// applied, then the polling ends
    WriteValidWithoutRate(u8),
    /// (documents whose last line sits inside a YAML block scalar) the final line break of the file is added or taken
    /// away - which changes the scalar, i.e. the configuration, although only the very end of the file differs
    ToggleFinalNewline,
}

#[derive(Serialize, Deserialize, Debug, Clone)]
pub struct ReloadCase {
    pub json: bool,
    pub initial: u8,
    pub initial_rate: u8,
    pub edits: Vec<Edit>,
    /// YAML documents end inside a block scalar (`tag: |` + last line without a line break): the very end of the file
    /// is significant
    #[serde(default)]
    pub tail: bool,
}

pub fn reload_strategy() -> impl Strategy<Value = ReloadCase> {
    let edit = prop_oneof![
        5 => (0u8..5).prop_map(Edit::WriteValid),
        2 => Just(Edit::Touch),
        2 => Just(Edit::Nop),
        3 => (0u8..4).prop_map(Edit::WriteGarbage),
        2 => Just(Edit::Delete),
        1 => (0u8..5).prop_map(Edit::WriteSameMtime),
        2 => (1u8..60).prop_map(Edit::SetRate),
        1 => Just(Edit::RemoveRate),
        2 => (0u8..5).prop_map(Edit::WriteOlderMtime),
        2 => (0u8..5).prop_map(Edit::WriteNonUtf8),
        2 => Just(Edit::ToggleFinalNewline),
        1 => (0u8..5).prop_map(Edit::WriteValidWithoutRate),
    ];
    (prop::bool::weighted(0.3), 0u8..5, 1u8..60, prop::collection::vec(edit, 1..=12), prop::bool::weighted(0.4)).prop_map(|(json, initial, initial_rate, edits, tail)| ReloadCase { json, initial, initial_rate, edits, tail: tail && !json })
}

/// Variant v: routing differs (which targets reach the probe and with which tag).
fn variant_text(v: u8, rate: Option<u8>, json: bool) -> String {
    let v = v % 5;
    let tag = format!("v{}", v);
    // variant-specific routing: root level and an extra logger
    let (root_level, logger) = match v {
        0 => ("info", None),
        1 => ("error", Some(("a::b", "trace", false))),
        2 => ("trace", Some(("a", "off", true))),
        3 => ("warn", Some(("a::b", "info", true))),
        _ => ("debug", Some(("zz", "trace", false))),
    };
    if json {
        let mut o = serde_json::json!({
            "appenders": {"p": {"kind": "probe", "tag": tag}},
            "root": {"level": root_level, "appenders": ["p"]},
        });
        if let Some(r) = rate {
            o["refresh_rate"] = serde_json::json!(format!("{} seconds", r));
        }
        if let Some((n, l, add)) = logger {
            o["loggers"] = serde_json::json!({n: {"level": l, "appenders": ["p"], "additive": add}});
        }
        serde_json::to_string_pretty(&o).unwrap()
    } else {
        let mut y = String::new();
        if let Some(r) = rate {
            y.push_str(&format!("refresh_rate: {} seconds\n", r));
        }
        y.push_str(&format!("appenders:\n  p:\n    kind: probe\n    tag: {}\nroot:\n  level: {}\n  appenders: [p]\n", tag, root_level));
        if let Some((n, l, add)) = logger {
            y.push_str(&format!("loggers:\n  \"{}\":\n    level: {}\n    appenders: [p]\n    additive: {}\n", n, l, add));
        }
        y
    }
}

/// The YAML form of variant v with the probe's tag as the last thing in the file, inside a block scalar: without a
/// final line break the tag is "vN", with one it is "vN\n".
fn variant_text_tail(v: u8, rate: Option<u8>, final_newline: bool) -> String {
    let plain = variant_text(v, rate, false);
    let tag = format!("v{}", v % 5);
    let head = format!("appenders:\n  p:\n    kind: probe\n    tag: {}\n", tag);
    let rest = plain.replace(&head, "");
    format!("{}appenders:\n  p:\n    kind: probe\n    tag: |\n      {}{}", rest, tag, if final_newline { "\n" } else { "" })
}

fn garbage(k: u8, json: bool) -> String {
    match (k % 4, json) {
        (0, _) => "{{{ not a document".to_string(),
        (1, false) => "root:\n  level: verbose-ish\n".to_string(),
        (1, true) => "{\"root\": {\"level\": 17}}".to_string(),
        (2, false) => "appenders: 5\n".to_string(),
        (2, true) => "{\"appenders\": 5}".to_string(),
        (_, false) => "root:\n  level: info\nunknown_top_level_key: 1\n".to_string(),
        (_, true) => "{\"root\": {\"level\": \"info\"}, \"unknown_top_level_key\": 1}".to_string(),
    }
}

/// What a probe of the active configuration shows: (tag, delivered targets among the probe set).
fn probe(logger: &log4rs::Logger, sink: &Arc<Mutex<Vec<(String, String)>>>) -> Vec<(String, String)> {
    sink.lock().unwrap().clear();
    for (t, l) in [("x", log::Level::Info), ("x", log::Level::Error), ("a::b", log::Level::Trace), ("a::c", log::Level::Debug), ("zz", log::Level::Trace)] {
        with_record(t, l, "probe", |r| logger.log(r));
    }
    let mut v: Vec<(String, String)> = sink.lock().unwrap().drain(..).collect();
    v.sort();
    v
}

fn expected_probe_nl(v: u8, nl: bool) -> Vec<(String, String)> {
    expected_probe(v).into_iter().map(|(tag, t)| (if nl { format!("{}\n", tag) } else { tag }, t)).collect()
}

fn expected_probe(v: u8) -> Vec<(String, String)> {
    // computed from the variant's meaning (levels and additivity), not from the implementation
    let tag = format!("v{}", v % 5);
    let mut out = vec![];
    let mut push = |t: &str, n: usize| {
        for _ in 0..n {
            out.push((tag.clone(), t.to_string()));
        }
    };
    match v % 5 {
        0 => {
            push("x", 2); // info + error at root level info
        }
        1 => {
            push("x", 1); // only the error record
            push("a::b", 1); // own appender, not additive
        }
        2 => {
            push("x", 2);
            push("zz", 1); // root trace admits it; "a" is off: a::b and a::c dropped
        }
        3 => {
            push("x", 1); // error passes warn
                          // a::b at info: the trace record is not admitted
        }
        _ => {
            push("x", 2);
            push("a::c", 1); // debug record under root debug
            push("zz", 1); // own appender, not additive
        }
    }
    out.sort();
    out
}

pub fn check_reload(tmp: &Path, c: &ReloadCase, obs: &mut Obs) -> CaseResult {
    let dir = scratch(tmp, "c15");
    let r = check_reload_in(&dir, c, obs);
    let _ = std::fs::remove_dir_all(&dir);
    r
}

fn check_reload_in(dir: &Path, c: &ReloadCase, obs: &mut Obs) -> CaseResult {
    let path = dir.join(if c.json { "log4rs.json" } else { "log4rs.yml" });
    let sink = Arc::new(Mutex::new(vec![]));
    let built = Arc::new(AtomicUsize::new(0));
    let mut des = Deserializers::default();
    des.insert("probe", ProbeDeserializer { sink: sink.clone(), built: built.clone() });
    let t0 = SystemTime::UNIX_EPOCH + Duration::from_secs(1_600_000_000);
    let mut clock = 0u64;
    let mut older = 0u64;
    let set_file_raw = |bytes: &[u8], mtime: SystemTime| {
        std::fs::write(&path, bytes).unwrap();
        let f = std::fs::OpenOptions::new().write(true).open(&path).unwrap();
        f.set_modified(mtime).unwrap();
    };
    // Some(bytes) while the file holds bytes that are not UTF-8 text
    let mut file_raw: Option<Vec<u8>> = None;
    let set_file = |text: &str, mtime: SystemTime| {
        std::fs::write(&path, text).unwrap();
        let f = std::fs::OpenOptions::new().write(true).open(&path).unwrap();
        f.set_modified(mtime).unwrap();
    };
    // model
    let mut file_variant: Option<u8> = Some(c.initial % 5); // what the file currently says (None = garbage/deleted)
    let mut file_rate: Option<u8> = Some(c.initial_rate);
    let vtext = |v: u8, rate: Option<u8>, nl: bool| if c.tail { variant_text_tail(v, rate, nl) } else { variant_text(v, rate, c.json) };
    // (tail documents) does the file end in a line break / does the active configuration's tag
    let mut file_nl = false;
    let mut active_nl = false;
    let mut file_text = vtext(c.initial, file_rate, file_nl);
    let mut file_exists = true;
    let mut file_mtime = t0;
    set_file(&file_text, file_mtime);
    let logger = log4rs::Logger::new(Config::builder().build(Root::builder().build(log::LevelFilter::Off)).unwrap());
    let (mut reloader, rate0) = log4rs::config::VerifReloader::new(&path, des, logger.verif_handle()).map_err(|e| Failure { sig: "C15:reloader-init".into(), msg: e.to_string() })?;
    ensure!(rate0 == Some(Duration::from_secs(c.initial_rate as u64)), "C15:refresh-rate", "initial refresh rate {:?}, file says {} s", rate0, c.initial_rate);
    let mut active: u8 = c.initial % 5;
    let mut rate: Duration = Duration::from_secs(c.initial_rate as u64);
    let mut seen_mtime = file_mtime;
    let mut seen_text = file_text.clone();
    ensure!(probe(&logger, &sink) == expected_probe_nl(active, active_nl), "C15:reloader-init", "initial configuration not active");
    let mut recovered = false;
    let mut had_bad = false;
    let mut touched = false;
    let mut rate_changed = false;
    for (i, e) in c.edits.iter().enumerate() {
        clock += 10;
        let fresh = t0 + Duration::from_secs(clock);
        if !matches!(e, Edit::Touch | Edit::Nop | Edit::Delete) {
            file_raw = None;
        }
        match e {
            Edit::WriteNonUtf8(v) => {
                let mut b = vtext(*v, file_rate, file_nl).into_bytes();
                b.extend_from_slice(if c.json { b"\n\xE9\n" } else { b"\n# caf\xE9\n" });
                file_variant = None;
                file_text = format!("<not UTF-8: variant {}>", v);
                file_mtime = fresh;
                file_exists = true;
                set_file_raw(&b, file_mtime);
                file_raw = Some(b);
            }
            Edit::WriteValid(v) => {
                file_variant = Some(*v % 5);
                file_text = vtext(*v, file_rate, file_nl);
                file_mtime = fresh;
                file_exists = true;
                set_file(&file_text, file_mtime);
            }
            Edit::WriteOlderMtime(v) => {
                file_variant = Some(*v % 5);
                file_text = vtext(*v, file_rate, file_nl);
                older += 7;
                file_mtime = t0 - Duration::from_secs(older);
                file_exists = true;
                set_file(&file_text, file_mtime);
            }
            Edit::Touch => {
                if file_exists {
                    file_mtime = fresh;
                    match &file_raw {
                        Some(b) => set_file_raw(b, file_mtime),
                        None => set_file(&file_text, file_mtime),
                    }
                    touched = true;
                }
            }
            Edit::Nop => {}
            Edit::WriteGarbage(k) => {
                file_variant = None;
                file_text = garbage(*k, c.json);
                file_mtime = fresh;
                file_exists = true;
                set_file(&file_text, file_mtime);
            }
            Edit::Delete => {
                if file_exists {
                    std::fs::remove_file(&path).unwrap();
                    file_exists = false;
                    file_raw = None;
                }
            }
            Edit::WriteSameMtime(v) => {
                if file_exists {
                    file_variant = Some(*v % 5);
                    file_text = vtext(*v, file_rate, file_nl);
                    set_file(&file_text, file_mtime);
                }
            }
            Edit::SetRate(r) => {
                if let (true, Some(v)) = (file_exists, file_variant) {
                    file_rate = Some(*r);
                    file_text = vtext(v, file_rate, file_nl);
                    file_mtime = fresh;
                    set_file(&file_text, file_mtime);
                }
            }
            Edit::ToggleFinalNewline => {
                if let (true, true, Some(v)) = (c.tail, file_exists, file_variant) {
                    file_nl = !file_nl;
                    file_text = vtext(v, file_rate, file_nl);
                    file_mtime = fresh;
                    set_file(&file_text, file_mtime);
                }
            }
            Edit::WriteValidWithoutRate(v) => {
                file_variant = Some(*v % 5);
                file_rate = None;
                file_text = vtext(*v, None, file_nl);
                file_mtime = fresh;
                file_exists = true;
                set_file(&file_text, file_mtime);
            }
            Edit::RemoveRate => {
                if let (true, Some(v)) = (file_exists, file_variant) {
                    file_rate = None;
                    file_text = vtext(v, None, file_nl);
                    file_mtime = fresh;
                    set_file(&file_text, file_mtime);
                }
            }
        }
        let built_before = built.load(Ordering::SeqCst);
        let res = match catch(|| reloader.step(rate)) {
            Ok(r) => r,
            Err(p) => return fail("C15:panic", format!("poll {} after {:?} panicked: {}", i, e, p)),
        };
        obs.sub_evals += 1;
        let rebuilt = built.load(Ordering::SeqCst) > built_before;
        // model of what the statement promises
        #[derive(Debug, PartialEq)]
        enum Expect {
            Unchanged,
            Error,
            Applied(u8, Option<u8>),
        }
        let expect = if !file_exists {
            Expect::Error
        } else if file_mtime == seen_mtime {
            Expect::Unchanged // same mtime: unchanged by the documented detection rule
        } else if file_raw.is_some() {
            // unreadable as text: reported, nothing remembered but the mtime
            seen_mtime = file_mtime;
            Expect::Error
        } else {
            seen_mtime = file_mtime;
            if file_text == seen_text {
                Expect::Unchanged // touched without change
            } else {
                seen_text = file_text.clone();
                match file_variant {
                    None => Expect::Error,
                    Some(v) => Expect::Applied(v, file_rate),
                }
            }
        };
        let what = format!("poll {} after {:?}", i, e);
        match &expect {
            Expect::Unchanged => {
                ensure!(matches!(res, Ok(Some(r)) if r == rate), "C15:unchanged-file", "{}: the file is unchanged but the poll returned {:?} (rate {:?})", what, res.as_ref().map_err(|e| e.to_string()), rate);
                ensure!(!rebuilt, "C15:unchanged-file-reapplied", "{}: the file is unchanged but the configuration was rebuilt", what);
            }
            Expect::Error => {
                had_bad = true;
                ensure!(res.is_err(), "C15:bad-file-not-reported", "{}: an unreadable/unparsable file must be reported as an error and polling must go on, but the poll returned {:?}", what, res.as_ref().map_err(|e| e.to_string()));
            }
            Expect::Applied(v, r) => {
                let want = r.map(|s| Duration::from_secs(s as u64));
                match &res {
                    Ok(got) => ensure!(*got == want, "C15:refresh-rate", "{}: new refresh rate {:?}, file says {:?}", what, got, want),
                    Err(e) => return fail("C15:valid-change-not-applied", format!("{}: a valid changed file was rejected: {}", what, e)),
                }
                active = *v;
                active_nl = c.tail && file_nl;
                if had_bad {
                    recovered = true;
                }
                if want.is_some() && want != Some(rate) {
                    rate_changed = true;
                }
                if let Some(w) = want {
                    rate = w;
                }
            }
        }
        // behaviour: the active configuration is the last good one
        let got = probe(&logger, &sink);
        ensure!(
            got == expected_probe_nl(active, active_nl),
            if matches!(expect, Expect::Applied(..)) { "C15:valid-change-not-applied" } else { "C15:last-good-lost" },
            "{}: probing the logger shows {:?}, the last good configuration (variant {}) routes {:?}", what, got, active, expected_probe_nl(active, active_nl)
        );
        if let Expect::Applied(_, None) = expect {
            // the refresh rate was removed: the loop ends here
            obs.class("rate-removed(loop ends)");
            break;
        }
    }
    obs.nontrivial = recovered || rate_changed || touched;
    obs.class_if(recovered, "valid-change-after-bad-file");
    obs.class_if(rate_changed, "rate-changed");
    obs.class_if(touched, "touch-without-change");
    obs.class_if(c.json, "json");
    obs.class_if(c.tail && c.edits.iter().any(|e| matches!(e, Edit::ToggleFinalNewline)), "edit-confined-to-the-final-line-break");
    obs.class_if(c.edits.iter().any(|e| matches!(e, Edit::WriteOlderMtime(_))), "changed-file-with-older-mtime");
    obs.class_if(c.edits.iter().any(|e| matches!(e, Edit::WriteNonUtf8(_))), "file-not-utf8");
    obs.class_if(c.edits.iter().any(|e| matches!(e, Edit::WriteSameMtime(_))), "same-mtime-different-bytes(modelled)");
    Ok(())
}

// ---- real-time smoke: the two-line run() loop keeps polling (bounded wait; timeout = inconclusive) ----

#[derive(Serialize, Deserialize, Debug, Clone)]
pub struct Smoke {
    pub dir: String,
    /// the configured path is a symbolic link; new versions are published by re-pointing it atomically
    /// (`ln -sfn`, ConfigMap-style) instead of editing the file in place
    #[serde(default)]
    pub symlink: bool,
    /// with `symlink`: the link stays as it is and the file it points to is edited in place
    #[serde(default)]
    pub edit_target_in_place: bool,
    /// 0: the scenario below; 1: refresh-rate scenario (`smoke_rates`); 2: the process's stderr is a pipe nobody reads
    #[serde(default)]
    pub scenario: u8,
}

/// Refresh-rate scenario on the real clock (the polling loop itself is not reachable through the single-step hook):
/// start at 2 s, switch to 100 ms, and from then on a valid change must arrive quickly - also right after a poll
/// that reported an unparsable file; finally switch to 1 h, after which nothing may be applied any more.
/// Every timed step is published right after a poll is known to have happened and is repeated up to three times;
/// only three slow answers in a row count (a single slow answer may be the machine, not the library).
fn smoke_rates(c: &Smoke, obs: &mut Obs) -> CaseResult {
    let dir = Path::new(&c.dir);
    let path = dir.join("log4rs.yml");
    let sink = Arc::new(Mutex::new(vec![]));
    let built = Arc::new(AtomicUsize::new(0));
    let mut des = Deserializers::default();
    des.insert("probe", ProbeDeserializer { sink: sink.clone(), built: built.clone() });
    let text = |v: u8, rate: &str| variant_text(v, None, false).replace("appenders:\n  p:", &format!("refresh_rate: {}\nappenders:\n  p:", rate));
    let publish = |content: &str| std::fs::write(&path, content).unwrap();
    publish(&text(0, "2s"));
    log4rs::init_file(&path, des).map_err(|e| Failure { sig: "C15:init_file".into(), msg: e.to_string() })?;
    let tag_now = |sink: &Arc<Mutex<Vec<(String, String)>>>| -> Option<String> {
        sink.lock().unwrap().clear();
        log::error!(target: "x", "probe");
        let t = sink.lock().unwrap().first().map(|x| x.0.clone());
        t
    };
    // time until `want` is active (None: not within 30 s)
    let wait_for = |want: &str| -> Option<Duration> {
        let start = std::time::Instant::now();
        while start.elapsed() < Duration::from_secs(30) {
            if tag_now(&sink).as_deref() == Some(want) {
                return Some(start.elapsed());
            }
            std::thread::sleep(Duration::from_millis(5));
        }
        None
    };
    ensure!(tag_now(&sink).as_deref() == Some("v0"), "C15:init_file", "initial configuration not active");
    let limit = Duration::from_millis(1000);
    // variants cycle through 1..=4 (0 is the start); the tag tells them apart from their predecessor
    let mut v = 0u8;
    let mut next = || {
        v = v % 4 + 1;
        v
    };
    let k = next();
    publish(&text(k, "100ms"));
    ensure!(wait_for(&format!("v{}", k)).is_some(), "C15:valid-change-not-applied:reloader-thread", "a valid change (new routing, refresh_rate 2s -> 100ms) was not applied within 30 s");
    // one more change without a time limit: the new rate has been in force for at least one poll afterwards
    let k = next();
    std::thread::sleep(Duration::from_millis(150));
    publish(&text(k, "100ms"));
    ensure!(wait_for(&format!("v{}", k)).is_some(), "C15:valid-change-not-applied:reloader-thread", "a valid change was not applied within 30 s");
    // 1. with 100 ms in force a change arrives quickly
    let mut slow = vec![];
    for _ in 0..3 {
        let k = next();
        std::thread::sleep(Duration::from_millis(150));
        publish(&text(k, "100ms"));
        match wait_for(&format!("v{}", k)) {
            None => return fail("C15:stopped-polling", "a valid change was not applied within 30 s"),
            Some(d) if d > limit => slow.push(d),
            Some(_) => {
                slow.clear();
                break;
            }
        }
    }
    ensure!(slow.is_empty(), "C15:refresh-rate-not-applied", "the file changed its refresh rate from 2 s to 100 ms and the change was applied, but three later edits (each made 150 ms after a poll) took {:?} to arrive: the reloader still polls at the old rate", slow);
    obs.sub_evals += 1;
    // 2. a poll that reports an unparsable file changes nothing about the rate
    for _ in 0..3 {
        std::thread::sleep(Duration::from_millis(150));
        publish("{{{ garbage");
        std::thread::sleep(Duration::from_millis(400));
        let k = next();
        publish(&text(k, "100ms"));
        match wait_for(&format!("v{}", k)) {
            None => return fail("C15:stopped-polling", "after an unparsable file a valid change was not applied within 30 s (the reloader must keep polling)"),
            Some(d) if d > limit => slow.push(d),
            Some(_) => {
                slow.clear();
                break;
            }
        }
    }
    ensure!(slow.is_empty(), "C15:refresh-rate-lost-after-error", "refresh rate 100 ms (applied from the file, start-up rate was 2 s); after a poll that found the file unparsable, three repaired versions took {:?} to arrive: the last good configuration's refresh rate is no longer in force", slow);
    obs.sub_evals += 1;
    // 2b. a reload that takes longer than the refresh rate (an appender that is slow to build) is applied, and the
    // reloader is still there afterwards
    {
        let k = next();
        std::thread::sleep(Duration::from_millis(150));
        publish(&text(k, "100ms").replace(&format!("    tag: v{}\n", k), &format!("    tag: v{}\n    slow_ms: 450\n", k)));
        ensure!(wait_for(&format!("v{}", k)).is_some(), "C15:valid-change-not-applied:reloader-thread", "a valid change whose appender takes 450 ms to build (refresh rate 100 ms) was not applied within 30 s");
        let k = next();
        std::thread::sleep(Duration::from_millis(300));
        publish(&text(k, "100ms"));
        ensure!(wait_for(&format!("v{}", k)).is_some(), "C15:stopped-polling", "after a reload that took longer (450 ms) than the refresh rate (100 ms) the reloader no longer applies valid changes");
        obs.sub_evals += 1;
    }
    // 2c. an appender of the incoming configuration logs while it is being built: that record is routed by a complete
    // configuration - the outgoing one, or the incoming one - never by nothing
    {
        let k = next();
        let prev = format!("v{}", if k == 1 { 4 } else { k - 1 });
        std::thread::sleep(Duration::from_millis(150));
        BUILD_RECORDS.lock().unwrap().clear();
        publish(&text(k, "100ms").replace(&format!("    tag: v{}\n", k), &format!("    tag: v{}\n    log_while_building: connecting-{}\n", k, k)));
        ensure!(wait_for(&format!("v{}", k)).is_some(), "C15:valid-change-not-applied:reloader-thread", "a valid change whose appender logs while it is being built was not applied within 30 s");
        let seen = BUILD_RECORDS.lock().unwrap().clone();
        let mine: Vec<&(String, String)> = seen.iter().filter(|(_, m)| *m == format!("connecting-{}", k)).collect();
        ensure!(
            !mine.is_empty() && mine.iter().all(|(tag, _)| *tag == prev || *tag == format!("v{}", k)),
            "C15:record-during-reload-lost",
            "the appender of the new version v{} logged an error record while it was being built by the reloader; both the outgoing (v{}) and the incoming configuration deliver error records to their appender, but the record arrived {:?}", k, prev, seen
        );
        obs.sub_evals += 1;
    }
    // 3. a much longer rate is honoured as well: after switching to 1 h nothing is polled for the next seconds
    let k = next();
    std::thread::sleep(Duration::from_millis(150));
    publish(&text(k, "1h"));
    ensure!(wait_for(&format!("v{}", k)).is_some(), "C15:stopped-polling", "a valid change (refresh_rate 100ms -> 1h) was not applied within 30 s");
    let k2 = next();
    std::thread::sleep(Duration::from_millis(300));
    publish(&text(k2, "100ms"));
    let t0 = std::time::Instant::now();
    while t0.elapsed() < Duration::from_millis(2600) {
        let tag = tag_now(&sink);
        ensure!(tag.as_deref() == Some(&format!("v{}", k)[..]), "C15:refresh-rate-not-applied", "the file set refresh_rate to 1 h and that version was applied; an edit made 300 ms later was picked up after {:?} all the same: the new rate is not in force (active: {:?})", t0.elapsed(), tag);
        std::thread::sleep(Duration::from_millis(20));
    }
    obs.sub_evals += 1;
    obs.nontrivial = true;
    obs.class("smoke:refresh-rate-scenario");
    Ok(())
}

pub fn smoke_child(c: &Smoke, obs: &mut Obs) -> CaseResult {
    if c.scenario == 1 {
        return smoke_rates(c, obs);
    }
    if c.scenario == 2 {
        // stderr becomes the write end of a pipe whose read end is closed: every write to it fails with EPIPE
        // (a supervisor that went away, `2>&1 | head`); reporting an error there must not end the reloader
        unsafe {
            let mut fds = [0i32; 2];
            if libc::pipe(fds.as_mut_ptr()) == 0 {
                libc::dup2(fds[1], 2);
                libc::close(fds[0]);
                libc::close(fds[1]);
            }
        }
        obs.class("smoke:stderr-is-a-broken-pipe");
    }
    let dir = Path::new(&c.dir);
    let path = dir.join("log4rs.yml");
    let sink = Arc::new(Mutex::new(vec![]));
    let built = Arc::new(AtomicUsize::new(0));
    let mut des = Deserializers::default();
    des.insert("probe", ProbeDeserializer { sink: sink.clone(), built: built.clone() });
    let text = |v: u8| variant_text(v, None, false).replace("appenders:\n  p:", "refresh_rate: 20ms\nappenders:\n  p:");
    let version = std::cell::Cell::new(0u32);
    let publish = |content: &str| {
        if c.symlink && c.edit_target_in_place && version.get() > 0 {
            // (writing through the link edits the file it points to)
            std::fs::write(&path, content).unwrap();
        } else if c.symlink {
            // a new file, then the link is swapped over to it in one rename
            let k = version.get() + 1;
            version.set(k);
            let target = format!("published-{}.yml", k);
            std::fs::write(dir.join(&target), content).unwrap();
            let tmp_link = dir.join("log4rs.yml.new");
            let _ = std::fs::remove_file(&tmp_link);
            std::os::unix::fs::symlink(&target, &tmp_link).unwrap();
            std::fs::rename(&tmp_link, &path).unwrap();
        } else {
            std::fs::write(&path, content).unwrap();
        }
    };
    // (in-place mode: the first version was saved by an editor that puts a byte-order mark in front)
    let first = if c.symlink { text(0) } else { format!("{}# saved with a byte-order mark\n{}", '\u{feff}', text(0)) };
    publish(&first);
    log4rs::init_file(&path, des).map_err(|e| Failure { sig: "C15:init_file".into(), msg: e.to_string() })?;
    let tag_now = |sink: &Arc<Mutex<Vec<(String, String)>>>| -> Option<String> {
        sink.lock().unwrap().clear();
        log::error!(target: "x", "probe");
        let t = sink.lock().unwrap().first().map(|x| x.0.clone());
        t
    };
    if !c.symlink {
        // touched, not changed: the same bytes with a new modification time leave the logger alone
        let built_before = built.load(Ordering::SeqCst);
        std::thread::sleep(Duration::from_millis(40));
        publish(&first);
        let f = std::fs::OpenOptions::new().write(true).open(&path).unwrap();
        let _ = f.set_modified(SystemTime::now() + Duration::from_secs(5));
        std::thread::sleep(Duration::from_millis(300));
        ensure!(built.load(Ordering::SeqCst) == built_before, "C15:unchanged-file-reapplied", "the file (saved with a byte-order mark) was touched without being changed and the reloader rebuilt the configuration ({} appender builds instead of {})", built.load(Ordering::SeqCst), built_before);
        obs.class("smoke:touched-file-with-byte-order-mark");
    }
    // (the file asks for a poll every 20 ms: 30 s are 1500 polling periods)
    let wait_for = |want: &str| -> bool {
        let deadline = std::time::Instant::now() + Duration::from_secs(30);
        while std::time::Instant::now() < deadline {
            if tag_now(&sink).as_deref() == Some(want) {
                return true;
            }
            std::thread::sleep(Duration::from_millis(5));
        }
        false
    };
    ensure!(tag_now(&sink).as_deref() == Some("v0"), "C15:init_file", "initial configuration not active");
    std::thread::sleep(Duration::from_millis(30));
    publish(&text(1));
    if !wait_for("v1") {
        return fail(if c.symlink && c.edit_target_in_place { "C15:valid-change-not-applied:symlink-target-edited" } else if c.symlink { "C15:valid-change-not-applied:symlink-swap" } else { "C15:valid-change-not-applied:reloader-thread" }, format!("the reloader started by init_file (refresh_rate 20 ms) did not apply a valid new version of the file within 30 s{}", if c.symlink { " (the configured path is a symbolic link that was re-pointed to the new version)" } else { "" }));
    }
    publish("{{{ garbage");
    std::thread::sleep(Duration::from_millis(120));
    ensure!(tag_now(&sink).as_deref() == Some("v1"), "C15:last-good-lost", "after a syntax error the last good configuration is no longer active");
    std::fs::remove_file(&path).unwrap();
    std::thread::sleep(Duration::from_millis(80));
    publish(&text(4));
    if !wait_for("v4") {
        return fail("C15:stopped-polling", "after an unparsable and then a deleted file the reloader no longer applies valid changes (it must keep polling)");
    }
    obs.nontrivial = true;
    Ok(())
}

pub fn check_smoke(tmp: &Path, mode: u8, obs: &mut Obs) -> CaseResult {
    let dir = scratch(tmp, "c15smoke");
    let out = call_child(tmp, "c15smoke", &Smoke { dir: dir.display().to_string(), symlink: mode == 1 || mode == 2, edit_target_in_place: mode == 2, scenario: if mode == 3 { 1 } else if mode == 4 { 2 } else { 0 } }, &[], Duration::from_secs(300));
    let _ = std::fs::remove_dir_all(&dir);
    if let Some(f) = &out.failure {
        if f.sig == "INCONCLUSIVE" {
            eprintln!("[lv] C15 smoke case inconclusive: {}", f.msg);
            obs.class("smoke-inconclusive");
            return Ok(());
        }
    }
    absorb(out, obs)
}

pub fn run(run: &Run) {
    let tmp = run.tmp.clone();
    run.run_replays::<Plan>("swap", &check_plan);
    run.run_replays::<Reentrant>("reentrant", &check_reentrant);
    let t0 = tmp.clone();
    run.run_replays::<ReloadCase>("reloader", &move |c: &ReloadCase, o: &mut Obs| check_reload(&t0, c, o));
    // every fan-out position of every size (exhaustive over 1..=5 x 1..=5 x positions)
    if run.worker.0 == 0 {
        let mut ok = true;
        for m_old in 1..=5 {
            for m_new in 1..=5 {
                for position in 0..m_old {
                    for order in [0u16, 1, 2, 7] {
                        for fail_after_swap in [false, true] {
                            ok &= run.eval_one("reentrant", &Reentrant { m_old, m_new, position, order, fail_after_swap, nested_after_swap: (position + m_new + order as usize) % 2 == 0 }, &check_reentrant);
                        }
                    }
                }
            }
        }
        if ok {
            run.exhaustive("re-entrant set_config from inside append at every fan-out position (in half of them the swapping appender logs one more record after set_config returned, which must use the new configuration) 0..m-1 for old fan-out 1-5 x new fan-out 1-5 x 4 declaration orders");
        }
    }
    // three smoke cases through the real init_file: in-place edits, a re-pointed symbolic link, a symbolic link whose
    // target is edited in place
    // ... plus the refresh-rate scenario (mode 3) and a process whose stderr is a broken pipe (mode 4)
    for mode in 0u8..5 {
        if run.worker.0 == mode as u32 % run.worker.1 {
            let t3 = tmp.clone();
            run.eval_one("reloader-smoke", &mode, &move |k: &u8, o: &mut Obs| check_smoke(&t3, *k, o));
        }
    }
    run.search("swap", run.tier.pick(200, 10_000), plan_strategy(), &check_plan);
    let t1 = tmp.clone();
    run.search("reloader", run.tier.pick(1_500, 75_000), reload_strategy(), &move |c: &ReloadCase, o: &mut Obs| check_reload(&t1, c, o));
}

pub fn replay(part: &str, case: serde_json::Value) -> Option<CaseResult> {
    match part {
        "swap" => Some(check_plan(&serde_json::from_value(case).ok()?, &mut Obs::default())),
        "reentrant" => Some(check_reentrant(&serde_json::from_value(case).ok()?, &mut Obs::default())),
        "reloader" => {
            let tmp = std::env::temp_dir().join(format!("lv-replay-{}", std::process::id()));
            std::fs::create_dir_all(&tmp).ok()?;
            let r = check_reload(&tmp, &serde_json::from_value(case).ok()?, &mut Obs::default());
            let _ = std::fs::remove_dir_all(&tmp);
            Some(r)
        }
        "reloader-smoke" => {
            let tmp = std::env::temp_dir().join(format!("lv-replay-{}", std::process::id()));
            std::fs::create_dir_all(&tmp).ok()?;
            let r = check_smoke(&tmp, case.as_u64().unwrap_or(0) as u8, &mut Obs::default());
            let _ = std::fs::remove_dir_all(&tmp);
            Some(r)
        }
        _ => None,
    }
}

pub fn meta() -> EvidenceMeta {
    EvidenceMeta {
        level: "exploration",
        rule: "part swap: a family of configurations whose generation g attaches m_g (1-5, neighbours differ) tagged capture appenders to the root in generated declaration orders; 1-6 logging threads x 200-1500 records with unique ids against 1-2 reconfiguring threads stepping through the family as fast as they can, plus 0-2 threads that call set_config and then log themselves; oracle: no panic; every record id is delivered under exactly one generation and to exactly that generation's m_g appenders; a record logged after the thread's own set_config returned never uses an older generation. part reentrant (exhaustive): an appender at every fan-out position 0..m-1 calls Handle::set_config from inside append: the record in flight completes entirely under the old configuration, the next one uses the new one. part reloader (guarded single-step API, real ConfigReloader::run_once): histories of 1-12 file edits between polls (valid variants that differ in routing, touch, nop, four kinds of garbage, deletion, recreation, same-mtime-different-bytes, refresh-rate change/removal; mtimes set explicitly) against a model of the statement; the active configuration is observed behaviourally (probe records through a custom 'probe' appender kind registered in Deserializers, which also counts rebuilds); plus one real-time smoke case of init_file with refresh_rate 20ms in a child process (timeout = inconclusive). Reloader edits include adding/removing the file's final line break where the document ends inside a block scalar (the configuration changes), and a valid document plus a byte that is not UTF-8 (unreadable: reported, last good kept). Three smoke cases through the real init_file (in-place edits; a symbolic link re-pointed atomically; a symbolic link whose target is edited in place): a valid change not applied within 30 s at refresh_rate 20 ms is a violation; a fourth with the process's stderr turned into a broken pipe (error reports fail with EPIPE); a fifth on refresh rates (2 s -> 100 ms: later edits arrive within 1 s, also right after a poll that found the file unparsable; -> 1 h: nothing is applied for the next 2.6 s; each timed step is made right after a poll and repeated three times, only three slow answers in a row count). non-trivial = >= 3 generations observed (swap); every reentrant case; a valid change after a bad file, a rate change or a touch (reloader)".into(),
        assumptions: vec![
            "OS scheduler not controlled: swaps between two specific instructions of Log::log are hit statistically (volume) - the re-entrant plans place the swap deterministically at every fan-out position".into(),
            "liveness of the reloader thread: single-step API plus one bounded real-time smoke case".into(),
        ],
        mutants_caught: vec![],
    }
}
