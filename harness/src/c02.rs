//! C02 — level gating is coherent: enabled(), delivery and the global max level agree.
//! One history per child process (the log facade's logger and max level are process-global).

use crate::child::*;
use crate::engine::*;
use crate::ensure;
use crate::gen::cfgtree::{raw_cfg, raw_targets, resolve, resolve_target};
use crate::glue::*;
use crate::model::route::{LCfg, LEVELS, LEVEL_FILTERS};
use proptest::prelude::*;
use serde::{Deserialize, Serialize};
use std::collections::BTreeMap;
use std::sync::{Arc, Mutex};
use std::time::Duration;

#[derive(Serialize, Deserialize, Debug, Clone)]
pub struct Step {
    pub cfg: LCfg,
    pub targets: Vec<String>,
    /// build the Config with another root level and set the real one through Config::root_mut().set_level()
    #[serde(default)]
    pub via_root_mut: Option<u8>,
}

#[derive(Serialize, Deserialize, Debug, Clone)]
pub struct History {
    /// 0 init_config, 1 init_config_with_err_handler, 2 init_raw_config (YAML + file appenders, first step only)
    pub init: u8,
    pub steps: Vec<Step>,
}

fn steer(mut cfg: LCfg, cap: u8, holder: u16) -> LCfg {
    // the most verbose level is `cap`, held by the root, a leaf or any logger
    cfg.root_level = cfg.root_level.min(cap);
    for l in cfg.loggers.iter_mut() {
        l.level = l.level.min(cap);
    }
    let n = cfg.loggers.len() + 1;
    let h = (holder as usize * n) >> 16;
    if h == 0 {
        cfg.root_level = cap;
    } else {
        cfg.loggers[h - 1].level = cap;
    }
    cfg
}

pub fn strategy() -> impl Strategy<Value = History> {
    (
        prop_oneof![3 => Just(0u8), 2 => Just(1u8), 1 => Just(2u8)],
        prop::collection::vec((raw_cfg(6), 0u8..6, any::<u16>(), raw_targets(3..=5), prop::option::weighted(0.3, 0u8..6)), 1..=8),
    )
        .prop_map(|(init, steps)| History {
            init,
            steps: steps
                .into_iter()
                .map(|(raw, cap, holder, rt, via_root_mut)| {
                    let cfg = steer(resolve(&raw), cap, holder);
                    let mut targets: Vec<String> = rt.iter().map(|(k, l, e)| resolve_target(&cfg, *k, *l, *e)).collect();
                    targets.dedup();
                    Step { cfg, targets, via_root_mut }
                })
                .collect(),
        })
}

fn holder_is_nonroot(cfg: &LCfg) -> bool {
    let m = cfg.loggers.iter().map(|l| l.level).max().unwrap_or(0);
    m > cfg.root_level
}

fn yaml_for(cfg: &LCfg, dir: &std::path::Path) -> String {
    let lv = |i: u8| format!("{:?}", LEVEL_FILTERS[i as usize % 6]).to_lowercase();
    let mut y = String::from("appenders:\n");
    for a in &cfg.appenders {
        y.push_str(&format!("  {}:\n    kind: file\n    path: \"{}/{}.log\"\n    encoder:\n      pattern: \"{{m}}{{n}}\"\n", a, dir.display(), a));
    }
    y.push_str(&format!("root:\n  level: {}\n  appenders: [{}]\n", lv(cfg.root_level), cfg.root_appenders.join(", ")));
    if !cfg.loggers.is_empty() {
        y.push_str("loggers:\n");
        for l in &cfg.loggers {
            // (YAML limits implicit keys to 1024 characters: long names are written as explicit keys)
            let key = if l.name.len() > 900 { format!("  ? \"{}\"\n  :\n", l.name) } else { format!("  \"{}\":\n", l.name) };
            y.push_str(&format!("{}    level: {}\n    additive: {}\n    appenders: [{}]\n", key, lv(l.level), l.additive, l.appenders.join(", ")));
        }
    }
    y
}

/// Builds the step's Config; optionally with a provisional root level that is corrected afterwards
/// through the public `Config::root_mut().set_level()`.
fn step_config(step: &Step, sink: &Sink, tag: &str) -> Result<log4rs::Config, String> {
    step_config_with(step, sink, tag, None)
}

/// What an appender of the outgoing configuration logs while it is being dropped (appenders that log from their
/// shutdown path - closing a connection, say - do this): target and level, set right before `set_config`.
type DropPlan = Arc<Mutex<Option<(String, log::Level)>>>;

#[derive(Debug)]
struct LogsWhenDropped(DropPlan);

impl log4rs::append::Append for LogsWhenDropped {
    fn append(&self, _: &log::Record) -> anyhow::Result<()> {
        Ok(())
    }
    fn flush(&self) {}
}

impl Drop for LogsWhenDropped {
    fn drop(&mut self) {
        let plan = self.0.lock().unwrap().take();
        if let Some((t, l)) = plan {
            log::log!(target: t.as_str(), l, "drop-probe");
        }
    }
}

fn step_config_with(step: &Step, sink: &Sink, tag: &str, plan: Option<&DropPlan>) -> Result<log4rs::Config, String> {
    let extra = || match plan {
        Some(p) => vec![log4rs::config::Appender::builder().build("zz-logs-when-dropped", Box::new(LogsWhenDropped(p.clone())))],
        None => vec![],
    };
    match step.via_root_mut {
        None => build_config_extra(&step.cfg, sink, tag, &[], extra()),
        Some(provisional) => {
            let mut c = step.cfg.clone();
            c.root_level = provisional % 6;
            let mut config = build_config_extra(&c, sink, tag, &[], extra())?;
            config.root_mut().set_level(LEVEL_FILTERS[step.cfg.root_level as usize % 6]);
            Ok(config)
        }
    }
}

/// Runs inside the child process.
pub fn child_check(h: &History, obs: &mut Obs) -> CaseResult {
    let sink = new_sink();
    let dir = std::env::var("VERIF_TMP").map(std::path::PathBuf::from).unwrap_or_else(|_| std::env::temp_dir()).join(format!("c02-{}", std::process::id()));
    let mut handle: Option<log4rs::Handle> = None;
    let mut prev_max: Option<log::LevelFilter> = None;
    let mut moved_nonroot = false;
    let plan: DropPlan = Arc::new(Mutex::new(None));
    let mut during_swap = 0;
    let steps: &[Step] = if h.init == 2 { &h.steps[..1] } else { &h.steps[..] };
    for (si, step) in steps.iter().enumerate() {
        let cfg = &step.cfg;
        let tag = format!("g{}|", si);
        if si == 0 {
            match h.init {
                0 => {
                    let c = step_config_with(step, &sink, &tag, Some(&plan)).map_err(|e| Failure { sig: "C02:config".into(), msg: e })?;
                    handle = Some(log4rs::init_config(c).map_err(|e| Failure { sig: "C02:init".into(), msg: e.to_string() })?);
                }
                1 => {
                    let c = step_config_with(step, &sink, &tag, Some(&plan)).map_err(|e| Failure { sig: "C02:config".into(), msg: e })?;
                    handle = Some(log4rs::config::init_config_with_err_handler(c, Box::new(|_e| {})).map_err(|e| Failure { sig: "C02:init".into(), msg: e.to_string() })?);
                }
                _ => {
                    std::fs::create_dir_all(&dir).unwrap();
                    let raw: log4rs::config::RawConfig = serde_yaml::from_str(&yaml_for(cfg, &dir)).map_err(|e| Failure { sig: "C02:yaml".into(), msg: e.to_string() })?;
                    log4rs::init_raw_config(raw).map_err(|e| Failure { sig: "C02:init".into(), msg: e.to_string() })?;
                }
            }
        } else {
            let c = step_config_with(step, &sink, &tag, Some(&plan)).map_err(|e| Failure { sig: "C02:config".into(), msg: e })?;
            // while the outgoing configuration is torn down inside set_config one of its appenders logs a record
            // that the incoming configuration admits at its most verbose level
            let probe: Option<(String, log::Level)> = cfg.max_level().to_level().and_then(|l| step.targets.iter().find(|t| cfg.effective(t) == cfg.effective_textual(t) && cfg.enabled(t, l)).map(|t| (t.clone(), l)));
            *plan.lock().unwrap() = probe.clone();
            sink.lock().unwrap().clear();
            handle.as_ref().unwrap().set_config(c);
            let fired = plan.lock().unwrap().take().is_none();
            if let (Some((t, l)), true) = (&probe, fired) {
                let mut got: BTreeMap<String, usize> = BTreeMap::new();
                for (a, m) in sink.lock().unwrap().drain(..) {
                    if m == "drop-probe" {
                        *got.entry(a).or_insert(0) += 1;
                    }
                }
                let want: BTreeMap<String, usize> = cfg.route(t, *l).into_iter().map(|(a, n)| (format!("{}{}", tag, a), n)).collect();
                ensure!(
                    got == want,
                    "C02:record-during-swap",
                    "step {}: a record ({:?}, {:?}) logged through the macros while set_config was replacing the configuration reached {:?}; the incoming configuration admits it and routes it to {:?} (previous global maximum {:?})", si, t, l, got, want, prev_max
                );
                during_swap += 1;
            }
        }
        // (1) the global maximum equals the most verbose configured level
        let want_max = cfg.max_level();
        ensure!(
            log::max_level() == want_max,
            "C02:global-max-level",
            "step {} ({}): log::max_level() is {:?}, most verbose configured level is {:?}", si, if si == 0 { "initialisation" } else { "set_config" }, log::max_level(), want_max
        );
        // a twin logger reports the same maximum
        let twin = log4rs::Logger::new(step_config(step, &new_sink(), "").unwrap());
        ensure!(twin.max_log_level() == want_max, "C02:reported-max-level", "step {}: Logger::max_log_level() is {:?}, expected {:?}", si, twin.max_log_level(), want_max);
        // (targets are handed over in one reused buffer, equal lengths adjacent: only the characters may matter)
        let mut probe_order: Vec<&String> = step.targets.iter().collect();
        probe_order.sort_by_key(|t| t.len());
        let mut buf = String::with_capacity(8192);
        for t in probe_order {
            buf.clear();
            buf.push_str(t);
            let t = &buf;
            if cfg.effective(t) != cfg.effective_textual(t) {
                continue;
            }
            for (li, level) in LEVELS.iter().enumerate() {
                obs.sub_evals += 1;
                // (2) enabled() agrees with the effective logger's threshold
                let en = log::logger().enabled(&log::Metadata::builder().level(*level).target(t).build());
                ensure!(en == cfg.enabled(t, *level), "C02:enabled-disagrees", "step {}: enabled({:?}, {:?}) = {}, threshold says {}", si, t, level, en, cfg.enabled(t, *level));
                // (3) log macros reach exactly the appenders routing prescribes
                sink.lock().unwrap().clear();
                log::log!(target: t.as_str(), *level, "{}", li);
                let want = cfg.route(t, *level);
                let got: BTreeMap<String, usize> = if h.init == 2 {
                    log::logger().flush();
                    let mut m = BTreeMap::new();
                    for a in &cfg.appenders {
                        let p = dir.join(format!("{}.log", a));
                        let n = std::fs::read_to_string(&p).map(|s| s.lines().count()).unwrap_or(0);
                        if n > 0 {
                            m.insert(a.clone(), n);
                        }
                        let _ = std::fs::write(&p, b""); // O_APPEND writers continue at the new end
                    }
                    m
                } else {
                    let mut m = BTreeMap::new();
                    for (a, _) in sink.lock().unwrap().drain(..) {
                        let (g, name) = a.split_once('|').unwrap();
                        ensure!(g == format!("g{}", si), "C02:stale-config", "step {}: record delivered to an appender of configuration {}", si, g);
                        *m.entry(name.to_string()).or_insert(0) += 1;
                    }
                    m
                };
                ensure!(
                    got == want,
                    "C02:macro-delivery",
                    "step {}: log!(target: {:?}, {:?}) delivered {:?}, routing prescribes {:?} (log::max_level() = {:?})", si, t, level, got, want, log::max_level()
                );
            }
        }
        if let Some(p) = prev_max {
            if p != want_max && holder_is_nonroot(cfg) {
                moved_nonroot = true;
            }
        }
        prev_max = Some(want_max);
    }
    let _ = std::fs::remove_dir_all(&dir);
    obs.nontrivial = moved_nonroot || (h.init == 2 && holder_is_nonroot(&h.steps[0].cfg));
    obs.class(format!("init={}", ["init_config", "init_config_with_err_handler", "init_raw_config"][h.init as usize % 3]));
    obs.class(format!("steps={}", steps.len()));
    obs.class_if(moved_nonroot, "max-moved-with-nonroot-holder");
    obs.class_if(during_swap > 0, "record-logged-while-set_config-swaps");
    obs.class_if(steps.iter().any(|s| s.via_root_mut.is_some()), "root-level-set-through-root_mut");
    Ok(())
}

pub fn check(tmp: &std::path::Path, h: &History, obs: &mut Obs) -> CaseResult {
    let out = call_child(tmp, "c02", h, &[("VERIF_TMP", tmp.display().to_string())], Duration::from_secs(60));
    absorb(out, obs)
}

pub fn run(run: &Run) {
    let tmp = run.tmp.clone();
    let f = move |h: &History, o: &mut Obs| check(&tmp, h, o);
    run.run_replays::<History>("history", &f);
    if run.worker.0 == 1 % run.worker.1 {
        // look-alike sibling names (hash collisions, case, normalisation ...): 8 configurations per child process
        let pairs = crate::gen::cfgtree::lookalike_pairs();
        for (ci, chunk) in pairs.chunks(8).enumerate() {
            let steps = chunk
                .iter()
                .enumerate()
                .map(|(i, (x, y))| {
                    let (cfg, targets) = crate::gen::cfgtree::lookalike_cfg(x, y, (i + ci) % 2 == 1);
                    Step { cfg, targets, via_root_mut: None }
                })
                .collect();
            run.eval_one("history", &History { init: (ci % 2) as u8, steps }, &f);
        }
    }
    if run.worker.0 == 2 % run.worker.1 {
        // growing and shrinking families of siblings (2..24 and back), one history per parent
        for (pi, parent) in ["", "app", "app::net"].into_iter().enumerate() {
            let sizes: Vec<usize> = vec![2, 7, 8, 9, 10, 16, 17, 24, 9, 8, 3];
            let steps = sizes
                .iter()
                .map(|n| {
                    let (cfg, mut targets) = crate::gen::cfgtree::sibling_family(parent, *n);
                    targets.truncate(14);
                    Step { cfg, targets, via_root_mut: None }
                })
                .collect();
            run.eval_one("history", &History { init: (pi % 2) as u8, steps }, &f);
        }
    }
    if run.worker.0 == 3 % run.worker.1 {
        // the same configuration again and again, only the declaration order of its appenders (and loggers) changes from
        // step to step: whatever a reconfiguration may reuse of its predecessor, names decide where records go
        for (hi, n) in [3usize, 9].into_iter().enumerate() {
            let (base, mut targets) = crate::gen::cfgtree::sibling_family("app", n);
            targets.truncate(12);
            let mut steps = vec![];
            for k in 0..6usize {
                let mut cfg = base.clone();
                let la = cfg.appenders.len();
                cfg.appenders.rotate_left(k % la);
                if k % 2 == 1 {
                    cfg.appenders.reverse();
                }
                if k >= 3 {
                    let ll = cfg.loggers.len();
                    cfg.loggers.rotate_left((k * 2) % ll);
                }
                steps.push(Step { cfg, targets: targets.clone(), via_root_mut: None });
            }
            run.eval_one("history", &History { init: (hi % 2) as u8, steps }, &f);
        }
    }
    run.search("history", run.tier.pick(160, 4_000), strategy(), &f);
}

pub fn replay(part: &str, case: serde_json::Value) -> Option<CaseResult> {
    match part {
        "history" => {
            let tmp = std::env::temp_dir().join(format!("lv-replay-{}", std::process::id()));
            std::fs::create_dir_all(&tmp).ok()?;
            let r = check(&tmp, &serde_json::from_value(case).ok()?, &mut Obs::default());
            let _ = std::fs::remove_dir_all(&tmp);
            Some(r)
        }
        _ => None,
    }
}

pub fn meta() -> EvidenceMeta {
    EvidenceMeta {
        level: "exploration",
        rule: "cases = histories of 1-8 cfgtree configurations whose most verbose level is steered per step (cap level and holder drawn: root / any logger incl. deep descendants), initialised through init_config, init_config_with_err_handler or init_raw_config (YAML + file appenders, single step) in a dedicated child process, then replaced with Handle::set_config; after every step: log::max_level() and Logger::max_log_level() equal the model's most verbose level, log::logger().enabled() equals the effective logger's threshold on a grid of 3-5 derived targets x 5 levels, and log! macro deliveries equal route() and come from the current configuration's appenders only. While set_config tears the outgoing configuration down, one of its appenders logs a record through the macros which the incoming configuration admits at its most verbose level: it must arrive as the incoming configuration prescribes. Two fixed histories of one configuration whose appenders and loggers are merely declared in another order at every step. Three fixed histories over families of 2-24 sibling loggers growing and shrinking below the root, a logger and a nested logger. Four fixed histories over look-alike sibling names (published hash collisions, case, normalisation, trimming). non-trivial = a step whose maximum differs from the previous step's while the most verbose level is held by a non-root logger; distinct = FNV hash of the history".into(),
        assumptions: vec!["log facade compiled without static max-level features".into()],
        mutants_caught: vec![],
    }
}
