//! Filesystem observation helpers: recursive snapshots, decompression, reference $ENV expansion.

use std::collections::{BTreeMap, BTreeSet};
use std::io::Read;
use std::path::Path;

#[derive(Debug, Clone, PartialEq, Default)]
pub struct Snap {
    /// regular files by path relative to the root
    pub files: BTreeMap<String, Vec<u8>>,
    pub dirs: BTreeSet<String>,
}

pub fn snap(root: &Path) -> Snap {
    snap_with(root, false)
}

/// Like `snap`, and a symbolic link to a regular file is listed with the content it leads to.
pub fn snap_following_links(root: &Path) -> Snap {
    snap_with(root, true)
}

fn snap_with(root: &Path, links: bool) -> Snap {
    let mut s = Snap::default();
    fn walk(root: &Path, dir: &Path, s: &mut Snap, links: bool) {
        let Ok(rd) = std::fs::read_dir(dir) else { return };
        for e in rd.flatten() {
            let p = e.path();
            let rel = p.strip_prefix(root).unwrap().to_string_lossy().to_string();
            match e.file_type() {
                Ok(t) if t.is_dir() => {
                    s.dirs.insert(rel);
                    walk(root, &p, s, links);
                }
                Ok(t) if t.is_file() => {
                    s.files.insert(rel, std::fs::read(&p).unwrap_or_default());
                }
                Ok(t) if links && t.is_symlink() && std::fs::metadata(&p).map_or(false, |m| m.is_file()) => {
                    s.files.insert(rel, std::fs::read(&p).unwrap_or_default());
                }
                _ => {}
            }
        }
    }
    walk(root, root, &mut s, links);
    s
}

pub fn copy_tree(from: &Path, to: &Path) {
    std::fs::create_dir_all(to).unwrap();
    let s = snap(from);
    for d in &s.dirs {
        std::fs::create_dir_all(to.join(d)).unwrap();
    }
    for (f, b) in &s.files {
        let p = to.join(f);
        if let Some(parent) = p.parent() {
            std::fs::create_dir_all(parent).unwrap();
        }
        std::fs::write(p, b).unwrap();
    }
}

pub fn gunzip(b: &[u8]) -> Result<Vec<u8>, String> {
    let mut d = flate2::read::GzDecoder::new(b);
    let mut out = vec![];
    d.read_to_end(&mut out).map_err(|e| e.to_string())?;
    Ok(out)
}

pub fn unzstd(b: &[u8]) -> Result<Vec<u8>, String> {
    zstd::stream::decode_all(b).map_err(|e| e.to_string())
}

/// Decompresses according to the file name's extension (what the pattern requested).
pub fn decoded(name: &str, raw: &[u8]) -> Result<Vec<u8>, String> {
    if name.ends_with(".gz") {
        gunzip(raw)
    } else if name.ends_with(".zst") {
        unzstd(raw)
    } else {
        Ok(raw.to_vec())
    }
}

/// Reference `$ENV{NAME}` expansion: one left-to-right pass; substituted text is never rescanned.
/// `lookup` returns the value of a set variable.
pub fn expand_ref(s: &str, lookup: &dyn Fn(&str) -> Option<String>) -> String {
    let cs: Vec<char> = s.chars().collect();
    let prefix: Vec<char> = "$ENV{".chars().collect();
    let mut out = String::new();
    let mut i = 0;
    while i < cs.len() {
        if cs[i..].starts_with(&prefix[..]) {
            // name := [alnum|_][alnum|_|.]* followed by '}'
            let mut j = i + prefix.len();
            let start = j;
            let mut ok = false;
            if j < cs.len() && (cs[j].is_alphanumeric() || cs[j] == '_') {
                j += 1;
                while j < cs.len() && (cs[j].is_alphanumeric() || cs[j] == '_' || cs[j] == '.') {
                    j += 1;
                }
                if j < cs.len() && cs[j] == '}' {
                    ok = true;
                }
            }
            if ok {
                let name: String = cs[start..j].iter().collect();
                if let Some(v) = lookup(&name) {
                    out.push_str(&v);
                    i = j + 1;
                    continue;
                }
            }
            // not a reference to a set variable: the prefix stays verbatim, scanning continues after it
            out.extend(&prefix);
            i += prefix.len();
        } else {
            out.push(cs[i]);
            i += 1;
        }
    }
    out
}

/// A directory on a *different* filesystem than `dir` (for cross-device renames), unique per `dir`;
/// None when the sandbox offers no second writable filesystem.
pub fn other_fs_dir(dir: &Path) -> Option<std::path::PathBuf> {
    use std::os::unix::fs::MetadataExt;
    let here = std::fs::metadata(dir).ok()?.dev();
    for cand in ["/tmp", "/dev/shm", "/var/tmp"] {
        let Ok(m) = std::fs::metadata(cand) else { continue };
        if m.dev() != here {
            let h = crate::engine::fnv64(dir.to_string_lossy().as_bytes());
            let p = std::path::PathBuf::from(format!("{}/lv-alt-{}/{:016x}", cand, std::process::id(), h));
            if std::fs::create_dir_all(&p).is_ok() {
                return Some(p);
            }
        }
    }
    None
}

/// Removes this process's directories on the other filesystems.
pub fn cleanup_other_fs() {
    for cand in ["/tmp", "/dev/shm", "/var/tmp"] {
        let _ = std::fs::remove_dir_all(format!("{}/lv-alt-{}", cand, std::process::id()));
    }
}


/// A symbolic link to /dev/full (used as an archive name on a "device" that refuses every byte).
pub fn is_full_device_link(p: &std::path::Path) -> bool {
    std::fs::symlink_metadata(p).map_or(false, |m| m.file_type().is_symlink()) && std::fs::read_link(p).map_or(false, |t| t == std::path::Path::new("/dev/full"))
}


/// /dev/full as it should be: a character device that refuses every write. (A tested change that unlinks and recreates
/// its log file could replace it by a regular file if it were ever opened by name; the checks reach it through symbolic
/// links only and look again before relying on it.)
pub fn full_device_ok() -> bool {
    use std::os::unix::fs::FileTypeExt;
    std::fs::metadata("/dev/full").map_or(false, |m| m.file_type().is_char_device())
}
