//! C19 — $ENV{NAME} path expansion substitutes set variables, leaves all else intact.
//! The environment is process-global: every worker is single-threaded and sets the pool per case.

use crate::engine::*;
use crate::ensure;
use crate::fsx::*;
use crate::roll::*;
use log4rs::append::file::FileAppender;
use log4rs::append::rolling_file::policy::compound::roll::{fixed_window::FixedWindowRoller, Roll};
use proptest::prelude::*;
use serde::{Deserialize, Serialize};
use std::path::Path;

// (the last four hold non-ASCII numeric characters: decimal digit U+0663, other number U+00B2, letter number U+2167)
macro_rules! n16 {
    ($s:expr) => {
        concat!($s, $s, $s, $s, $s, $s, $s, $s, $s, $s, $s, $s, $s, $s, $s, $s)
    };
}
/// (the last two are 264 and 1032 characters long: environment variable names have no length limit to speak of)
pub const NAMES: [&str; 16] = ["Q", "z", "LvA", "LvAB", "_lvx", "lv.1", "Lv_mid.dle.x", "LvLong_name.with.dots", "élv1", "LvZ9", "Lv\u{663}x", "Lv\u{b2}", "\u{2167}Lv", "\u{663}", concat!("Lv_long_", n16!(n16!("n"))), concat!("Lv_LONG_", n16!(n16!("NnNn")))];
const VALUES: [&str; 16] = ["val", "", "{", "}", "ENV{LvAB}", "LvAB}", "sub/dir", "ü", "x y", "ENV{LvA}{", "/abs/x", "/", "AB", "A", "B}", "Z9}"];
const LITERALS: [&str; 14] = ["a", "log", "é", " ", "-", ".", "_", "$", "{", "}", "$ENV", "$ENV{", "ENV{", "$$"];
// (the last four: characters outside ASCII that are neither letters nor digits - en dash, euro sign, no-break space, an emoji)
const MALFORMED: [&str; 14] = [
    "$ENV{}", "$ENV{.a}", "$ENV{-a}", "$ENV{$ENV{LvA}}", "$ENV{Lv-A}", "$ENV{Lv A}", "$ENV{Lv$A}", "$ENV{LvA", "$ENV{LvA/x}", "$ENV{ }",
    "$ENV{Lv\u{2013}A}", "$ENV{Lv\u{20ac}}", "$ENV{Lv\u{a0}A}", "$ENV{Lv\u{1f600}}",
];

#[derive(Serialize, Deserialize, Debug, Clone)]
pub struct Case {
    pub path: String,
    /// value per pool name (None = unset)
    pub vars: Vec<Option<String>>,
}

fn token() -> impl Strategy<Value = String> {
    prop_oneof![
        6 => prop::sample::select(LITERALS.to_vec()).prop_map(|s| s.to_string()),
        7 => prop::sample::select(NAMES.to_vec()).prop_map(|n| format!("$ENV{{{}}}", n)),
        1 => Just("$ENV{LvNEVERSET}".to_string()),
        3 => prop::sample::select(MALFORMED.to_vec()).prop_map(|s| s.to_string()),
        2 => (prop::sample::select(vec!["$ENV{Lv", "$ENV{LvA", "$ENV{_lv", "$ENV{"]), prop::sample::select(NAMES[..8].to_vec()), prop::sample::select(vec!["}", "", "}}"])).prop_map(|(p, n, s)| format!("{}$ENV{{{}}}{}", p, n, s)),
        1 => Just("/".to_string()),
    ]
}

fn vars() -> impl Strategy<Value = Vec<Option<String>>> {
    prop::collection::vec(prop::option::weighted(0.65, prop::sample::select(VALUES.to_vec()).prop_map(|s| s.to_string())), NAMES.len())
}

pub fn strategy() -> impl Strategy<Value = Case> {
    (prop::collection::vec(token(), 0..=8), vars()).prop_map(|(t, vars)| Case { path: t.concat(), vars })
}

fn install(vars: &[Option<String>]) {
    // bystanders in the environment that are not valid Unicode (legal on Unix): nobody refers to them, and their
    // presence must not matter to the expansion of anything else
    {
        use std::os::unix::ffi::OsStrExt;
        std::env::set_var("LV_NOT_UNICODE_VALUE", std::ffi::OsStr::from_bytes(b"caf\xe9/\xff"));
        std::env::set_var(std::ffi::OsStr::from_bytes(b"LV_N\xffT_UNICODE_NAME"), "x");
    }
    // variables whose names are not names a reference can have (leading '.', inner '-'): references spelled with them
    // are malformed and stay as they are, whether or not such variables exist
    std::env::set_var(".a", "dot-a-value");
    std::env::set_var("Lv-A", "dash-value");
    for n in ["Lv\u{2013}A", "Lv\u{20ac}", "Lv\u{a0}A", "Lv\u{1f600}"] {
        std::env::set_var(n, "value-of-a-name-no-reference-can-have");
    }
    for (i, n) in NAMES.iter().enumerate() {
        match vars.get(i).cloned().flatten() {
            Some(v) => std::env::set_var(n, v),
            None => std::env::remove_var(n),
        }
    }
    std::env::remove_var("LvNEVERSET");
}

fn reference(case: &Case) -> String {
    expand_ref(&case.path, &|name: &str| lookup_var(case, name))
}

/// Pool variables are set/unset per case; any other name the token soup happens to form (the shell's
/// `_`, say) is looked up in the real environment, which is what "a set environment variable" means.
fn lookup_var(case: &Case, name: &str) -> Option<String> {
    match NAMES.iter().position(|n| *n == name) {
        Some(i) => case.vars.get(i).cloned().flatten(),
        None => std::env::var(name).ok(),
    }
}

fn classify(case: &Case, obs: &mut Obs) {
    let substituted = NAMES.iter().enumerate().any(|(i, n)| case.vars.get(i).map_or(false, |v| v.is_some()) && case.path.contains(&format!("$ENV{{{}}}", n)));
    let verbatim = NAMES.iter().enumerate().any(|(i, n)| case.vars.get(i).map_or(true, |v| v.is_none()) && case.path.contains(&format!("$ENV{{{}}}", n)))
        || MALFORMED.iter().any(|m| case.path.contains(m))
        || case.path.contains("LvNEVERSET")
        || case.path.replace("$ENV{", "").contains('$');
    let brace_value = NAMES.iter().enumerate().any(|(i, n)| case.vars.get(i).and_then(|v| v.as_ref()).map_or(false, |v| v.contains('{') || v.contains('}')) && case.path.contains(&format!("$ENV{{{}}}", n)));
    let multibyte_name = case.path.contains("$ENV{élv1}");
    obs.nontrivial = (substituted && verbatim) || brace_value || multibyte_name;
    obs.class_if(substituted, "substituted-reference");
    obs.class_if(verbatim, "construct-left-verbatim");
    obs.class_if(brace_value, "value-with-braces");
    obs.class_if(multibyte_name, "multi-byte-name");
    obs.class_if(MALFORMED.iter().any(|m| case.path.contains(m)), "malformed-reference");
}

pub fn check_bulk(case: &Case, obs: &mut Obs) -> CaseResult {
    install(&case.vars);
    let want = reference(case);
    let got = match catch(|| log4rs::append::verif_expand_env_vars(&case.path)) {
        Ok(g) => g,
        Err(p) => return fail("C19:panic", format!("expansion of {:?} panicked: {}", case.path, p)),
    };
    if got != want {
        // signature: text produced by a substitution (or literal text next to one) substituted again
        let rescan = {
            let lookup = |name: &str| -> Option<String> { lookup_var(case, name) };
            let mut cur = case.path.clone();
            let mut hit = false;
            for _ in 0..6 {
                let next = expand_ref(&cur, &lookup);
                if next == got {
                    hit = true;
                    break;
                }
                if next == cur {
                    break;
                }
                cur = next;
            }
            hit
        };
        // a reference to a set variable that is still there verbatim
        let unexpanded = NAMES.iter().enumerate().any(|(i, n)| {
            let r = format!("$ENV{{{}}}", n);
            case.vars.get(i).map_or(false, |v| v.is_some()) && got.matches(&r).count() > want.matches(&r).count()
        });
        return fail(
            if rescan { "C19:rescan" } else if unexpanded { "C19:not-expanded" } else { "C19:wrong-expansion" },
            format!("path {:?} with {:?} expanded to {:?}; a single left-to-right pass gives {:?}", case.path, NAMES.iter().zip(case.vars.iter()).filter(|(_, v)| v.is_some()).collect::<Vec<_>>(), got, want),
        );
    }
    classify(case, obs);
    Ok(())
}

// ---- end to end through the public builders -------------------------------------------------------------

const SAFE_LITERALS: [&str; 10] = ["a", "log", "é", " ", "-", ".x", "_", "$", "{", "}"];

fn safe_token() -> impl Strategy<Value = String> {
    prop_oneof![
        5 => prop::sample::select(SAFE_LITERALS.to_vec()).prop_map(|s| s.to_string()),
        6 => prop::sample::select(NAMES.to_vec()).prop_map(|n| format!("$ENV{{{}}}", n)),
        2 => prop::sample::select(vec!["$ENV{}", "$ENV{.a}", "$ENV{Lv-A}", "$ENV{LvA", "$ENV{$ENV{LvA}}", "$ENV"]).prop_map(|s| s.to_string()),
        // a reference cut short by the next reference: `$ENV{Lv$ENV{Q}}` - if Q is worth "AB" the text reads $ENV{LvAB}
        // afterwards, which is text, not a reference (nothing is scanned twice, in whichever direction)
        2 => (prop::sample::select(vec!["$ENV{Lv", "$ENV{LvA", "$ENV{_lv", "$ENV{"]), prop::sample::select(NAMES[..8].to_vec()), prop::sample::select(vec!["}", "", "}}"])).prop_map(|(p, n, s)| format!("{}$ENV{{{}}}{}", p, n, s)),
        1 => Just("/d".to_string()),
        2 => Just("/".to_string()),
    ]
}

pub fn e2e_strategy() -> impl Strategy<Value = Case> {
    (prop::collection::vec(safe_token(), 1..=6), vars(), 0u8..3).prop_map(|(t, vars, _)| Case { path: format!("f{}", t.concat()), vars })
}

fn fs_safe(p: &str) -> bool {
    !p.is_empty()
        && p.len() <= 200
        && !p.contains('\0')
        && !p.ends_with('/')
        && p.split('/').all(|c| c != "." && c != "..")
}

/// POSIX path resolution collapses repeated slashes
fn collapse(p: &str) -> String {
    let mut out = String::new();
    for c in p.chars() {
        if c == '/' && out.ends_with('/') {
            continue;
        }
        out.push(c);
    }
    out
}

pub fn check_e2e(tmp: &Path, case: &Case, obs: &mut Obs) -> CaseResult {
    install(&case.vars);
    let want_rel = reference(case);
    // (the given path may be long - a reference to a variable with a very long name - as long as what it expands to is not)
    if !fs_safe(&want_rel) || case.path.is_empty() || case.path.len() > 3000 || case.path.contains('\0') || case.path.ends_with('/') {
        obs.class("not-filesystem-safe(skipped)");
        return Ok(());
    }
    for which in 0..10 {
        let root = scratch(tmp, "c19");
        let given = format!("{}/{}", root.display(), case.path);
        if which == 3 || which == 4 {
            // truncate mode: the file that is emptied at open time is the one at the expanded location
            let old = root.join(collapse(&want_rel));
            std::fs::create_dir_all(old.parent().unwrap()).unwrap();
            std::fs::write(&old, b"content of an earlier run\n").unwrap();
        }
        // a file whose NAME is the path as written, references and all - left by an earlier run in which the variables
        // were not set - is a bystander: the appender opens the expanded location all the same
        const STALE: &[u8] = b"left by a run in which the variable was not set\n";
        let stale: Option<String> = if matches!(which, 0 | 1 | 5 | 6) && case.path.len() % 2 == 0 && fs_safe(&case.path) {
            let (l, e) = (collapse(&case.path), collapse(&want_rel));
            if l != e && !e.starts_with(&format!("{}/", l)) && !l.starts_with(&format!("{}/", e)) && !l.is_empty() {
                let f = std::path::PathBuf::from(format!("{}/{}", root.display(), l));
                match f.parent().map(std::fs::create_dir_all).unwrap_or(Ok(())).and_then(|_| std::fs::write(&f, STALE)) {
                    Ok(()) => Some(l),
                    Err(_) => None,
                }
            } else {
                None
            }
        } else {
            None
        };
        let r = catch(|| -> Result<(), String> {
            match which {
                0 => {
                    FileAppender::builder().encoder(make_encoder(&None)).build(&given).map_err(|e| e.to_string())?;
                }
                1 => {
                    let policy = make_policy(&root.join("unused"), &TrigSpec::Size(1 << 40), &RollSpec::Delete).map_err(|e| e.to_string())?;
                    build_appender(Path::new(&given), true, &None, policy).map_err(|e| e.to_string())?;
                }
                3 => {
                    FileAppender::builder().encoder(make_encoder(&None)).append(false).build(&given).map_err(|e| e.to_string())?;
                }
                4 => {
                    let policy = make_policy(&root.join("unused"), &TrigSpec::Size(1 << 40), &RollSpec::Delete).map_err(|e| e.to_string())?;
                    build_appender(Path::new(&given), false, &None, policy).map_err(|e| e.to_string())?;
                }
                8 => {
                    // the index comes first and the generated path (whose references may expand to text with '/') after
                    // it, all in what is written as one file name: window of 3, four rolls
                    let roller = FixedWindowRoller::builder().build(&format!("{}/arch/{{}}.{}", root.display(), case.path), 3).map_err(|e| e.to_string())?;
                    for i in 0..4 {
                        let src = root.join("rolled-src");
                        std::fs::write(&src, format!("roll {}", i)).map_err(|e| e.to_string())?;
                        roller.roll(&src).map_err(|e| e.to_string())?;
                    }
                }
                9 => {
                    // one roller, two rolls, and between them every variable of the pool gets another value: the second
                    // roll goes where the pattern leads NOW
                    let roller = FixedWindowRoller::builder().build(&format!("{}.{{}}", given), 2).map_err(|e| e.to_string())?;
                    let src = root.join("rolled-src");
                    std::fs::write(&src, b"roll 0").map_err(|e| e.to_string())?;
                    roller.roll(&src).map_err(|e| e.to_string())?;
                    install(&vec![Some("chg".to_string()); NAMES.len()]);
                    std::fs::write(&src, b"roll 1").map_err(|e| e.to_string())?;
                    let r = roller.roll(&src).map_err(|e| e.to_string());
                    install(&case.vars);
                    r?;
                }
                7 => {
                    // index in a directory component below the expanded path, window of 3, four rolls
                    let roller = FixedWindowRoller::builder().build(&format!("{}/{{}}/app.log", given), 3).map_err(|e| e.to_string())?;
                    for i in 0..4 {
                        let src = root.join("rolled-src");
                        std::fs::write(&src, format!("roll {}", i)).map_err(|e| e.to_string())?;
                        roller.roll(&src).map_err(|e| e.to_string())?;
                    }
                }
                5 | 6 => {
                    // the same locations reached through a configuration file (the deserializers build the appenders)
                    let q = |s: &str| serde_json::to_string(s).unwrap();
                    let yaml = if which == 5 {
                        format!("appenders:\n  a:\n    kind: file\n    path: {}\nroot:\n  level: info\n", q(&given))
                    } else {
                        format!("appenders:\n  a:\n    kind: rolling_file\n    path: {}\n    policy:\n      trigger:\n        kind: size\n        limit: 1gb\n      roller:\n        kind: delete\nroot:\n  level: info\n", q(&given))
                    };
                    let raw: log4rs::config::RawConfig = serde_yaml::from_str(&yaml).map_err(|e| format!("harness YAML: {}", e))?;
                    let (apps, errs) = raw.appenders_lossy(&log4rs::config::Deserializers::default());
                    if apps.len() != 1 {
                        return Err(format!("deserializing the appender failed: {:?}", errs));
                    }
                }
                _ => {
                    // (a window of one or of two, by the look of the path)
                    let roller = FixedWindowRoller::builder().build(&format!("{}.{{}}", given), 1 + (case.path.len() as u32 % 2)).map_err(|e| e.to_string())?;
                    let src = root.join("rolled-src");
                    std::fs::write(&src, b"x").map_err(|e| e.to_string())?;
                    roller.roll(&src).map_err(|e| e.to_string())?;
                }
            }
            Ok(())
        });
        let what = ["FileAppender", "RollingFileAppender", "FixedWindowRoller", "FileAppender(truncate mode)", "RollingFileAppender(truncate mode)", "kind: file (configuration file)", "kind: rolling_file (configuration file)", "FixedWindowRoller (index in a directory, 4 rolls)", "FixedWindowRoller (index before the path, 4 rolls)", "FixedWindowRoller (variables change between two rolls)"][which];
        install(&case.vars);
        let res = match r {
            Err(p) => {
                let _ = std::fs::remove_dir_all(&root);
                return fail("C19:panic", format!("{} with path {:?} panicked: {}", what, case.path, p));
            }
            Ok(r) => r,
        };
        let s = snap(&root);
        let _ = std::fs::remove_dir_all(&root);
        if let Err(e) = res {
            return fail("C19:build-error", format!("{} with path {:?} (expands to {:?}) failed: {}", what, case.path, want_rel, e));
        }
        // the roller replaces every "{}" of its pattern by the index before expanding
        let want_file = if which == 2 {
            expand_ref(&format!("{}.{{}}", case.path).replace("{}", "0"), &|name: &str| lookup_var(case, name))
        } else {
            want_rel.clone()
        };
        if !fs_safe(&want_file) {
            continue;
        }
        if which == 9 {
            let changed = Case { path: case.path.clone(), vars: vec![Some("chg".to_string()); NAMES.len()] };
            let pat = format!("{}.{{}}", case.path);
            let old = |i: usize| expand_ref(&pat.replace("{}", &i.to_string()), &|name: &str| lookup_var(case, name));
            let new = |i: usize| expand_ref(&pat.replace("{}", &i.to_string()), &|name: &str| lookup_var(&changed, name));
            if [old(0), old(1), new(0), new(1)].iter().any(|p| !fs_safe(p)) {
                continue;
            }
            let mut want: std::collections::BTreeMap<String, Vec<u8>> = Default::default();
            if collapse(&old(0)) == collapse(&new(0)) {
                // nothing in the path depends on the environment: an ordinary shift
                want.insert(collapse(&new(1)), b"roll 0".to_vec());
                want.insert(collapse(&new(0)), b"roll 1".to_vec());
            } else if collapse(&old(0)) == collapse(&new(1)) || collapse(&old(1)) == collapse(&new(0)) {
                continue;
            } else {
                want.insert(collapse(&old(0)), b"roll 0".to_vec());
                want.insert(collapse(&new(0)), b"roll 1".to_vec());
            }
            obs.sub_evals += 1;
            ensure!(
                s.files == want,
                if s.files.keys().any(|f| f.contains("$ENV{") && !want.contains_key(f)) { "C19:not-expanded" } else { "C19:wrong-location" },
                "{} given {:?}: after a roll, a change of every pool variable to \"chg\" and another roll the directory holds {:?}, expected {:?}", what, case.path, s.files.iter().map(|(k, v)| (k.clone(), String::from_utf8_lossy(v).to_string())).collect::<Vec<_>>(), want.iter().map(|(k, v)| (k.clone(), String::from_utf8_lossy(v).to_string())).collect::<Vec<_>>()
            );
            obs.class("variables-changed-between-two-rolls");
            continue;
        }
        if which == 7 || which == 8 {
            // archives 0..2 below the expanded location, newest first, nothing anywhere else
            // (the roller replaces every "{}" of its pattern - also one inside the given path - by the index before expanding)
            let pat = if which == 7 { format!("{}/{{}}/app.log", case.path) } else { format!("arch/{{}}.{}", case.path) };
            let at = |i: usize| expand_ref(&pat.replace("{}", &i.to_string()), &|name: &str| lookup_var(case, name));
            let base = at(0);
            if (0..3).any(|i| !fs_safe(&at(i))) {
                continue;
            }
            let want: std::collections::BTreeMap<String, Vec<u8>> = (0..3).map(|i| (collapse(&at(i)), format!("roll {}", 3 - i).into_bytes())).collect();
            obs.sub_evals += 1;
            ensure!(
                s.files == want,
                if s.files.keys().any(|f| f.contains("$ENV{")) { "C19:not-expanded" } else { "C19:wrong-location" },
                "{} given {:?}: after four rolls the directory holds {:?}; the expanded location is {:?} with archives 0..2", what, case.path, s.files.keys().collect::<Vec<_>>(), base
            );
            continue;
        }
        let want_file = collapse(&want_file);
        if let Some(l) = &stale {
            obs.sub_evals += 1;
            obs.class("stale-file-named-like-the-unexpanded-path");
            let mut want: std::collections::BTreeMap<String, Vec<u8>> = Default::default();
            want.insert(l.clone(), STALE.to_vec());
            want.insert(want_file.clone(), vec![]);
            ensure!(
                s.files == want,
                if !s.files.contains_key(&want_file) { "C19:not-expanded" } else { "C19:wrong-location" },
                "{} given {:?} next to a stale file of that literal name: the directory holds {:?}; expected the untouched stale file and an empty file at the expanded location {:?}", what, case.path, s.files.iter().map(|(k, v)| (k.clone(), v.len())).collect::<Vec<_>>(), want_file
            );
            continue;
        }
        let files: Vec<&String> = s.files.keys().collect();
        obs.sub_evals += 1;
        ensure!(
            files == vec![&want_file],
            if files.iter().any(|f| f.len() != want_file.len()) { "C19:rescan" } else { "C19:wrong-location" },
            "{} given {:?} created {:?}; the expanded location is {:?}", what, case.path, files, want_file
        );
        if which == 3 || which == 4 {
            ensure!(s.files[&want_file].is_empty(), "C19:truncate-wrong-file", "{} given {:?}: the file at the expanded location {:?} still holds {} bytes of the earlier run after being opened in truncate mode", what, case.path, want_file, s.files[&want_file].len());
        }
    }
    classify(case, obs);
    Ok(())
}

pub fn run(run: &Run) {
    let tmp = run.tmp.clone();
    run.run_replays::<Case>("bulk", &check_bulk);
    let t = tmp.clone();
    run.run_replays::<Case>("end-to-end", &move |c: &Case, o: &mut Obs| check_e2e(&t, c, o));
    run.search("bulk", run.tier.pick(100_000, 5_000_000), strategy(), &check_bulk);
    run.search("end-to-end", run.tier.pick(1_500, 60_000), e2e_strategy(), &move |c: &Case, o: &mut Obs| check_e2e(&tmp, c, o));
}

pub fn replay(part: &str, case: serde_json::Value) -> Option<CaseResult> {
    match part {
        "bulk" => Some(check_bulk(&serde_json::from_value(case).ok()?, &mut Obs::default())),
        "end-to-end" => {
            let tmp = std::env::temp_dir().join(format!("lv-replay-{}", std::process::id()));
            std::fs::create_dir_all(&tmp).ok()?;
            let r = check_e2e(&tmp, &serde_json::from_value(case).ok()?, &mut Obs::default());
            let _ = std::fs::remove_dir_all(&tmp);
            Some(r)
        }
        _ => None,
    }
}

pub fn meta() -> EvidenceMeta {
    EvidenceMeta {
        level: "exploration",
        rule: "cases = paths built as token sequences (literal ASCII/non-ASCII text, spaces, stray '$', '{', '}', '$ENV', '$ENV{', well-formed references to a pool of fourteen variables (two of a single ASCII letter, two with names of 264 and 1032 characters) (names incl. '.', '_' first, non-ASCII letters, non-ASCII decimal digits / letter numbers / other numbers) each set or unset per case, repeated and adjacent references, malformed references: empty name, illegal first/inner character, nested, missing brace at end or before '/') with '$'-free adversarial values (empty, braces, 'ENV{LvAB}', 'LvAB}', sub-directories, non-ASCII); oracle: (bulk, guarded hook) expansion == the harness's single left-to-right pass in which substituted text is never rescanned, no panic; (end-to-end, public API) FileAppender::build, RollingFileAppender::build, the same two through a YAML configuration file and the default deserializers, and FixedWindowRoller::roll on a filesystem-safe path under a fresh directory create exactly the file at the reference location and no other regular file, and in truncate mode empty the pre-existing file at that location. Further inputs (rounds 11-15): bystander variables that are not valid Unicode sit in the environment; one roller rolls twice with every pool variable changed in between; references cut short by the next reference (substituted text that only then reads like a reference); rollers with a window of one; names with dots further in; variables with names no reference can have ('.a', 'Lv-A') exist. non-trivial = a substituted reference together with a construct left verbatim, or a value containing braces, or a multi-byte variable name".into(),
        assumptions: vec!["values are '$'-free (the statement's domain)".into(), "environment mutated between cases: one driver thread per process".into()],
        mutants_caught: vec![],
    }
}
