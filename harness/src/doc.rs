//! A small document tree with three hand-written emitters (YAML, JSON, TOML). No serde serializer is
//! involved in rendering, so a shared serde quirk cannot cancel out between writer and reader.

use serde::{Deserialize, Serialize};

#[derive(Serialize, Deserialize, Debug, Clone, PartialEq)]
pub enum DV {
    Str(String),
    Int(i128),
    Bool(bool),
    /// YAML `~` / `null`, JSON `null`; TOML has no null (callers substitute)
    Null,
    Seq(Vec<DV>),
    Map(Vec<(String, DV)>),
}

impl DV {
    pub fn map(entries: Vec<(&str, DV)>) -> DV {
        DV::Map(entries.into_iter().map(|(k, v)| (k.to_string(), v)).collect())
    }
    pub fn s(x: &str) -> DV {
        DV::Str(x.to_string())
    }
    pub fn get_mut(&mut self, key: &str) -> Option<&mut DV> {
        match self {
            DV::Map(m) => m.iter_mut().find(|(k, _)| k == key).map(|(_, v)| v),
            _ => None,
        }
    }
    pub fn get(&self, key: &str) -> Option<&DV> {
        match self {
            DV::Map(m) => m.iter().find(|(k, _)| k == key).map(|(_, v)| v),
            _ => None,
        }
    }
    pub fn insert(&mut self, key: &str, v: DV) {
        if let DV::Map(m) = self {
            m.retain(|(k, _)| k != key);
            m.push((key.to_string(), v));
        }
    }
    pub fn remove(&mut self, key: &str) -> Option<DV> {
        if let DV::Map(m) = self {
            if let Some(i) = m.iter().position(|(k, _)| k == key) {
                return Some(m.remove(i).1);
            }
        }
        None
    }
    /// Follows a path of map keys.
    pub fn at_mut(&mut self, path: &[String]) -> Option<&mut DV> {
        let mut cur = self;
        for p in path {
            cur = cur.get_mut(p)?;
        }
        Some(cur)
    }
    /// Deterministic reordering of all map entries (generated key order).
    pub fn shuffle(&mut self, seed: u64) {
        fn go(v: &mut DV, seed: &mut u64) {
            match v {
                DV::Map(m) => {
                    let mut keyed: Vec<(u64, (String, DV))> = m
                        .drain(..)
                        .map(|e| {
                            *seed = seed.wrapping_mul(6364136223846793005).wrapping_add(1442695040888963407);
                            (*seed >> 33, e)
                        })
                        .collect();
                    keyed.sort_by_key(|x| x.0);
                    *m = keyed.into_iter().map(|x| x.1).collect();
                    for (_, c) in m.iter_mut() {
                        go(c, seed);
                    }
                }
                DV::Seq(s) => {
                    for c in s.iter_mut() {
                        go(c, seed);
                    }
                }
                _ => {}
            }
        }
        let mut s = seed | 1;
        go(self, &mut s);
    }
}

fn quote(s: &str) -> String {
    // JSON string syntax: valid in JSON, in YAML double-quoted scalars and as a TOML basic string
    let mut out = String::from("\"");
    for c in s.chars() {
        match c {
            '"' => out.push_str("\\\""),
            '\\' => out.push_str("\\\\"),
            '\n' => out.push_str("\\n"),
            '\t' => out.push_str("\\t"),
            '\r' => out.push_str("\\r"),
            c if (c as u32) < 0x20 || c as u32 == 0x7f => out.push_str(&format!("\\u{:04x}", c as u32)),
            c => out.push(c),
        }
    }
    out.push('"');
    out
}

// ---- JSON ------------------------------------------------------------------------------------------

pub fn to_json(v: &DV) -> String {
    match v {
        DV::Str(s) => quote(s),
        DV::Int(i) => i.to_string(),
        DV::Bool(b) => b.to_string(),
        DV::Null => "null".to_string(),
        DV::Seq(s) => format!("[{}]", s.iter().map(to_json).collect::<Vec<_>>().join(", ")),
        DV::Map(m) => format!("{{{}}}", m.iter().map(|(k, v)| format!("{}: {}", quote(k), to_json(v))).collect::<Vec<_>>().join(", ")),
    }
}

// ---- YAML ------------------------------------------------------------------------------------------

fn yaml_plain_ok(s: &str) -> bool {
    // plain scalars only for simple words that YAML does not read as another type
    !s.is_empty()
        && s.chars().all(|c| c.is_ascii_alphanumeric() || c == '_' || c == '.' || c == '/' || c == '-')
        && s.chars().next().map_or(false, |c| c.is_ascii_alphabetic() || c == '/')
        && !matches!(s.to_ascii_lowercase().as_str(), "true" | "false" | "null" | "yes" | "no" | "on" | "off" | "y" | "n" | "nan" | "inf")
        && !s.contains("//")
}

fn yaml_scalar(v: &DV, style: u64) -> String {
    match v {
        DV::Str(s) => {
            if style & 1 == 0 && yaml_plain_ok(s) {
                s.clone()
            } else {
                quote(s)
            }
        }
        DV::Int(i) => i.to_string(),
        DV::Bool(b) => b.to_string(),
        DV::Null => if style & 1 == 0 { "~".to_string() } else { "null".to_string() },
        _ => unreachable!(),
    }
}

fn yaml_flow(v: &DV, style: u64) -> String {
    match v {
        DV::Seq(s) => format!("[{}]", s.iter().map(|x| yaml_flow(x, style)).collect::<Vec<_>>().join(", ")),
        DV::Map(m) => format!("{{{}}}", m.iter().map(|(k, x)| format!("{}: {}", quote(k), yaml_flow(x, style))).collect::<Vec<_>>().join(", ")),
        s => yaml_scalar(s, style | 1),
    }
}

fn has_long_key(v: &DV) -> bool {
    match v {
        DV::Map(m) => m.iter().any(|(k, x)| k.len() > 800 || has_long_key(x)),
        DV::Seq(s) => s.iter().any(has_long_key),
        _ => false,
    }
}

fn yaml_block(v: &DV, indent: usize, style: &mut u64, out: &mut String) {
    let pad = " ".repeat(indent);
    match v {
        DV::Map(m) => {
            for (k, x) in m {
                *style = style.wrapping_mul(6364136223846793005).wrapping_add(1442695040888963407);
                let st = *style >> 40;
                let key = if yaml_plain_ok(k) && st & 2 == 0 { k.clone() } else { quote(k) };
                // YAML limits implicit keys to 1024 characters: longer ones are written as explicit keys ("? key")
                let (key, sep) = if key.len() > 900 { (format!("? {}\n{}", key, pad), ":".to_string()) } else { (key, ":".to_string()) };
                let _ = &sep;
                match x {
                    DV::Map(mm) if mm.is_empty() => out.push_str(&format!("{}{}: {{}}\n", pad, key)),
                    DV::Seq(ss) if ss.is_empty() => out.push_str(&format!("{}{}: []\n", pad, key)),
                    DV::Map(_) | DV::Seq(_) => {
                        if st & 12 == 0 && !has_long_key(x) {
                            out.push_str(&format!("{}{}: {}\n", pad, key, yaml_flow(x, st)));
                        } else {
                            out.push_str(&format!("{}{}:\n", pad, key));
                            yaml_block(x, indent + 2, style, out);
                        }
                    }
                    s => out.push_str(&format!("{}{}: {}\n", pad, key, yaml_scalar(s, st))),
                }
            }
        }
        DV::Seq(s) => {
            for x in s {
                match x {
                    DV::Map(_) | DV::Seq(_) => out.push_str(&format!("{}- {}\n", pad, yaml_flow(x, *style))),
                    sc => out.push_str(&format!("{}- {}\n", pad, yaml_scalar(sc, *style >> 40))),
                }
            }
        }
        s => out.push_str(&format!("{}{}\n", pad, yaml_scalar(s, *style))),
    }
}

pub fn to_yaml(v: &DV, style: u64) -> String {
    let mut out = String::new();
    let mut st = style | 1;
    match v {
        DV::Map(m) if m.is_empty() => out.push_str("{}\n"),
        _ => yaml_block(v, 0, &mut st, &mut out),
    }
    out
}

// ---- TOML ------------------------------------------------------------------------------------------

fn toml_key(k: &str) -> String {
    if !k.is_empty() && k.chars().all(|c| c.is_ascii_alphanumeric() || c == '_' || c == '-') {
        k.to_string()
    } else {
        quote(k)
    }
}

fn toml_inline(v: &DV) -> String {
    match v {
        DV::Str(s) => quote(s),
        DV::Int(i) => i.to_string(),
        DV::Bool(b) => b.to_string(),
        DV::Null => "\"\"".to_string(),
        DV::Seq(s) => format!("[{}]", s.iter().map(toml_inline).collect::<Vec<_>>().join(", ")),
        DV::Map(m) => format!("{{ {} }}", m.iter().map(|(k, x)| format!("{} = {}", toml_key(k), toml_inline(x))).collect::<Vec<_>>().join(", ")),
    }
}

/// Top-level scalars first, then tables: as `[section]` with inline members, as `[a.b]` sub-sections,
/// or fully inline, chosen by `style`.
pub fn to_toml(v: &DV, style: u64) -> String {
    let DV::Map(m) = v else { return toml_inline(v) };
    let mut out = String::new();
    let mut st = style | 1;
    let mut tables = vec![];
    for (k, x) in m {
        match x {
            DV::Map(_) => tables.push((k, x)),
            _ => out.push_str(&format!("{} = {}\n", toml_key(k), toml_inline(x))),
        }
    }
    // inline tables must precede the first [section] header
    let mut sections = String::new();
    for (k, x) in tables {
        st = st.wrapping_mul(6364136223846793005).wrapping_add(1442695040888963407);
        let choice = (st >> 40) % 3;
        let DV::Map(mm) = x else { unreachable!() };
        if choice == 0 {
            out.push_str(&format!("{} = {}\n", toml_key(k), toml_inline(x)));
        } else if choice == 1 || mm.iter().any(|(_, y)| !matches!(y, DV::Map(_))) {
            sections.push_str(&format!("\n[{}]\n", toml_key(k)));
            for (k2, y) in mm {
                sections.push_str(&format!("{} = {}\n", toml_key(k2), toml_inline(y)));
            }
        } else {
            // every member is a table: [k.member] sub-sections
            if mm.is_empty() {
                sections.push_str(&format!("\n[{}]\n", toml_key(k)));
            }
            for (k2, y) in mm {
                sections.push_str(&format!("\n[{}.{}]\n", toml_key(k), toml_key(k2)));
                if let DV::Map(m3) = y {
                    for (k3, z) in m3 {
                        sections.push_str(&format!("{} = {}\n", toml_key(k3), toml_inline(z)));
                    }
                }
            }
        }
    }
    out.push_str(&sections);
    out
}

#[derive(Serialize, Deserialize, Debug, Clone, Copy, PartialEq)]
pub enum Format {
    Yaml,
    Json,
    Toml,
}

impl Format {
    pub fn ext(&self) -> &'static str {
        match self {
            Format::Yaml => "yml",
            Format::Json => "json",
            Format::Toml => "toml",
        }
    }
    pub fn render(&self, v: &DV, style: u64) -> String {
        match self {
            Format::Yaml => to_yaml(v, style),
            Format::Json => to_json(v),
            Format::Toml => to_toml(v, style),
        }
    }
}
