//! C11 — any pattern string is safe: no panic, errors surface as {ERROR: ...} markers.

use crate::engine::*;
use crate::ensure;
use crate::pat::*;
use log4rs::encode::pattern::PatternEncoder;
use proptest::prelude::*;
use serde::{Deserialize, Serialize};
use std::sync::Mutex;

pub const ALPHABET: [char; 14] = ['{', '}', '(', ')', '\\', ':', '<', '>', '.', '0', '9', 'm', 'd', '%'];
pub const WIDTH_SANITY: u128 = 262_144;

fn fixed_recs() -> Vec<Rec> {
    vec![
        Rec { level: 0, msg: vec!["héllo".into(), " wörld".into()], target: "a::b".into(), module: Some("mod".into()), file: None, line: Some(7), mdc: vec![("k".into(), "v".into())] },
        Rec { level: 4, msg: vec![String::new()], target: String::new(), module: None, file: Some("f.rs".into()), line: None, mdc: vec![] },
    ]
}

/// true when some explicit digit run lies between the sanity bound and what a usize can hold: such a
/// width is legal and would make the encoder pad for hours, so encoding is not exercised (the statement's
/// sanity bound). Runs that do not even fit a usize must surface as an error and ARE encoded (into a
/// sink that refuses more than 1 MiB, so that a wrapped width cannot run away).
pub fn absurd_width(s: &str) -> bool {
    let mut cur: u128 = 0;
    let mut in_run = false;
    let mut bad = false;
    let mut close = |cur: u128, in_run: bool, bad: &mut bool| {
        if in_run && cur > WIDTH_SANITY && cur <= u64::MAX as u128 {
            *bad = true;
        }
    };
    for c in s.chars() {
        if let Some(d) = c.to_digit(10) {
            in_run = true;
            cur = cur.saturating_mul(10).saturating_add(d as u128);
        } else {
            close(cur, in_run, &mut bad);
            cur = 0;
            in_run = false;
        }
    }
    close(cur, in_run, &mut bad);
    bad
}

/// Classifies a panic message into a signature.
pub fn panic_sig(stage: &str, msg: &str) -> String {
    if msg.contains("overflow") && msg.contains("parser.rs") {
        "C11:panic:width-overflow".to_string()
    } else if msg.contains("formatting trait implementation returned an error") {
        "C11:panic:date-format".to_string()
    } else {
        format!("C11:panic:{}", stage)
    }
}

/// Construct + encode under catch_unwind; returns per record (output, encode result).
pub fn exercise(s: &str, recs: &[Rec]) -> Result<Vec<(String, bool)>, Failure> {
    let panics_before = panics_on_this_thread();
    let enc = match catch(|| PatternEncoder::new(s)) {
        Ok(e) => e,
        Err(p) => return fail(panic_sig("construct", &p), format!("PatternEncoder::new({:?}) panicked: {}", s, p)),
    };
    ensure!(panics_on_this_thread() == panics_before, "C11:panic:caught-inside", "PatternEncoder::new({:?}) raised a panic and caught it again by itself (the panic hook ran): with panic = \"abort\" or a hook that aborts, that ends the process", s);
    let mut outs = vec![];
    if absurd_width(s) {
        return Ok(outs);
    }
    for rec in recs {
        // the sink takes everything at once, one byte per call, or a mix with interruptions (a function of the pattern)
        let script: Vec<u8> = match fnv64(s.as_bytes()) % 4 {
            0 | 1 => vec![],
            2 => vec![1],
            _ => vec![2, 1, SCRIPT_INTERRUPT, 3],
        };
        match catch(|| encode_limited(&enc, rec, script, Some(1 << 20))) {
            Ok((w, res)) => {
                ensure!(panics_on_this_thread() == panics_before, "C11:panic:caught-inside", "encoding with pattern {:?} raised a panic and caught it again by itself (the panic hook ran)", s);
                let bytes = w.bytes();
                let out = match String::from_utf8(bytes) {
                    Ok(o) => o,
                    Err(e) => return fail("C10:invalid-utf8", format!("pattern {:?}: output not valid UTF-8: {:?}", s, e.into_bytes())),
                };
                outs.push((out, res.is_ok()));
            }
            Err(p) => return fail(panic_sig("encode", &p), format!("encode panicked for pattern {:?}: {}", s, p)),
        }
    }
    Ok(outs)
}

/// `differential`, taken again when a pattern with dates did not match: the reference renders every date of a
/// pattern for ONE second, while an encode that runs across the turn of a second gives its dates different seconds.
/// Such an encode is simply repeated (three mismatches in a row are not the clock).
pub fn differential_settled(s: &str, recs: &[Rec], outs: &[(String, bool)], obs: &mut Obs) -> CaseResult {
    let first = differential(s, recs, outs, obs);
    let dated = s.contains("{d") || s.contains("{date");
    match &first {
        Err(f) if dated && (f.sig == "C11:wellformed-output-differs" || f.sig == "C11:false-error") => {
            for _ in 0..2 {
                let again = exercise(s, recs)?;
                if differential(s, recs, &again, obs).is_ok() {
                    obs.class("date-pattern-encoded-across-the-turn-of-a-second(repeated)");
                    return Ok(());
                }
            }
            first
        }
        _ => first,
    }
}

// ---- part 1: exhaustive over the syntax alphabet ------------------------------------------------

#[derive(Serialize, Deserialize, Debug, Clone)]
pub struct Str(pub String);

/// Differential oracle against the reference parser of the documented grammar.
pub fn differential(s: &str, recs: &[Rec], outs: &[(String, bool)], obs: &mut Obs) -> CaseResult {
    use crate::refparse::{self, Parsed};
    if outs.is_empty() {
        return Ok(());
    }
    match refparse::parse(s) {
        Parsed::Unsettled(_) => obs.class("grammar-unsettled(no-panic only)"),
        Parsed::Ok(pat) => {
            obs.class("well-formed(reference)");
            let no_thread = count_nodes(&pat, &|n| matches!(n, Node::Fmt { kind: Kind::Thread, .. })) == 0;
            let has_max_below_min = false;
            if !has_date(&pat) && no_thread && !has_max_below_min {
                for (rec, (out, ok)) in recs.iter().zip(outs.iter()) {
                    let env = Env { thread_name: "main".into(), debug_build: cfg!(debug_assertions), now_secs: 0 };
                    let want = render(&pat, rec, &env);
                    ensure!(*ok, "C11:wellformed-encode-error", "pattern {:?} is well-formed by the documented grammar but encode returned an error", s);
                    ensure!(
                        *out == want,
                        if out.contains("{ERROR:") && !want.contains("{ERROR:") { "C11:false-error" } else { "C11:wellformed-output-differs" },
                        "pattern {:?} is well-formed by the documented grammar: output {:?}, meaning {:?}", s, out, want
                    );
                }
            } else if !refparse::has_subsecond_date(&pat) && !has_date(&pat) {
                // thread names depend on the caller
            } else if no_thread && !refparse::has_subsecond_date(&pat) {
                // dates of whole-second granularity: the meaning is computable for the seconds around "now"
                let now = std::time::SystemTime::now().duration_since(std::time::UNIX_EPOCH).unwrap().as_secs() as i64;
                for (rec, (out, ok)) in recs.iter().zip(outs.iter()) {
                    ensure!(*ok, "C11:wellformed-encode-error", "pattern {:?} is well-formed by the documented grammar but encode returned an error", s);
                    let wants: Vec<String> = (-3..=1).map(|dt| render(&pat, rec, &Env { thread_name: "main".into(), debug_build: cfg!(debug_assertions), now_secs: now + dt })).collect();
                    ensure!(
                        wants.iter().any(|w| w == out),
                        if out.contains("{ERROR: ") && !wants[0].contains("{ERROR: ") { "C11:false-error" } else { "C11:wellformed-output-differs" },
                        "pattern {:?} is well-formed by the documented grammar: output {:?}, meaning (at unix {}) {:?}", s, out, now, wants[3]
                    );
                }
            } else {
                // sub-second dates / thread names: only the error marker can be judged, and only where no literal
                // brace of the pattern can produce the same text
                let literal_brace = s.contains("{{") || s.contains("\\{") || s.contains("ERROR");
                for (out, ok) in outs {
                    ensure!(*ok && (literal_brace || !out.contains("{ERROR: ")), "C11:false-error", "pattern {:?} is well-formed by the documented grammar but the output shows an error: {:?}", s, out);
                }
            }
        }
        p @ (Parsed::Malformed(..) | Parsed::MalformedNested(..)) => {
            let (prefix, why, nested) = match p {
                Parsed::Malformed(a, b) => (a, b, false),
                Parsed::MalformedNested(a, b) => (a, b, true),
                _ => unreachable!(),
            };
            obs.class(if nested { "malformed-inside-an-argument(reference)" } else { "malformed(reference)" });
            for (rec, (out, ok)) in recs.iter().zip(outs.iter()) {
                ensure!(
                    nested || out.contains("{ERROR:") || !*ok,
                    "C11:error-not-surfaced",
                    "pattern {:?} is malformed ({}) but neither an {{ERROR: ...}} marker nor a returned error shows it: output {:?}", s, why, out
                );
                if !has_date(&prefix) && count_nodes(&prefix, &|n| matches!(n, Node::Fmt { kind: Kind::Thread, .. })) == 0 {
                    let env = Env { thread_name: "main".into(), debug_build: cfg!(debug_assertions), now_secs: 0 };
                    let head = render(&prefix, rec, &env);
                    ensure!(out.starts_with(&head), "C11:prefix-not-rendered", "pattern {:?} is malformed ({}) after a valid prefix: output {:?} does not start with the prefix's rendering {:?}", s, why, out, head);
                }
            }
        }
    }
    Ok(())
}

pub fn check_str(case: &Str, obs: &mut Obs) -> CaseResult {
    let recs = fixed_recs();
    let outs = exercise(&case.0, &recs)?;
    differential_settled(&case.0, &recs, &outs, obs)?;
    let has_err = outs.iter().any(|(o, ok)| o.contains("{ERROR:") || !*ok);
    let has_other = outs.iter().any(|(o, _)| {
        let stripped = o.replace("{ERROR:", "");
        !stripped.is_empty()
    });
    obs.nontrivial = (has_err && has_other) || case.0.contains('%') && case.0.contains("d(");
    obs.class_if(has_err, "error-surfaced");
    obs.class_if(!has_err && !outs.is_empty(), "no-error");
    obs.class_if(outs.is_empty(), "width-above-sanity-bound(construct only)");
    Ok(())
}

fn sweep(run: &Run, max_len: usize) -> bool {
    // enumerate all strings over ALPHABET of length 0..=max_len; workers take residues of the index
    let (k, w) = (run.worker.0 as u64, run.worker.1 as u64);
    let mut idx: u64 = 0;
    for len in 0..=max_len {
        let total = (ALPHABET.len() as u64).pow(len as u32);
        for n in 0..total {
            idx += 1;
            if idx % w != k {
                continue;
            }
            let mut s = String::with_capacity(len);
            let mut x = n;
            for _ in 0..len {
                s.push(ALPHABET[(x % ALPHABET.len() as u64) as usize]);
                x /= ALPHABET.len() as u64;
            }
            if !run.eval_one("exhaustive", &Str(s), &check_str) {
                return false; // stop at the first violation of the sweep
            }
        }
    }
    true
}

// ---- part 2: valid prefix + breaker + suffix ---------------------------------------------------

#[derive(Serialize, Deserialize, Debug, Clone)]
pub struct Broken {
    pub prefix: Pat,
    pub breaker: String,
    pub suffix: Pat,
    pub rec: Rec,
    /// the whole thing sits inside a group: 1 `{(..)}`, 2 `{(..):.3000}`, 3 `{h(..):.2000}`, 4 `{(..):<1.3000}` - what
    /// precedes the error inside the group still renders (only where prefix, breaker and suffix are free of parentheses)
    #[serde(default)]
    pub wrap: u8,
}

pub const BREAKERS: [&str; 62] = [
    // two arguments for the profile groups: one of the two is the group of the profile that is NOT active in this build
    "{D(a)(b)}", "{R(a)(b)}", "{debug({m})({l})}", "{release({m})({l})}",
    // a malformed DEFAULT of an MDC formatter (nested formatter, stray brace, lone backslash, three arguments)
    "{X(k)({m})}", "{X(k)(n/a}x)}", "{mdc(k)(C:\\temp)}", "{X(k)(a)(b)}",
    "{m:99999999999999999999.3}", "{m:_<18446744073709551616.3}", "{m:3.99999999999999999999}", "{l:>99999999999999999999.99999999999999999999}", "{(x):18446744073709551616}", "{m:0.18446744073709551616}",
    "}", ")", "(", "\\x", "\\", "{nope}", "{zz9}", "{m(x)}", "{l()}", "{h}", "{D}", "{R}", "{}", "{(a)(b)}", "{d(%Y)(mars)}", "{d(%Y)()}",
    "{d(%Y)(utc)(x)}", "{X}", "{X()}", "{X(a)(b)(c)}", "{X({m})}", "{m:5", "{m:>", "{(abc", "{m:5.x}", "{m:x5}", "{m 5}", "{h(a)(b)}",
    "{d(%Y)({m})}", "{m:-5}",
    // a zone name followed by more: the argument as a whole is not a zone
    "{d(%Y)(utc{m})}", "{d(%Y)(local{{)}", "{d(%Y)(utc\\))}", "{d(%Y)(local{d(%Y)(utc)})}", "{d(%Y)(utcutc)}",
    // an error inside the date format under the date formatter's own (small) max width
    "{d({m}):.0}", "{d(%Y {l}):.3}", "{d(%Y{nope})(utc):>2.4}",
    // characters that are numeric for Unicode but no digits of the grammar, in width positions
    "{m:\u{663}}", "{m:>\u{b2}}", "{m:.\u{2460}}", "{m:1\u{96b}}", "{l:\u{ff13}.\u{ff15}}", "{m:<\u{2167}}",
    // unknown formatter names longer than any plausible echo limit, multi-byte characters at every offset
    "{語語語語語語語語語語語語語語語語語語語語語語}", "{a語語語語語語語語語語語語語語語語語語語語語語語語語語語語語語語語語語語語語語語語語語語}", "{abééééééééééééééééééééééééééééééééééééééééééééééééééééééééééééééééééééééé}", "{😀x😀😀😀😀😀😀😀😀😀😀😀😀😀😀😀😀😀😀😀😀😀😀😀😀😀😀😀😀😀😀😀😀😀}",
];

pub fn broken_strategy() -> impl Strategy<Value = Broken> {
    (pattern(0.3), any::<u16>(), pattern(0.3), rec(), prop_oneof![3 => Just(0u8), 2 => 1u8..5]).prop_map(|(prefix, b, suffix, rec, wrap)| Broken {
        prefix,
        breaker: pick(&BREAKERS[..], b).to_string(),
        suffix,
        rec,
        wrap,
    })
}

pub fn check_broken(case: &Broken, obs: &mut Obs) -> CaseResult {
    // dates in the prefix would need bracketing: the prefix oracle is time-free
    if has_date(&case.prefix) {
        obs.class("prefix-with-date(skipped)");
        return Ok(());
    }
    let p = print(&case.prefix, false);
    // a separator keeps the breaker from pairing with the suffix's first character ("(" + "(" = escape)
    let unterminated = case.breaker.starts_with('{') && !case.breaker.ends_with('}');
    let s = if unterminated {
        format!("{}{}", p, case.breaker)
    } else if case.breaker == "\\" {
        format!("{}{}", p, case.breaker) // a lone backslash at the very end
    } else {
        format!("{}{} {}", p, case.breaker, print(&case.suffix, false))
    };
    // inside a group: only where nothing but the group's own parentheses is in play
    // Only breakers that are well-formed as far as the grammar goes and wrong in what they say (unknown formatter, wrong
    // number of arguments, unknown zone): they leave the enclosing group's syntax intact. A formatter whose own text is
    // malformed takes the formatters around it down with it - the group as a whole is then the unit that is in error.
    const SEMANTIC: [&str; 17] = ["{nope}", "{zz9}", "{h}", "{D}", "{R}", "{X}", "{m(x)}", "{l()}", "{X()}", "{X(a)(b)(c)}", "{(a)(b)}", "{h(a)(b)}", "{d(%Y)(mars)}", "{d(%Y)()}", "{d(%Y)(utc)(x)}", "{d(%Y)(utcutc)}", "{語語語語語語語語語語語語語語語語語語語語語語}"];
    let paren_free = |x: &str| !(x.contains('(') || x.contains(')') || x.contains('\\'));
    let wrappable = case.wrap % 5 != 0 && SEMANTIC.contains(&&case.breaker[..]) && paren_free(&p) && paren_free(&print(&case.suffix, false));
    let s = if wrappable {
        obs.class("error-inside-a-group");
        match case.wrap % 5 {
            1 => format!("{{({})}}", s),
            2 => format!("{{({}):.3000}}", s),
            3 => format!("{{h({}):.2000}}", s),
            _ => format!("{{({}):<1.3000}}", s),
        }
    } else {
        s
    };
    let outs = exercise(&s, std::slice::from_ref(&case.rec))?;
    let Some((out, ok)) = outs.first() else {
        obs.class("width-above-sanity-bound(construct only)");
        return Ok(());
    };
    let env = Env { thread_name: "main".into(), debug_build: cfg!(debug_assertions), now_secs: 0 };
    let head = render(&case.prefix, &case.rec, &env);
    // (a record that renders to more than the group's maximum would be cut: not what is studied here)
    if wrappable && out.chars().count() >= 1900 {
        obs.class("group-content-beyond-its-max-width(skipped)");
        return Ok(());
    }
    ensure!(
        out.starts_with(&head),
        "C11:prefix-not-rendered",
        "pattern {:?}: text and formatters before the error must still render: output {:?} does not start with {:?}", s, out, head
    );
    let rest = &out[head.len()..];
    ensure!(
        rest.contains("{ERROR:") || !*ok,
        "C11:error-not-surfaced",
        "pattern {:?} (broken by {:?} after a valid prefix): no {{ERROR: ...}} marker after the prefix and no returned error; output {:?}", s, case.breaker, out
    );
    obs.nontrivial = !head.is_empty();
    obs.class(format!("breaker={}", case.breaker));
    Ok(())
}

// ---- part 3: arbitrary strings and token soup -----------------------------------------------

#[derive(Serialize, Deserialize, Debug, Clone)]
pub struct Soup {
    pub s: String,
    pub rec: Rec,
}

const TOKENS: [&str; 58] = [
    "65535", "65536", "70000", "{m:65541}", "131072",
    "{", "}", "(", ")", "\\", ":", "<", ">", ".", "{{", "}}", "((", "))", "{m}", "{d}", "{d(", "{date(", "%Y", "%Q", "%", "%.3f", "%+", "%#z", "%:::z", "%-", "utc",
    "local", "{X(", "{h(", "{D(", "{R(", "{(", "{l", "{thread_id", "m", "é", "😀", "\u{0301}", "\n", "0", "9", "5", "12", "4095", "4097", "99999999999999999999999",
    "18446744073709551616", "x", "\u{663}", "\u{b2}", "\u{2460}", "\u{ff13}", "{m:",
];

pub fn soup_strategy() -> impl Strategy<Value = Soup> {
    let s = prop_oneof![
        2 => any::<String>(),
        1 => "\\PC{0,24}",
        6 => prop::collection::vec(any::<u16>(), 0..=12).prop_map(|v| v.into_iter().map(|i| *pick(&TOKENS[..], i)).collect::<Vec<_>>().concat()),
        3 => (pattern(0.4), prop::collection::vec((any::<u16>(), 0u8..4, any::<u16>()), 1..=3)).prop_map(|(p, edits)| {
            // mutations of a valid pattern: delete / insert / replace a character, truncate
            let mut cs: Vec<char> = print(&p, false).chars().collect();
            for (pos, kind, tok) in edits {
                if cs.is_empty() { break; }
                let i = (pos as usize * cs.len()) >> 16;
                match kind {
                    // splice a digit run of 1-40 digits into a spec: right after a ':' or '.' when there is one
                    0 if tok & 1 == 1 => {
                        let at = cs.iter().enumerate().skip(i).find(|(_, c)| **c == ':' || **c == '.').map(|(k, _)| k + 1).unwrap_or(i);
                        let n = 1 + (tok as usize >> 1) % 40;
                        for k in 0..n {
                            cs.insert(at + k, char::from(b'0' + ((tok as usize + k * 7) % 10) as u8));
                        }
                    }
                    0 => { cs.remove(i); }
                    1 => { let t: Vec<char> = pick(&TOKENS[..], tok).chars().collect(); for (k, c) in t.into_iter().enumerate() { cs.insert(i + k, c); } }
                    2 => { cs[i] = *pick(&ALPHABET[..], tok); }
                    _ => { cs.truncate(i); }
                }
            }
            cs.into_iter().collect()
        }),
    ];
    (s, rec()).prop_map(|(s, rec)| Soup { s, rec })
}

pub fn check_soup(case: &Soup, obs: &mut Obs) -> CaseResult {
    let outs = exercise(&case.s, std::slice::from_ref(&case.rec))?;
    differential_settled(&case.s, std::slice::from_ref(&case.rec), &outs, obs)?;
    let has_err = outs.iter().any(|(o, ok)| o.contains("{ERROR:") || !*ok);
    let has_other = outs.iter().any(|(o, _)| !o.replace("{ERROR:", "").is_empty());
    let big = case.s.split(|c: char| !c.is_ascii_digit()).any(|d| d.len() >= 10);
    obs.nontrivial = (has_err && has_other) || big || (case.s.contains('%') && case.s.contains("{d"));
    obs.class_if(has_err, "error-surfaced");
    obs.class_if(big, "width>=2^32-ish");
    obs.class_if(outs.is_empty(), "width-above-sanity-bound(construct only)");
    obs.class_if(case.s.contains('%'), "percent");
    Ok(())
}

/// Every strftime directive `%<modifier><char>` over printable ASCII, alone and after a valid item,
/// with and without a zone argument: none may panic at construction or at encoding.
fn sweep_date_directives(run: &Run) -> bool {
    if run.worker.0 != 0 {
        return true;
    }
    let modifiers = ["", "-", "_", "0", "#", ":", "::", ":::", ".", ".3", ".6", ".9", "3", "6", "9", "+"];
    let mut ok = true;
    for m in modifiers {
        for c in 0x20u8..0x7f {
            let ch = c as char;
            if "{}()\\".contains(ch) {
                continue;
            }
            for form in ["{{d(%{}{})}}", "{{d(%Y-%{}{})(utc)}}", "{{date(%{}{}%H)(local):>30}}"] {
                let s = form.replacen("{}", m, 1).replacen("{}", &ch.to_string(), 1).replace("{{", "{").replace("}}", "}");
                ok &= run.eval_one("date-directives", &Str(s), &check_str);
            }
        }
    }
    ok
}

// ---- encoding while the thread is being torn down --------------------------------------------------------------------

/// A thread-local guard that logs "worker finished" from its destructor is an ordinary thing to have; by then other
/// thread-locals of the thread (registered later) are already gone. Runs in a child process: a panic inside a
/// thread-local destructor aborts the process. Left out: local-zone dates and MDC lookups, which rest on
/// thread-locals of chrono, std and log-mdc themselves (chrono's `Local` cannot be used from a thread-local destructor).
#[derive(Serialize, Deserialize, Debug, Clone)]
pub struct Teardown {
    pub patterns: Vec<String>,
}

static TEARDOWN_PATTERNS: Mutex<Vec<String>> = Mutex::new(Vec::new());
static TEARDOWN_LIFE: Mutex<Vec<String>> = Mutex::new(Vec::new());
static TEARDOWN_EXIT: Mutex<Vec<Result<String, String>>> = Mutex::new(Vec::new());

struct ExitGuard;

fn teardown_encode(p: &str) -> Result<String, String> {
    let enc = PatternEncoder::new(p);
    let mut w = CapW::new(vec![]);
    let rec = log::Record::builder().args(format_args!("bye")).level(log::Level::Info).target("app").module_path(Some("m")).file(Some("f.rs")).line(Some(1)).build();
    match catch(|| log4rs::encode::Encode::encode(&enc, &mut w, &rec)) {
        Ok(Ok(())) => Ok(String::from_utf8_lossy(&w.bytes()).to_string()),
        Ok(Err(e)) => Err(format!("error: {}", e)),
        Err(p) => Err(format!("panic: {}", p)),
    }
}

impl Drop for ExitGuard {
    fn drop(&mut self) {
        let pats = TEARDOWN_PATTERNS.lock().unwrap().clone();
        for p in pats {
            let r = teardown_encode(&p);
            TEARDOWN_EXIT.lock().unwrap().push(r);
        }
    }
}

thread_local! {
    static EXIT_GUARD: ExitGuard = ExitGuard;
}

pub fn teardown_child(c: &Teardown, obs: &mut Obs) -> CaseResult {
    *TEARDOWN_PATTERNS.lock().unwrap() = c.patterns.clone();
    let pats = c.patterns.clone();
    let h = std::thread::Builder::new().name("worker".into()).spawn(move || {
        // the guard first, so that everything the encoder keeps per thread is registered after it
        EXIT_GUARD.with(|_| {});
        for p in &pats {
            let r = teardown_encode(p);
            TEARDOWN_LIFE.lock().unwrap().push(r.unwrap_or_else(|e| e));
        }
    });
    let joined = h.unwrap().join();
    ensure!(joined.is_ok(), "C11:panic:thread-exit", "the worker thread ended with a panic");
    let life = TEARDOWN_LIFE.lock().unwrap().clone();
    let exit = TEARDOWN_EXIT.lock().unwrap().clone();
    ensure!(exit.len() == c.patterns.len(), "C11:panic:thread-exit", "the thread-exit guard encoded {} of {} patterns", exit.len(), c.patterns.len());
    for (i, p) in c.patterns.iter().enumerate() {
        obs.sub_evals += 1;
        match &exit[i] {
            Err(e) => return fail("C11:panic:thread-exit", format!("pattern {:?} encoded from a thread-local destructor at thread exit: {}", p, e)),
            Ok(s) => ensure!(*s == life[i], "C11:thread-exit-output-differs", "pattern {:?}: {:?} during the thread's life, {:?} from a thread-local destructor at its exit", p, life[i], s),
        }
    }
    obs.nontrivial = true;
    Ok(())
}

/// The process's stderr is a pipe nobody reads any more (a supervisor that went away, `2>&1 | head`): whatever the
/// library likes to say there about a broken pattern, saying it must not end in a panic.
pub fn broken_stderr_child(c: &Teardown, obs: &mut Obs) -> CaseResult {
    unsafe {
        let mut fds = [0i32; 2];
        if libc::pipe(fds.as_mut_ptr()) == 0 {
            libc::dup2(fds[1], 2);
            libc::close(fds[0]);
            libc::close(fds[1]);
        }
    }
    let recs = vec![Rec { level: 2, msg: vec!["hello".into()], target: "app".into(), module: Some("m".into()), file: None, line: Some(7), mdc: vec![] }];
    for p in &c.patterns {
        exercise(p, &recs)?;
        obs.sub_evals += 1;
    }
    obs.nontrivial = true;
    obs.class("stderr-is-a-broken-pipe");
    Ok(())
}

pub fn check_broken_stderr(tmp: &std::path::Path, c: &Teardown, obs: &mut Obs) -> CaseResult {
    let out = crate::child::call_child(tmp, "c11stderr", c, &[], std::time::Duration::from_secs(60));
    crate::child::absorb(out, obs)
}

pub fn check_teardown(tmp: &std::path::Path, c: &Teardown, obs: &mut Obs) -> CaseResult {
    let out = crate::child::call_child(tmp, "c11tls", c, &[], std::time::Duration::from_secs(60));
    crate::child::absorb(out, obs)
}

// ---- a message argument that encodes records of its own -----------------------------------------------------------

/// A `Display` argument of the message encodes two records of its own (with arguments) through pattern encoders on
/// the same thread while the outer record is being encoded (a value whose Display impl logs): neither level may panic
/// or fail, whatever the two patterns are (well-formed or broken).
#[derive(Serialize, Deserialize, Debug, Clone)]
pub struct NestedMsg {
    pub outer: String,
    pub inner: String,
    pub text: String,
    /// the inner records go through the SAME encoder object as the outer one
    pub same_encoder: bool,
}

pub fn nested_strategy() -> impl Strategy<Value = NestedMsg> {
    let pat = || {
        prop_oneof![
            4 => pattern(0.3).prop_map(|p| print(&p, false)),
            2 => prop::sample::select(vec!["{m}", "{m}{n}", "{m:>12}", "{m:<6.9}", "{({m}):>20}", "{h({m})}", "{l} {m} {t}", "{d} {m}", "{X(k)(none)} {m:.3}"]).prop_map(|s| s.to_string()),
            1 => (any::<u16>()).prop_map(|b| format!("{{m}} {}", pick(&BREAKERS[..], b))),
        ]
    };
    (pat(), pat(), "[a-zé ]{0,12}", prop::bool::ANY).prop_map(|(outer, inner, text, same_encoder)| NestedMsg { outer, inner, text, same_encoder })
}

struct EncodingArg<'a> {
    enc: &'a PatternEncoder,
    ok: &'a std::cell::Cell<u32>,
    formatted: &'a std::cell::Cell<u32>,
}

impl<'a> std::fmt::Display for EncodingArg<'a> {
    fn fmt(&self, f: &mut std::fmt::Formatter) -> std::fmt::Result {
        use log4rs::encode::Encode;
        self.formatted.set(self.formatted.get() + 1);
        for i in 0..2 {
            let mut w = CapW::new(vec![]);
            w.limit = Some(1 << 20);
            if self.enc.encode(&mut w, &log::Record::builder().args(format_args!("inner-{}-{}", i, "arg")).level(log::Level::Warn).target("inner").build()).is_ok() {
                self.ok.set(self.ok.get() + 1);
            }
        }
        f.write_str("<arg>")
    }
}

pub fn check_nested_msg(c: &NestedMsg, obs: &mut Obs) -> CaseResult {
    use log4rs::encode::Encode;
    let before = library_panics_total();
    let encs = match catch(|| (PatternEncoder::new(&c.outer), PatternEncoder::new(&c.inner))) {
        Ok(e) => e,
        Err(p) => return fail("C11:panic:construct", format!("constructing {:?} / {:?} panicked: {}", c.outer, c.inner, p)),
    };
    let ok = std::cell::Cell::new(0u32);
    let formatted = std::cell::Cell::new(0u32);
    let arg = EncodingArg { enc: if c.same_encoder { &encs.0 } else { &encs.1 }, ok: &ok, formatted: &formatted };
    let mut w = CapW::new(vec![]);
    w.limit = Some(1 << 20);
    let r = catch(|| encs.0.encode(&mut w, &log::Record::builder().args(format_args!("{}{}", arg, c.text)).level(log::Level::Info).target("outer").build()));
    obs.sub_evals += 3;
    obs.nontrivial = true;
    obs.class(if c.same_encoder { "nested:same-encoder" } else { "nested:two-encoders" });
    match r {
        Err(p) => return fail("C11:panic:encode", format!("encoding a record whose argument encodes records of its own (outer {:?}, inner {:?}) panicked: {}", c.outer, if c.same_encoder { &c.outer } else { &c.inner }, p)),
        Ok(Err(e)) => return fail("C11:encode-error", format!("outer {:?}, inner {:?}: encode returned Err: {}", c.outer, c.inner, e)),
        Ok(Ok(())) => {}
    }
    // (a pattern may show the message several times or not at all; every time the argument is formatted, two inner encodes run)
    ensure!(ok.get() == 2 * formatted.get(), "C11:encode-error", "outer {:?}, inner {:?}: {} of the {} nested encodes reported an error", c.outer, c.inner, 2 * formatted.get() - ok.get(), 2 * formatted.get());
    obs.class_if(formatted.get() > 0, "nested:argument-formatted");
    ensure!(library_panics_total() == before, "C11:panic:caught-inside", "outer {:?}, inner {:?}: a panic was raised and caught again inside the library", c.outer, c.inner);
    Ok(())
}

pub fn run(run: &Run) {
    if run.worker.0 == 0 {
        let t = run.tmp.clone();
        let pats: Vec<String> = ["{I}", "{thread_id}|{l}|{m}", "{P}|{pid}", "{h({l})} {m}{n}", "{d(%Y)(utc)}", "{t}|{M}|{f}|{L}", "{({I}):>12}|{m:<5.5}", "{i}", "[{T}] {l} {m}", "{thread}"].iter().map(|s| s.to_string()).collect();
        run.eval_one("thread-exit", &Teardown { patterns: pats }, &move |c: &Teardown, o: &mut Obs| check_teardown(&t, c, o));
    }
    if run.worker.0 == 1 % run.worker.1 {
        let t = run.tmp.clone();
        let pats: Vec<String> = ["{m", "{nosuch}", "{d(%Q)}", "{d(%Y)(mars)}", "{m:99999999999999999999999}", "{X}", "{l} }", "{h(}", "{m:>}", "{d(%Y)(utc)(x)}", "{l} {m}{n}", "}", "{(a)(b)}", "{D(}"].iter().map(|s| s.to_string()).collect();
        run.eval_one("broken-stderr", &Teardown { patterns: pats }, &move |c: &Teardown, o: &mut Obs| check_broken_stderr(&t, c, o));
    }
    run.run_replays::<Str>("exhaustive", &check_str);
    if sweep_date_directives(run) {
        run.exhaustive("all strftime directives %<modifier><c> for 16 modifiers x printable ASCII c, in three date formatter shapes");
    }
    run.run_replays::<NestedMsg>("nested-message", &check_nested_msg);
    run.search("nested-message", run.tier.pick(3_000, 200_000), nested_strategy(), &check_nested_msg);
    run.run_replays::<Broken>("broken", &check_broken);
    run.run_replays::<Soup>("soup", &check_soup);
    let max_len = run.tier.pick(5, 6);
    if sweep(run, max_len) {
        run.exhaustive(format!("all strings over the 14-symbol alphabet {{ }} ( ) \\ : < > . 0 9 m d % of length <= {} (constructed, and encoded against 2 records)", max_len));
    }
    run.search("broken", run.tier.pick(6_000, 300_000), broken_strategy(), &check_broken);
    run.search("soup", run.tier.pick(15_000, 1_000_000), soup_strategy(), &check_soup);
    run.note(format!("profile {} (overflow checks {})", run.profile, cfg!(debug_assertions)));
}

pub fn replay(part: &str, case: serde_json::Value) -> Option<CaseResult> {
    match part {
        "exhaustive" | "date-directives" => Some(check_str(&serde_json::from_value(case).ok()?, &mut Obs::default())),
        "broken" => Some(check_broken(&serde_json::from_value(case).ok()?, &mut Obs::default())),
        "nested-message" => Some(check_nested_msg(&serde_json::from_value(case).ok()?, &mut Obs::default())),
        "soup" => Some(check_soup(&serde_json::from_value(case).ok()?, &mut Obs::default())),
        "broken-stderr" => {
            let tmp = std::env::temp_dir().join(format!("lv-replay-{}", std::process::id()));
            std::fs::create_dir_all(&tmp).ok()?;
            let r = check_broken_stderr(&tmp, &serde_json::from_value(case).ok()?, &mut Obs::default());
            let _ = std::fs::remove_dir_all(&tmp);
            Some(r)
        }
        "thread-exit" => {
            let tmp = std::env::temp_dir().join(format!("lv-replay-{}", std::process::id()));
            std::fs::create_dir_all(&tmp).ok()?;
            let r = check_teardown(&tmp, &serde_json::from_value(case).ok()?, &mut Obs::default());
            let _ = std::fs::remove_dir_all(&tmp);
            Some(r)
        }
        _ => None,
    }
}

pub fn meta() -> EvidenceMeta {
    EvidenceMeta {
        level: "exploration",
        rule: "three sources, each under both build profiles (overflow checks on/off): (1) exhaustive: every string over the 14 syntax symbols up to the length bound; (2) broken: generated valid pattern AST (rendered by the reference) + one of 58 breaker tokens (among them malformed MDC defaults) (lone special, unknown formatter, wrong arity, bad zone, unterminated formatter, malformed spec) + generated suffix: output must start with the reference rendering of the prefix and show {ERROR: after it, or encode must return Err; (3) soup: arbitrary Unicode strings, token soup incl. 20-digit widths and strftime fragments, and 1-3 character edits of valid patterns. Oracle everywhere: catch_unwind around PatternEncoder::new and encode never unwinds; output valid UTF-8. Encoding is skipped when an explicit digit run exceeds 262 144 (sanity bound; the sink refuses more than 1 MiB). A panic that the library raises and catches again by itself counts as a panic (the harness's panic hook counts them per thread). Part broken-stderr: fourteen broken and valid patterns constructed and encoded in a child process whose stderr is a pipe nobody reads. non-trivial = output holds both an error marker and other text, or a digit run >= 10 digits, or a % inside a date argument; distinct = FNV hash".into(),
        assumptions: vec!["panics are observed through catch_unwind (aborts would kill the worker: exit 2)".into()],
        mutants_caught: vec![],
    }
}
