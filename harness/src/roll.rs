//! Shared pieces of the rolling-file checks: self-delimiting record codec, trigger/roller specs,
//! scripted trigger, multi-chunk encoder, observing policy wrapper.

use log4rs::append::rolling_file::policy::compound::roll::{delete::DeleteRoller, fixed_window::FixedWindowRoller, Roll};
use log4rs::append::rolling_file::policy::compound::trigger::{onstartup::OnStartUpTrigger, size::SizeTrigger, time::{TimeTrigger, TimeTriggerConfig}, Trigger};
use log4rs::append::rolling_file::policy::compound::CompoundPolicy;
use log4rs::append::rolling_file::policy::Policy;
use log4rs::append::rolling_file::{LogFile, RollingFileAppender};
use log4rs::encode::pattern::PatternEncoder;
use log4rs::encode::Encode;
use serde::{Deserialize, Serialize};
use std::path::Path;
use std::sync::atomic::{AtomicUsize, Ordering};
use std::sync::{Arc, Mutex};

// ---- record codec --------------------------------------------------------------------------------

pub const HEADER_LEN: usize = 23; // 'R' + 4 + 8 + 8 hex + ':' ... payload ... '\n'
const PAYLOAD_CHARS: [char; 10] = ['a', '\n', 'R', ':', 'é', '漢', '😀', '0', 'f', '\n'];

/// Payload of exactly `len` bytes (valid UTF-8, contains newlines, multi-byte text and header characters).
pub fn payload(tid: u16, seq: u32, len: usize) -> String {
    let mut s = String::with_capacity(len);
    let mut k = (tid as usize).wrapping_mul(31).wrapping_add(seq as usize);
    while s.len() < len {
        let c = PAYLOAD_CHARS[k % PAYLOAD_CHARS.len()];
        k = k.wrapping_mul(7).wrapping_add(3);
        if s.len() + c.len_utf8() <= len {
            s.push(c);
        } else {
            s.push('a');
        }
    }
    s
}

/// The encoded record: header + payload + newline; `len` is the payload length.
pub fn record_text(tid: u16, seq: u32, len: usize) -> String {
    format!("R{:04x}{:08x}{:08x}:{}\n", tid, seq, len, payload(tid, seq, len))
}

pub fn record_size(len: usize) -> usize {
    HEADER_LEN + len
}

#[derive(Debug, Clone, PartialEq, Eq, PartialOrd, Ord, Serialize, Deserialize)]
pub struct RecId {
    pub tid: u16,
    pub seq: u32,
    pub len: usize,
}

/// Parses a byte stream into whole records; Err(offset) when the stream is not a concatenation of
/// whole, uncorrupted records.
pub fn parse_stream(b: &[u8]) -> Result<Vec<RecId>, usize> {
    parse_stream_with(b, true)
}

/// The record without its final newline (an encoder whose output does not end in a line break).
pub fn record_text_unterminated(tid: u16, seq: u32, len: usize) -> String {
    let mut s = record_text(tid, seq, len);
    s.pop();
    s
}

pub fn parse_stream_with(b: &[u8], terminated: bool) -> Result<Vec<RecId>, usize> {
    let mut out = vec![];
    let mut i = 0;
    while i < b.len() {
        if b.len() - i < HEADER_LEN - 1 || b[i] != b'R' {
            return Err(i);
        }
        let hex = |s: &[u8]| -> Option<u64> { std::str::from_utf8(s).ok().and_then(|t| u64::from_str_radix(t, 16).ok()) };
        let (Some(tid), Some(seq), Some(len)) = (hex(&b[i + 1..i + 5]), hex(&b[i + 5..i + 13]), hex(&b[i + 13..i + 21])) else { return Err(i) };
        if b[i + 21] != b':' {
            return Err(i);
        }
        let len = len as usize;
        let start = i + 22;
        let t = if terminated { 1 } else { 0 };
        if start + len + t > b.len() {
            return Err(i);
        }
        if b[start..start + len] != *payload(tid as u16, seq as u32, len).as_bytes() || (terminated && b[start + len] != b'\n') {
            return Err(i);
        }
        out.push(RecId { tid: tid as u16, seq: seq as u32, len });
        i = start + len + t;
    }
    Ok(out)
}

// ---- specs -----------------------------------------------------------------------------------------

#[derive(Serialize, Deserialize, Debug, Clone, PartialEq)]
pub enum TrigSpec {
    Size(u64),
    OnStartup(u64),
    /// interval literal understood by the deserializer (e.g. "5 seconds"), modulate
    Time(String, bool),
    /// user-defined trigger: answers from the script (false after its end), pre- or post-processing
    Scripted(Vec<bool>, bool),
}

#[derive(Serialize, Deserialize, Debug, Clone, PartialEq)]
pub enum RollSpec {
    Delete,
    Fixed { base: u32, count: u32, pattern: String },
}

#[derive(Debug)]
pub struct ScriptedTrigger {
    pub script: Vec<bool>,
    pub pre: bool,
    pub pos: AtomicUsize,
    pub consultations: Arc<Mutex<Vec<u64>>>,
}

impl Trigger for ScriptedTrigger {
    fn trigger(&self, file: &LogFile) -> anyhow::Result<bool> {
        self.consultations.lock().unwrap().push(file.len_estimate());
        let i = self.pos.fetch_add(1, Ordering::SeqCst);
        Ok(self.script.get(i).copied().unwrap_or(false))
    }
    fn is_pre_process(&self) -> bool {
        self.pre
    }
}

pub fn time_trigger(interval: &str, modulate: bool) -> TimeTrigger {
    let cfg: TimeTriggerConfig = serde_json::from_value(serde_json::json!({"interval": interval, "modulate": modulate, "max_random_delay": 0})).expect("time trigger config");
    TimeTrigger::new(cfg)
}

pub fn make_trigger(t: &TrigSpec) -> Box<dyn Trigger> {
    match t {
        TrigSpec::Size(n) => Box::new(SizeTrigger::new(*n)),
        TrigSpec::OnStartup(n) => Box::new(OnStartUpTrigger::new(*n)),
        TrigSpec::Time(i, m) => Box::new(time_trigger(i, *m)),
        TrigSpec::Scripted(s, pre) => Box::new(ScriptedTrigger { script: s.clone(), pre: *pre, pos: AtomicUsize::new(0), consultations: Arc::new(Mutex::new(vec![])) }),
    }
}

pub fn make_roller(dir: &Path, r: &RollSpec) -> anyhow::Result<Box<dyn Roll>> {
    Ok(match r {
        RollSpec::Delete => Box::new(DeleteRoller::new()),
        RollSpec::Fixed { base, count, pattern } => Box::new(FixedWindowRoller::builder().base(*base).build(&format!("{}/{}", dir.display(), pattern), *count)?),
    })
}

/// A user-defined roller around the real one: fails on scripted calls (leaving the file in place).
#[derive(Debug)]
pub struct FlakyRoller {
    pub inner: Box<dyn Roll>,
    /// on a scripted failure the real roller runs first (the file is archived) and only then the error is reported -
    /// a roller that fails in a follow-up step (upload, notification) after it moved the file
    pub fail_after_moving: bool,
    pub fail: Vec<bool>,
    pub calls: AtomicUsize,
    pub failures: Arc<AtomicUsize>,
}

impl Roll for FlakyRoller {
    fn roll(&self, file: &Path) -> anyhow::Result<()> {
        let i = self.calls.fetch_add(1, Ordering::SeqCst);
        if self.fail.get(i).copied().unwrap_or(false) {
            self.failures.fetch_add(1, Ordering::SeqCst);
            if self.fail_after_moving {
                self.inner.roll(file)?;
            }
            anyhow::bail!("verif: scripted roller failure #{}", i);
        }
        self.inner.roll(file)
    }
}

pub fn make_flaky_policy(dir: &Path, t: &TrigSpec, r: &RollSpec, fail: &[bool], failures: &Arc<AtomicUsize>) -> anyhow::Result<Box<dyn Policy>> {
    make_flaky_policy_with(dir, t, r, fail, false, failures)
}

pub fn make_flaky_policy_with(dir: &Path, t: &TrigSpec, r: &RollSpec, fail: &[bool], fail_after_moving: bool, failures: &Arc<AtomicUsize>) -> anyhow::Result<Box<dyn Policy>> {
    let roller = FlakyRoller { inner: make_roller(dir, r)?, fail_after_moving, fail: fail.to_vec(), calls: AtomicUsize::new(0), failures: failures.clone() };
    Ok(Box::new(CompoundPolicy::new(make_trigger(t), Box::new(roller))))
}

pub fn make_policy(dir: &Path, t: &TrigSpec, r: &RollSpec) -> anyhow::Result<Box<dyn Policy>> {
    Ok(Box::new(CompoundPolicy::new(make_trigger(t), make_roller(dir, r)?)))
}

// ---- encoders ----------------------------------------------------------------------------------------

/// Writes the message in several `write_all` calls of scripted sizes (crossing the 1 KiB buffer).
#[derive(Debug)]
pub struct ChunkEncoder {
    pub chunks: Vec<usize>,
}

impl Encode for ChunkEncoder {
    fn encode(&self, w: &mut dyn log4rs::encode::Write, record: &log::Record) -> anyhow::Result<()> {
        let msg = format!("{}", record.args());
        let b = msg.as_bytes();
        let mut i = 0;
        let mut k = 0;
        while i < b.len() {
            let n = if self.chunks.is_empty() { b.len() } else { self.chunks[k % self.chunks.len()].max(1) };
            let j = (i + n).min(b.len());
            // the pieces reach the writer through the different entry points of io::Write in turn: write_all, a plain
            // write loop, and gathered writes (two slices per call)
            match k % 3 {
                0 => w.write_all(&b[i..j])?,
                1 => {
                    let mut rest = &b[i..j];
                    while !rest.is_empty() {
                        let n = w.write(rest)?;
                        anyhow::ensure!(n > 0, "verif: the writer accepted nothing");
                        rest = &rest[n..];
                    }
                }
                _ => {
                    let mut rest = &b[i..j];
                    while !rest.is_empty() {
                        let mid = rest.len() / 2;
                        let n = w.write_vectored(&[std::io::IoSlice::new(&rest[..mid]), std::io::IoSlice::new(&rest[mid..])])?;
                        anyhow::ensure!(n > 0, "verif: the writer accepted nothing");
                        rest = &rest[n..];
                    }
                }
            }
            i = j;
            k += 1;
        }
        Ok(())
    }
}

/// Writes the first `partial` bytes of the message and then fails, on scripted calls; otherwise the whole message.
#[derive(Debug)]
pub struct FailingEncoder {
    pub fail: Vec<Option<usize>>,
    pub calls: AtomicUsize,
}

impl Encode for FailingEncoder {
    fn encode(&self, w: &mut dyn log4rs::encode::Write, record: &log::Record) -> anyhow::Result<()> {
        let msg = format!("{}", record.args());
        let i = self.calls.fetch_add(1, Ordering::SeqCst);
        match self.fail.get(i).copied().flatten() {
            Some(k) => {
                let mut k = k.min(msg.len());
                while !msg.is_char_boundary(k) {
                    k -= 1;
                }
                w.write_all(&msg.as_bytes()[..k])?;
                anyhow::bail!("verif: scripted encoder failure after {} bytes", k)
            }
            None => {
                w.write_all(msg.as_bytes())?;
                Ok(())
            }
        }
    }
}

pub fn make_encoder(chunks: &Option<Vec<usize>>) -> Box<dyn Encode> {
    match chunks {
        None => Box::new(PatternEncoder::new("{m}")),
        Some(c) => Box::new(ChunkEncoder { chunks: c.clone() }),
    }
}

pub fn build_appender(path: &Path, append: bool, chunks: &Option<Vec<usize>>, policy: Box<dyn Policy>) -> std::io::Result<RollingFileAppender> {
    RollingFileAppender::builder().append(append).encoder(make_encoder(chunks)).build(path, policy)
}

// ---- observing policy ----------------------------------------------------------------------------------

#[derive(Debug, Clone, Default)]
pub struct Consultation {
    pub len_estimate: u64,
    pub on_disk: Option<u64>,
    pub exists_after: bool,
    pub result_ok: bool,
}

/// Wraps the real policy: records what the policy is shown and what is on disk at that moment.
#[derive(Debug)]
pub struct ObservingPolicy {
    pub inner: Box<dyn Policy>,
    pub log: Arc<Mutex<Vec<Consultation>>>,
}

impl Policy for ObservingPolicy {
    fn process(&self, log: &mut LogFile) -> anyhow::Result<()> {
        let path = log.path().to_path_buf();
        let mut c = Consultation { len_estimate: log.len_estimate(), on_disk: std::fs::metadata(&path).ok().map(|m| m.len()), ..Default::default() };
        let r = self.inner.process(log);
        c.exists_after = path.exists();
        c.result_ok = r.is_ok();
        self.log.lock().unwrap().push(c);
        r
    }
    fn is_pre_process(&self) -> bool {
        self.inner.is_pre_process()
    }
}

/// Appends a record whose message is `msg` (the appender's encoder decides the bytes).
pub fn append_msg(app: &dyn log4rs::append::Append, msg: &str) -> anyhow::Result<()> {
    app.append(&log::Record::builder().args(format_args!("{}", msg)).level(log::Level::Info).target("t").build())
}
