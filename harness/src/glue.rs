//! Harness glue: capturing appenders, record construction, Config building from an LCfg.

use crate::model::route::{LCfg, LEVEL_FILTERS};
use log4rs::append::Append;
use log4rs::config::{Appender, Config, Logger as CLogger, Root};
use std::collections::BTreeMap;
use std::sync::{Arc, Mutex};

pub type Sink = Arc<Mutex<Vec<(String, String)>>>;

/// An appender which records (its name, the record's message).
#[derive(Debug)]
pub struct Cap {
    pub name: String,
    pub sink: Sink,
    /// record the delivery, then report an error (must not affect any other appender)
    pub fail: bool,
}

impl Append for Cap {
    fn append(&self, record: &log::Record) -> anyhow::Result<()> {
        self.sink
            .lock()
            .unwrap()
            .push((self.name.clone(), format!("{}", record.args())));
        if self.fail {
            anyhow::bail!("verif: scripted appender failure in {}", self.name);
        }
        Ok(())
    }
    fn flush(&self) {}
}

pub fn new_sink() -> Sink {
    Arc::new(Mutex::new(vec![]))
}

/// Calls `f` with a record (the `format_args!` value cannot outlive the expression).
pub fn with_record<R>(
    target: &str,
    level: log::Level,
    msg: &str,
    f: impl FnOnce(&log::Record) -> R,
) -> R {
    f(&log::Record::builder()
        .args(format_args!("{}", msg))
        .level(level)
        .target(target)
        .build())
}

pub fn root_of(cfg: &LCfg) -> Root {
    Root::builder()
        .appenders(cfg.root_appenders.iter().cloned())
        .build(LEVEL_FILTERS[cfg.root_level as usize])
}

pub fn loggers_of(cfg: &LCfg) -> Vec<CLogger> {
    cfg.loggers
        .iter()
        .map(|l| {
            CLogger::builder()
                .appenders(l.appenders.iter().cloned())
                .additive(l.additive)
                .build(l.name.clone(), LEVEL_FILTERS[l.level as usize])
        })
        .collect()
}

/// Builds a log4rs Config from the logical configuration with capturing appenders
/// (names are prefixed with `tag` in the sink so that generations can be told apart).
pub fn build_config(cfg: &LCfg, sink: &Sink, tag: &str) -> Result<Config, String> {
    build_config_failing(cfg, sink, tag, &[])
}

/// `failing[i]`: the i-th declared appender reports an error after recording the delivery.
pub fn build_config_failing(cfg: &LCfg, sink: &Sink, tag: &str, failing: &[bool]) -> Result<Config, String> {
    build_config_extra(cfg, sink, tag, failing, vec![])
}

/// `extra`: further declared appenders that no logger references.
pub fn build_config_extra(cfg: &LCfg, sink: &Sink, tag: &str, failing: &[bool], extra: Vec<Appender>) -> Result<Config, String> {
    let mut b = Config::builder().appenders(extra);
    for (i, a) in cfg.appenders.iter().enumerate() {
        b = b.appender(Appender::builder().build(
            a.clone(),
            Box::new(Cap {
                name: format!("{}{}", tag, a),
                sink: sink.clone(),
                fail: failing.get(i).copied().unwrap_or(false),
            }),
        ));
    }
    b = b.loggers(loggers_of(cfg));
    b.build(root_of(cfg)).map_err(|e| format!("{}", e))
}

pub fn drain_multiset(sink: &Sink) -> BTreeMap<String, usize> {
    let mut m = BTreeMap::new();
    for (a, _) in sink.lock().unwrap().drain(..) {
        *m.entry(a).or_insert(0) += 1;
    }
    m
}
