//! Harness glue: capturing appenders, record construction, Config building from an LCfg.

use crate::model::route::{LCfg, LEVEL_FILTERS};
use log4rs::append::Append;
use log4rs::config::{Appender, Config, Logger as CLogger, Root};
use std::collections::BTreeMap;
use std::sync::{Arc, Mutex};

pub type Sink = Arc<Mutex<Vec<(String, String)>>>;

/// An appender which records (its name, the record's message).
#[derive(Debug)]
pub struct Cap {
    pub name: String,
    pub sink: Sink,
    /// record the delivery, then report an error (must not affect any other appender)
    pub fail: bool,
}

thread_local! {
    /// (sink name of an appender, action): when that appender receives a record whose message is "outer" it runs
    /// the action from inside `append` - an appender that logs while it is being logged to.
    pub static NEST: std::cell::RefCell<Option<(String, Arc<dyn Fn()>)>> = std::cell::RefCell::new(None);
}

impl Append for Cap {
    fn append(&self, record: &log::Record) -> anyhow::Result<()> {
        let msg = format!("{}", record.args());
        let nested = if msg == "outer" { NEST.with(|n| n.borrow().as_ref().filter(|(a, _)| *a == self.name).map(|(_, f)| f.clone())) } else { None };
        self.sink
            .lock()
            .unwrap()
            .push((self.name.clone(), msg));
        if let Some(f) = nested {
            f();
        }
        if self.fail {
            anyhow::bail!("verif: scripted appender failure in {}", self.name);
        }
        Ok(())
    }
    fn flush(&self) {}
}

pub fn new_sink() -> Sink {
    Arc::new(Mutex::new(vec![]))
}

/// Calls `f` with a record (the `format_args!` value cannot outlive the expression).
pub fn with_record<R>(
    target: &str,
    level: log::Level,
    msg: &str,
    f: impl FnOnce(&log::Record) -> R,
) -> R {
    f(&log::Record::builder()
        .args(format_args!("{}", msg))
        .level(level)
        .target(target)
        .build())
}

/// The builders offer a singular and a bulk method for everything that comes in lists (`appender`/`appenders`,
/// `filter`/`filters`, `logger`/`loggers`), all documented as *adding*. A list is therefore attached by a mix of
/// calls: `items` is cut into consecutive runs at the positions whose bit is set in `style`; a run of one is added
/// by the singular method when its bit in the upper half is set.
pub fn runs_by_style<T>(items: Vec<T>, style: u64) -> Vec<(Vec<T>, bool)> {
    let mut out: Vec<(Vec<T>, bool)> = vec![];
    for (i, it) in items.into_iter().enumerate() {
        if i == 0 || (style >> (i % 32)) & 1 == 1 {
            out.push((vec![], false));
        }
        out.last_mut().unwrap().0.push(it);
    }
    for (ci, run) in out.iter_mut().enumerate() {
        run.1 = run.0.len() == 1 && (style >> (32 + ci % 32)) & 1 == 1;
    }
    out
}

/// Style bits for a named item of a configuration (a pure function of the logical configuration).
pub fn style_of(cfg: &LCfg, salt: &str) -> u64 {
    let first = cfg.loggers.first().map(|l| (l.name.as_str(), l.level, l.appenders.len()));
    crate::engine::fnv64(format!("{}|{}|{}|{:?}|{:?}|{}", cfg.appenders.len(), cfg.loggers.len(), cfg.root_level, cfg.root_appenders.len(), first, salt).as_bytes())
}

/// As `with_record`, with the call site filled in (module path, file, line).
pub fn with_record_at<R>(target: &str, level: log::Level, msg: &str, site: Option<(&str, &str, u32)>, f: impl FnOnce(&log::Record) -> R) -> R {
    f(&log::Record::builder()
        .args(format_args!("{}", msg))
        .level(level)
        .target(target)
        .module_path(site.map(|s| s.0))
        .file(site.map(|s| s.1))
        .line(site.map(|s| s.2))
        .build())
}

pub fn root_of(cfg: &LCfg) -> Root {
    let mut b = Root::builder();
    for (run, single) in runs_by_style(cfg.root_appenders.clone(), style_of(cfg, "root")) {
        b = if single { b.appender(run[0].clone()) } else { b.appenders(run) };
    }
    b.build(LEVEL_FILTERS[cfg.root_level as usize])
}

pub fn loggers_of(cfg: &LCfg) -> Vec<CLogger> {
    cfg.loggers
        .iter()
        .map(|l| {
            let mut b = CLogger::builder();
            let style = style_of(cfg, &l.name);
            // `additive` before, between or after the appender calls - or not at all where the wanted value is the
            // documented default of the builder ("additive is true")
            let rely_on_default = l.additive && style & (1 << 61) != 0;
            if style & (1 << 62) != 0 && !rely_on_default {
                b = b.additive(l.additive);
            }
            for (run, single) in runs_by_style(l.appenders.clone(), style) {
                b = if single { b.appender(run[0].clone()) } else { b.appenders(run) };
            }
            if style & (1 << 62) == 0 && !rely_on_default {
                b = b.additive(l.additive);
            }
            b.build(l.name.clone(), LEVEL_FILTERS[l.level as usize])
        })
        .collect()
}

/// Builds a log4rs Config from the logical configuration with capturing appenders
/// (names are prefixed with `tag` in the sink so that generations can be told apart).
pub fn build_config(cfg: &LCfg, sink: &Sink, tag: &str) -> Result<Config, String> {
    build_config_failing(cfg, sink, tag, &[])
}

/// `failing[i]`: the i-th declared appender reports an error after recording the delivery.
pub fn build_config_failing(cfg: &LCfg, sink: &Sink, tag: &str, failing: &[bool]) -> Result<Config, String> {
    build_config_extra(cfg, sink, tag, failing, vec![])
}

/// `extra`: further declared appenders that no logger references.
pub fn build_config_extra(cfg: &LCfg, sink: &Sink, tag: &str, failing: &[bool], extra: Vec<Appender>) -> Result<Config, String> {
    let mut b = Config::builder().appenders(extra);
    let apps: Vec<Appender> = cfg
        .appenders
        .iter()
        .enumerate()
        .map(|(i, a)| {
            Appender::builder().build(
                a.clone(),
                Box::new(Cap {
                    name: format!("{}{}", tag, a),
                    sink: sink.clone(),
                    fail: failing.get(i).copied().unwrap_or(false),
                }),
            )
        })
        .collect();
    for (mut run, single) in runs_by_style(apps, style_of(cfg, "config.appenders")) {
        b = if single { b.appender(run.pop().unwrap()) } else { b.appenders(run) };
    }
    for (mut run, single) in runs_by_style(loggers_of(cfg), style_of(cfg, "config.loggers")) {
        b = if single { b.logger(run.pop().unwrap()) } else { b.loggers(run) };
    }
    b.build(root_of(cfg)).map_err(|e| format!("{}", e))
}

pub fn drain_multiset(sink: &Sink) -> BTreeMap<String, usize> {
    let mut m = BTreeMap::new();
    for (a, _) in sink.lock().unwrap().drain(..) {
        *m.entry(a).or_insert(0) += 1;
    }
    m
}
