//! C14 — config files mean what they say in every format; loading is total and lossy.

use crate::doc::*;
use crate::engine::*;
use crate::ensure;
use crate::fsx::*;
use crate::gen::cfgtree::{raw_cfg, raw_targets, resolve, resolve_target};
use crate::glue::with_record;
use crate::model::route::{LCfg, LEVELS, LEVEL_FILTERS};
use log::Log;
use log4rs::append::console::{ConsoleAppender, Target};
use log4rs::append::file::FileAppender;
use log4rs::append::rolling_file::policy::compound::roll::{delete::DeleteRoller, fixed_window::FixedWindowRoller, Roll};
use log4rs::append::rolling_file::policy::compound::trigger::{onstartup::OnStartUpTrigger, size::SizeTrigger, time::TimeTrigger, Trigger};
use log4rs::append::rolling_file::policy::compound::CompoundPolicy;
use log4rs::append::rolling_file::RollingFileAppender;
use log4rs::append::Append;
use log4rs::config::{Appender, Config, Deserializers, Logger as CLogger, RawConfig, Root};
use log4rs::encode::json::JsonEncoder;
use log4rs::encode::pattern::PatternEncoder;
use log4rs::encode::Encode;
use log4rs::filter::threshold::ThresholdFilter;
use proptest::prelude::*;
use serde::{Deserialize, Serialize};
use std::collections::BTreeMap;
use std::path::Path;

/// A user-defined filter kind registered with the deserializers (`kind: verif_at`, keys `level`, `response`): answers
/// `response` (accept / reject) for records of exactly `level` and Neutral otherwise. Unlike chains of threshold
/// filters, chains containing these are order-sensitive.
#[derive(Debug)]
pub struct AtFilter {
    pub level: log::Level,
    pub accept: bool,
}

impl log4rs::filter::Filter for AtFilter {
    fn filter(&self, record: &log::Record) -> log4rs::filter::Response {
        if record.level() == self.level {
            if self.accept {
                log4rs::filter::Response::Accept
            } else {
                log4rs::filter::Response::Reject
            }
        } else {
            log4rs::filter::Response::Neutral
        }
    }
}

#[derive(serde::Deserialize)]
#[serde(deny_unknown_fields)]
pub struct AtFilterConfig {
    level: String,
    response: String,
}

pub struct AtFilterDeserializer;

impl log4rs::config::Deserialize for AtFilterDeserializer {
    type Trait = dyn log4rs::filter::Filter;
    type Config = AtFilterConfig;
    fn deserialize(&self, c: AtFilterConfig, _: &Deserializers) -> anyhow::Result<Box<dyn log4rs::filter::Filter>> {
        let level: log::Level = c.level.parse().map_err(|_| anyhow::anyhow!("verif_at: bad level {:?}", c.level))?;
        let accept = match c.response.as_str() {
            "accept" => true,
            "reject" => false,
            other => anyhow::bail!("verif_at: bad response {:?}", other),
        };
        Ok(Box::new(AtFilter { level, accept }))
    }
}

/// The spelling of a refresh rate in the document and what it means (durations in the notation the documentation points
/// to: whole seconds as in its examples, and minutes, milli-, micro- and nanoseconds, also combined).
pub fn refresh_form(r: u32) -> (String, std::time::Duration) {
    use std::time::Duration as D;
    let n = r as u64;
    match r % 8 {
        0 | 1 => (format!("{} seconds", n), D::from_secs(n)),
        2 => (format!("{}s", n), D::from_secs(n)),
        3 => (format!("{}ms", n), D::from_millis(n)),
        4 => (format!("{}us", n), D::from_micros(n)),
        5 => (format!("{}ns", n), D::from_nanos(n)),
        6 => (format!("1h {}m", n), D::from_secs(3600 + 60 * n)),
        _ => (format!("{}ms {}us", n, n), D::from_millis(n) + D::from_micros(n)),
    }
}

/// The library's default deserializers plus the user-defined filter kind.
pub fn deserializers() -> Deserializers {
    let mut d = Deserializers::default();
    d.insert("verif_at", AtFilterDeserializer);
    d
}

/// Filter codes: 0-5 threshold at LEVEL_FILTERS[f]; 6-10 accept records of exactly LEVELS[f-6]; 11-15 reject them.
pub enum FilterCode {
    Threshold(log::LevelFilter),
    At(log::Level, bool),
}

pub fn filter_code(f: u8) -> FilterCode {
    let f = f % 16;
    if f < 6 {
        FilterCode::Threshold(LEVEL_FILTERS[f as usize])
    } else if f < 11 {
        FilterCode::At(LEVELS[(f - 6) as usize], true)
    } else {
        FilterCode::At(LEVELS[(f - 11) as usize], false)
    }
}

pub fn has_custom_filter(lc: &LC) -> bool {
    lc.apps.iter().any(|a| a.filters.iter().any(|f| f % 16 >= 6))
}

/// Reference: filters in declaration order, first Accept delivers, first Reject drops, all Neutral delivers.
pub fn chain_passes(filters: &[u8], dropped: &[usize], level: log::Level) -> bool {
    for (i, f) in filters.iter().enumerate() {
        if dropped.contains(&i) {
            continue;
        }
        match filter_code(*f) {
            FilterCode::Threshold(t) => {
                if level > t {
                    return false;
                }
            }
            FilterCode::At(l, accept) => {
                if level == l {
                    return accept;
                }
            }
        }
    }
    true
}

fn filter_doc(f: u8, style: u64) -> DV {
    match filter_code(f) {
        FilterCode::Threshold(_) => DV::map(vec![("kind", DV::s("threshold")), ("level", DV::Str(level_word(f % 16, style)))]),
        FilterCode::At(l, accept) => {
            let w = l.to_string();
            let w = match style % 3 {
                0 => w.to_lowercase(),
                1 => w.to_uppercase(),
                _ => w,
            };
            let mut v = vec![("kind", DV::s("verif_at")), ("level", DV::Str(w)), ("response", DV::s(if accept { "accept" } else { "reject" }))];
            if style & 8 != 0 {
                v.swap(1, 2);
            }
            DV::map(v)
        }
    }
}

fn make_filter(f: u8) -> Box<dyn log4rs::filter::Filter> {
    match filter_code(f) {
        FilterCode::Threshold(t) => Box::new(ThresholdFilter::new(t)),
        FilterCode::At(level, accept) => Box::new(AtFilter { level, accept }),
    }
}

pub const CLOCK_FREE: &str = "{l}|{t}|{m}{n}";
/// further clock-free patterns: what the file says is what the encoder gets (line breaks after `{n}`, the empty
/// pattern, leading/trailing blanks, nested groups)
pub const PATTERNS: [&str; 9] = ["{l}|{t}|{m}{n}\n", "{m}{n}{n}", "", "{m}\n", "  {l:<5} {m}{n}", "{h({l})}|{m}{n}", "{({l}|{t}):12.12}|{m}{n}", "{m}{n} ", "{m}{n}\r\n"];

#[derive(Serialize, Deserialize, Debug, Clone, PartialEq)]
pub enum Enc {
    /// None = the `encoder` key is omitted altogether
    Omitted,
    /// pattern encoder: kind key present?, pattern (None = default pattern)
    Pattern { kind_key: bool, pattern: Option<String> },
    Json,
}

#[derive(Serialize, Deserialize, Debug, Clone, PartialEq)]
pub enum Trig {
    Size(u64, u8),
    Time { interval: String, modulate: Option<bool>, delay: Option<u64> },
    OnStartup(Option<u64>),
}

#[derive(Serialize, Deserialize, Debug, Clone, PartialEq)]
pub enum Roller {
    Delete,
    Fixed { pattern: String, base: Option<u32>, count: u32 },
}

#[derive(Serialize, Deserialize, Debug, Clone, PartialEq)]
pub enum Kind {
    File { path: String, append: Option<bool>, enc: Enc },
    Rolling { path: String, append: Option<bool>, enc: Enc, policy_kind_key: bool, trigger: Trig, roller: Roller },
    Console { stderr: Option<bool>, tty_only: Option<bool>, enc: Enc },
}

#[derive(Serialize, Deserialize, Debug, Clone, PartialEq)]
pub struct LApp {
    pub name: String,
    pub kind: Kind,
    /// threshold filters (index into LEVEL_FILTERS)
    pub filters: Vec<u8>,
}

#[derive(Serialize, Deserialize, Debug, Clone, PartialEq)]
pub struct LC {
    pub routing: LCfg,
    pub apps: Vec<LApp>,
    pub refresh: Option<u32>,
    /// which defaultable logger keys are written out: (additive written?) per logger
    pub additive_written: Vec<bool>,
    pub root_level_written: bool,
    /// pre-populated content of file appenders' files (tests the `append` default behaviourally)
    pub prepopulate: bool,
}

// ---- generator ----------------------------------------------------------------------------------------

fn enc_strategy() -> impl Strategy<Value = Enc> {
    prop_oneof![
        2 => Just(Enc::Omitted),
        5 => (prop::bool::ANY, prop::option::weighted(0.8, prop_oneof![3 => Just(CLOCK_FREE), 2 => prop::sample::select(PATTERNS.to_vec())])).prop_map(|(kind_key, pattern)| Enc::Pattern { kind_key, pattern: pattern.map(|p| p.to_string()) }),
        2 => Just(Enc::Json),
    ]
}

fn trig_strategy() -> impl Strategy<Value = Trig> {
    prop_oneof![
        4 => (prop::sample::select(vec![0u64, 40, 100, 1024, 3000]), 0u8..4).prop_map(|(n, form)| Trig::Size(n, form)),
        2 => (prop::sample::select(vec!["1 day", "3 weeks", "1 year", "2 Months", "400 days"]), prop::option::of(prop::bool::ANY), prop::option::of(prop::sample::select(vec![0u64, 5, 60])))
            .prop_map(|(i, modulate, delay)| Trig::Time { interval: i.to_string(), modulate, delay }),
        2 => prop::option::of(prop::sample::select(vec![0u64, 1, 30, 5000])).prop_map(Trig::OnStartup),
    ]
}

fn roller_strategy(name: String) -> impl Strategy<Value = Roller> {
    prop_oneof![
        1 => Just(Roller::Delete),
        4 => (prop::sample::select(vec!["{n}.{}.old", "old/{n}/{}.log", "{n}.{}.gz"]), prop::option::of(prop::sample::select(vec![0u32, 1, 5])), 0u32..=3)
            .prop_map(move |(p, base, count)| Roller::Fixed { pattern: p.replace("{n}", &name), base, count }),
    ]
}

fn kind_strategy(name: String) -> impl Strategy<Value = Kind> {
    let n2 = name.clone();
    let n3 = name.clone();
    prop_oneof![
        4 => (prop::option::of(prop::bool::ANY), enc_strategy()).prop_map(move |(append, enc)| Kind::File { path: format!("logs/{}.log", n2), append, enc }),
        4 => (prop::option::of(prop::bool::ANY), enc_strategy(), prop::bool::ANY, trig_strategy(), roller_strategy(name.clone()))
            .prop_map(move |(append, enc, policy_kind_key, trigger, roller)| Kind::Rolling { path: format!("roll/{}.log", n3), append, enc, policy_kind_key, trigger, roller }),
        1 => (prop::option::of(prop::bool::ANY), prop::option::of(prop::bool::ANY), enc_strategy()).prop_map(|(stderr, tty_only, enc)| Kind::Console { stderr, tty_only, enc }),
    ]
}

#[derive(Serialize, Deserialize, Debug, Clone)]
pub struct Case {
    pub lc: LC,
    pub probes: Vec<(String, u8, String)>,
    pub style: u64,
}

pub fn strategy() -> impl Strategy<Value = Case> {
    (raw_cfg(5), prop::collection::vec(any::<u16>(), 5), raw_targets(3..=5), any::<u64>(), prop::option::of(1u32..600), prop::collection::vec(prop::bool::ANY, 6), prop::bool::ANY, prop::bool::ANY)
        .prop_flat_map(|(raw, fl, rt, style, refresh, aw, rlw, prepopulate)| {
            let routing = resolve(&raw);
            let names = routing.appenders.clone();
            let kinds: Vec<_> = names.iter().map(|n| kind_strategy(n.clone()).boxed()).collect();
            (kinds, prop::collection::vec(prop_oneof![4 => prop::collection::vec(0u8..6, 0..=2), 1 => prop::collection::vec(prop_oneof![1 => 0u8..6, 2 => 6u8..16], 1..=4)], names.len()), Just((routing, fl, rt, style, refresh, aw, rlw, prepopulate)))
        })
        .prop_map(|(kinds, filters, (mut routing, _fl, rt, style, refresh, aw, rlw, prepopulate))| {
            // console appenders are declared but only attached to a logger that is off (presence only)
            let mut apps = vec![];
            for ((name, mut kind), f) in routing.appenders.clone().into_iter().zip(kinds).zip(filters) {
                // the default pattern and the JSON encoder print the time with a varying number of fractional
                // digits, so record sizes - and with them size-triggered rotation points - would differ between
                // the loaded configuration and its twin: size triggers are paired with the clock-free pattern
                if let Kind::Rolling { enc, trigger: Trig::Size(..), .. } = &mut kind {
                    if !matches!(enc, Enc::Pattern { pattern: Some(_), .. }) {
                        *enc = Enc::Pattern { kind_key: matches!(enc, Enc::Json), pattern: Some(CLOCK_FREE.to_string()) };
                    }
                }
                apps.push(LApp { name, kind, filters: f });
            }
            let consoles: Vec<String> = apps.iter().filter(|a| matches!(a.kind, Kind::Console { .. })).map(|a| a.name.clone()).collect();
            routing.root_appenders.retain(|a| !consoles.contains(a));
            for l in routing.loggers.iter_mut() {
                l.appenders.retain(|a| !consoles.contains(a));
            }
            if !consoles.is_empty() && !routing.loggers.iter().any(|l| l.name == "silent::console") {
                routing.loggers.push(crate::model::route::LLogger { name: "silent::console".into(), level: 0, additive: false, appenders: consoles });
            }
            let mut probes = vec![];
            for (i, (k, l, e)) in rt.iter().enumerate() {
                let t = resolve_target(&routing, *k, *l, *e);
                if t.starts_with("silent::console") {
                    continue;
                }
                for lv in 0..5u8 {
                    probes.push((t.clone(), lv, format!("m{}-{} é", i, lv)));
                }
            }
            let n = routing.loggers.len();
            let mut additive_written: Vec<bool> = aw.into_iter().cycle().take(n).collect();
            // additive=false cannot be expressed by omission
            for (i, l) in routing.loggers.iter().enumerate() {
                if !l.additive {
                    additive_written[i] = true;
                }
            }
            Case { lc: LC { routing, apps, refresh, additive_written, root_level_written: rlw, prepopulate }, probes, style }
        })
}

// ---- rendering into a document tree ------------------------------------------------------------------

fn level_word(i: u8, style: u64) -> String {
    let w = format!("{:?}", LEVEL_FILTERS[i as usize % 6]);
    match style % 3 {
        0 => w.to_lowercase(),
        1 => w.to_uppercase(),
        _ => w,
    }
}

fn enc_doc(e: &Enc) -> Option<DV> {
    match e {
        Enc::Omitted => None,
        Enc::Pattern { kind_key, pattern } => {
            let mut m = vec![];
            if *kind_key {
                m.push(("kind", DV::s("pattern")));
            }
            if let Some(p) = pattern {
                m.push(("pattern", DV::s(p)));
            }
            Some(DV::map(m))
        }
        Enc::Json => Some(DV::map(vec![("kind", DV::s("json"))])),
    }
}

fn size_literal(n: u64, form: u8) -> DV {
    match form % 4 {
        0 => DV::Int(n as i128),
        1 => DV::Str(format!("{}", n)),
        2 => DV::Str(format!("{} b", n)),
        _ => {
            if n % 1024 == 0 && n > 0 {
                DV::Str(format!("{}KB", n / 1024))
            } else {
                DV::Str(format!("{}B", n))
            }
        }
    }
}

pub fn app_doc(dir: &str, a: &LApp, style: u64) -> DV {
    let mut m: Vec<(&str, DV)> = vec![];
    match &a.kind {
        Kind::File { path, append, enc } => {
            m.push(("kind", DV::s("file")));
            m.push(("path", DV::Str(format!("{}/{}", dir, path))));
            if let Some(x) = append {
                m.push(("append", DV::Bool(*x)));
            }
            if let Some(e) = enc_doc(enc) {
                m.push(("encoder", e));
            }
        }
        Kind::Rolling { path, append, enc, policy_kind_key, trigger, roller } => {
            m.push(("kind", DV::s("rolling_file")));
            m.push(("path", DV::Str(format!("{}/{}", dir, path))));
            if let Some(x) = append {
                m.push(("append", DV::Bool(*x)));
            }
            if let Some(e) = enc_doc(enc) {
                m.push(("encoder", e));
            }
            let t = match trigger {
                Trig::Size(n, form) => DV::map(vec![("kind", DV::s("size")), ("limit", size_literal(*n, *form))]),
                Trig::Time { interval, modulate, delay } => {
                    let mut t = vec![("kind", DV::s("time")), ("interval", DV::s(interval))];
                    if let Some(x) = modulate {
                        t.push(("modulate", DV::Bool(*x)));
                    }
                    if let Some(x) = delay {
                        t.push(("max_random_delay", DV::Int(*x as i128)));
                    }
                    DV::map(t)
                }
                Trig::OnStartup(ms) => {
                    let mut t = vec![("kind", DV::s("onstartup"))];
                    if let Some(x) = ms {
                        t.push(("min_size", DV::Int(*x as i128)));
                    }
                    DV::map(t)
                }
            };
            let r = match roller {
                Roller::Delete => DV::map(vec![("kind", DV::s("delete"))]),
                Roller::Fixed { pattern, base, count } => {
                    let mut r = vec![("kind", DV::s("fixed_window")), ("pattern", DV::Str(format!("{}/roll/{}", dir, pattern))), ("count", DV::Int(*count as i128))];
                    if let Some(b) = base {
                        r.push(("base", DV::Int(*b as i128)));
                    }
                    DV::map(r)
                }
            };
            let mut p = vec![];
            if *policy_kind_key {
                p.push(("kind", DV::s("compound")));
            }
            p.push(("trigger", t));
            p.push(("roller", r));
            m.push(("policy", DV::map(p)));
        }
        Kind::Console { stderr, tty_only, enc } => {
            m.push(("kind", DV::s("console")));
            if let Some(x) = stderr {
                m.push(("target", DV::s(if *x { "stderr" } else { "stdout" })));
            }
            if let Some(x) = tty_only {
                m.push(("tty_only", DV::Bool(*x)));
            }
            if let Some(e) = enc_doc(enc) {
                m.push(("encoder", e));
            }
        }
    }
    if !a.filters.is_empty() {
        m.push(("filters", DV::Seq(a.filters.iter().enumerate().map(|(i, f)| filter_doc(*f, style >> i)).collect())));
    }
    DV::map(m)
}

pub fn document(dir: &str, lc: &LC, style: u64) -> DV {
    let mut top: Vec<(&str, DV)> = vec![];
    if let Some(r) = lc.refresh {
        top.push(("refresh_rate", DV::Str(refresh_form(r).0)));
    }
    let mut root = vec![];
    // the root level default is not asserted (documentation says warn, code says debug): always written
    root.push(("level", DV::Str(level_word(lc.routing.root_level, style))));
    if !lc.routing.root_appenders.is_empty() || style & 16 == 0 {
        root.push(("appenders", DV::Seq(lc.routing.root_appenders.iter().map(|a| DV::s(a)).collect())));
    }
    top.push(("root", DV::map(root)));
    let apps: Vec<(String, DV)> = lc.apps.iter().map(|a| (a.name.clone(), app_doc(dir, a, style))).collect();
    if !apps.is_empty() || style & 32 == 0 {
        top.push(("appenders", DV::Map(apps)));
    }
    let mut loggers: Vec<(String, DV)> = vec![];
    for (i, l) in lc.routing.loggers.iter().enumerate() {
        let mut m = vec![("level", DV::Str(level_word(l.level, style >> (i + 3))))];
        if !l.appenders.is_empty() || (style >> i) & 1 == 0 {
            m.push(("appenders", DV::Seq(l.appenders.iter().map(|a| DV::s(a)).collect())));
        }
        if lc.additive_written.get(i).copied().unwrap_or(true) {
            m.push(("additive", DV::Bool(l.additive)));
        }
        loggers.push((l.name.clone(), DV::map(m)));
    }
    if !loggers.is_empty() || style & 64 == 0 {
        top.push(("loggers", DV::Map(loggers)));
    }
    let mut d = DV::map(top);
    d.shuffle(style);
    d
}

// ---- the programmatic twin (defaults as documented) -----------------------------------------------------

fn twin_encoder(e: &Enc) -> Box<dyn Encode> {
    match e {
        Enc::Omitted => Box::new(PatternEncoder::default()),
        Enc::Pattern { pattern: Some(p), .. } => Box::new(PatternEncoder::new(p)),
        Enc::Pattern { pattern: None, .. } => Box::new(PatternEncoder::default()),
        Enc::Json => Box::new(JsonEncoder::new()),
    }
}

fn twin_appender(dir: &Path, a: &LApp) -> Result<Box<dyn Append>, String> {
    Ok(match &a.kind {
        Kind::File { path, append, enc } => Box::new(FileAppender::builder().append(append.unwrap_or(true)).encoder(twin_encoder(enc)).build(dir.join(path)).map_err(|e| e.to_string())?),
        Kind::Rolling { path, append, enc, trigger, roller, .. } => {
            let t: Box<dyn Trigger> = match trigger {
                Trig::Size(n, _) => Box::new(SizeTrigger::new(*n)),
                Trig::Time { interval, modulate, delay } => {
                    let cfg = serde_json::from_value(serde_json::json!({"interval": interval, "modulate": modulate.unwrap_or(false), "max_random_delay": delay.unwrap_or(0)})).map_err(|e: serde_json::Error| e.to_string())?;
                    Box::new(TimeTrigger::new(cfg))
                }
                Trig::OnStartup(ms) => Box::new(OnStartUpTrigger::new(ms.unwrap_or(1))),
            };
            let r: Box<dyn Roll> = match roller {
                Roller::Delete => Box::new(DeleteRoller::new()),
                Roller::Fixed { pattern, base, count } => Box::new(FixedWindowRoller::builder().base(base.unwrap_or(0)).build(&format!("{}/roll/{}", dir.display(), pattern), *count).map_err(|e| e.to_string())?),
            };
            Box::new(RollingFileAppender::builder().append(append.unwrap_or(true)).encoder(twin_encoder(enc)).build(dir.join(path), Box::new(CompoundPolicy::new(t, r))).map_err(|e| e.to_string())?)
        }
        Kind::Console { stderr, tty_only, enc } => Box::new(
            ConsoleAppender::builder().target(if stderr.unwrap_or(false) { Target::Stderr } else { Target::Stdout }).tty_only(tty_only.unwrap_or(false)).encoder(twin_encoder(enc)).build(),
        ),
    })
}

/// `drop_filters`: (appender name, filter index) pairs left out (lossy loading of a broken filter).
pub fn twin_config(dir: &Path, lc: &LC, drop_apps: &[String], drop_filters: &[(String, usize)]) -> Result<Config, String> {
    let mut b = Config::builder();
    for a in &lc.apps {
        if drop_apps.contains(&a.name) {
            continue;
        }
        let mut ab = Appender::builder();
        for (i, f) in a.filters.iter().enumerate() {
            if drop_filters.contains(&(a.name.clone(), i)) {
                continue;
            }
            ab = ab.filter(make_filter(*f));
        }
        b = b.appender(ab.build(a.name.clone(), twin_appender(dir, a)?));
    }
    let keep = |v: &Vec<String>| -> Vec<String> { v.iter().filter(|x| !drop_apps.contains(x)).cloned().collect() };
    for l in &lc.routing.loggers {
        b = b.logger(CLogger::builder().appenders(keep(&l.appenders)).additive(l.additive).build(l.name.clone(), LEVEL_FILTERS[l.level as usize % 6]));
    }
    let root = Root::builder().appenders(keep(&lc.routing.root_appenders)).build(LEVEL_FILTERS[lc.routing.root_level as usize % 6]);
    b.build(root).map_err(|e| e.to_string())
}

// ---- observation -------------------------------------------------------------------------------------------

fn prepopulate(dir: &Path, lc: &LC) {
    if !lc.prepopulate {
        return;
    }
    for a in &lc.apps {
        let p = match &a.kind {
            Kind::File { path, .. } | Kind::Rolling { path, .. } => dir.join(path),
            _ => continue,
        };
        std::fs::create_dir_all(p.parent().unwrap()).unwrap();
        std::fs::write(&p, b"PRE|existing|content\n").unwrap();
    }
}

fn probe_site(i: usize) -> Option<(&'static str, &'static str, u32)> {
    if i % 2 == 0 { Some(("app::probe", "src/probe.rs", 10 + i as u32)) } else { None }
}

fn drive(config: Config, probes: &[(String, u8, String)]) -> Result<(), String> {
    let logger = catch(|| log4rs::Logger::new(config))?;
    for (i, (t, l, m)) in probes.iter().enumerate() {
        // every second probe knows where it was logged from
        catch(|| crate::glue::with_record_at(t, LEVELS[*l as usize % 5], m, probe_site(i), |r| logger.log(r)))?;
    }
    drop(logger);
    Ok(())
}

/// Snapshot with clock- and thread-dependent parts removed: per file a list of normalised lines.
fn normalised(dir: &Path) -> BTreeMap<String, Vec<String>> {
    let s = snap(dir);
    let mut out = BTreeMap::new();
    for (name, raw) in s.files {
        if name.starts_with("cfg.") {
            continue;
        }
        let bytes = decoded(&name, &raw).unwrap_or(raw);
        let text = String::from_utf8_lossy(&bytes).to_string();
        let lines: Vec<String> = text
            .lines()
            .map(|l| {
                if l.starts_with('{') {
                    // JSON encoder: drop time and thread_id
                    match serde_json::from_str::<serde_json::Value>(l) {
                        Ok(serde_json::Value::Object(mut o)) => {
                            o.remove("time");
                            o.remove("thread_id");
                            serde_json::Value::Object(o).to_string()
                        }
                        _ => l.to_string(),
                    }
                } else if l.len() > 20 && l.as_bytes()[4] == b'-' && l.as_bytes()[10] == b'T' {
                    // default pattern: cut the date field
                    l.splitn(2, ' ').nth(1).unwrap_or("").to_string()
                } else {
                    l.to_string()
                }
            })
            .collect();
        out.insert(name, lines);
    }
    out
}

/// Predicted lines of a `file` appender (route + filter model), for the clock-free encoders.
fn predicted_file(lc: &LC, routing: &LCfg, a: &LApp, probes: &[(String, u8, String)], dropped_filters: &[usize]) -> Option<Vec<String>> {
    let Kind::File { append, enc, .. } = &a.kind else { return None };
    let mut lines = vec![];
    if lc.prepopulate && append.unwrap_or(true) {
        lines.push("PRE|existing|content".to_string());
    }
    for (pi, (t, l, m)) in probes.iter().enumerate() {
        let level = LEVELS[*l as usize % 5];
        if routing.effective(t) != routing.effective_textual(t) {
            return None;
        }
        let k = routing.route(t, level).get(&a.name).copied().unwrap_or(0);
        let pass = chain_passes(&a.filters, dropped_filters, level);
        if !pass {
            continue;
        }
        for _ in 0..k {
            let line = match enc {
                Enc::Pattern { pattern: Some(p), .. } if p == CLOCK_FREE => format!("{}|{}|{}", level, t, m),
                Enc::Pattern { pattern: Some(_), .. } => return None,
                Enc::Omitted | Enc::Pattern { pattern: None, .. } => format!("{} {} - {}", level, t, m),
                Enc::Json => {
                    let mut o = serde_json::json!({"level": level.to_string(), "message": m, "target": t, "thread": "main", "mdc": {}});
                    if let Some((mp, f, ln)) = probe_site(pi) {
                        o["module_path"] = mp.into();
                        o["file"] = f.into();
                        o["line"] = ln.into();
                    }
                    o.to_string()
                }
            };
            lines.push(line);
        }
    }
    Some(lines)
}

fn observed_routing(c: &Config) -> LCfg {
    LCfg {
        appenders: c.appenders().iter().map(|a| a.name().to_string()).collect(),
        root_level: LEVEL_FILTERS.iter().position(|l| *l == c.root().level()).unwrap() as u8,
        root_appenders: c.root().appenders().to_vec(),
        loggers: c
            .loggers()
            .iter()
            .map(|l| crate::model::route::LLogger { name: l.name().to_string(), level: LEVEL_FILTERS.iter().position(|x| *x == l.level()).unwrap() as u8, additive: l.additive(), appenders: l.appenders().to_vec() })
            .collect(),
    }
}

fn same_routing(a: &LCfg, b: &LCfg) -> bool {
    // declaration order of maps is not preserved by the file formats: compare as sets
    let mut x = a.clone();
    let mut y = b.clone();
    x.appenders.sort();
    y.appenders.sort();
    x.loggers.sort_by(|p, q| p.name.cmp(&q.name));
    y.loggers.sort_by(|p, q| p.name.cmp(&q.name));
    x == y
}

// ---- positive oracle -------------------------------------------------------------------------------------------

/// time triggers read the guarded clock: pinned far from any boundary so that no rotation depends on the wall clock
fn pin_clock() {
    log4rs::append::rolling_file::policy::compound::trigger::time::verif::set_now(Some((1_700_003_600, 0)));
}

pub fn check(tmp: &Path, case: &Case, obs: &mut Obs) -> CaseResult {
    let base = scratch(tmp, "c14");
    pin_clock();
    let r = check_in(&base, case, obs);
    let _ = std::fs::remove_dir_all(&base);
    r
}

fn check_in(base: &Path, case: &Case, obs: &mut Obs) -> CaseResult {
    let lc = &case.lc;
    // twin
    let tdir = base.join("twin");
    std::fs::create_dir_all(&tdir).unwrap();
    prepopulate(&tdir, lc);
    let twin = twin_config(&tdir, lc, &[], &[]).map_err(|e| Failure { sig: "C14:twin".into(), msg: format!("programmatic twin cannot be built: {}", e) })?;
    drive(twin, &case.probes).map_err(|p| Failure { sig: "C14:twin".into(), msg: p })?;
    let twin_snap = normalised(&tdir);
    // model prediction for file appenders
    for a in &lc.apps {
        if let (Some(want), Kind::File { path, .. }) = (predicted_file(lc, &lc.routing, a, &case.probes, &[]), &a.kind) {
            let got = twin_snap.get(path).cloned().unwrap_or_default();
            let got_norm: Vec<String> = got.iter().map(|l| strip_json_extras(l)).collect();
            let want_norm: Vec<String> = want.iter().map(|l| strip_json_extras(l)).collect();
            ensure!(got_norm == want_norm, "C14:twin-vs-model", "file appender {:?}: the programmatic configuration wrote {:?}, routing+filter model predicts {:?}", a.name, got_norm, want_norm);
        }
    }
    for (fi, format) in [Format::Yaml, Format::Json, Format::Toml].iter().enumerate() {
        let dir = base.join(format.ext());
        std::fs::create_dir_all(&dir).unwrap();
        prepopulate(&dir, lc);
        let doc = document(&dir.display().to_string(), lc, case.style.rotate_left(fi as u32 * 7));
        let text = format.render(&doc, case.style);
        let file = dir.join(format!("cfg.{}", format.ext()));
        if (case.style >> (41 + fi)) & 1 == 1 {
            // the configured path is a symbolic link; what it points to is named differently (a versioned file)
            let target = format!("cfg.published-v{}", 2 + fi);
            std::fs::write(dir.join(&target), &text).unwrap();
            std::os::unix::fs::symlink(&target, &file).unwrap();
            obs.class("configured-path-is-a-symlink-to-a-differently-named-file");
        } else {
            std::fs::write(&file, &text).unwrap();
        }
        let what = format!("{:?} document", format);
        // strict path: serde parse -> appenders_lossy without errors -> build
        let raw: RawConfig = match catch(|| parse_raw(*format, &text)) {
            Err(p) => return fail("C14:panic:parse", format!("{} panicked while parsing: {}\n{}", what, p, text)),
            Ok(Err(e)) => return fail("C14:valid-document-rejected", format!("{} rejected: {}\n{}", what, e, text)),
            Ok(Ok(r)) => r,
        };
        ensure!(raw.refresh_rate() == lc.refresh.map(|r| refresh_form(r).1), "C14:refresh-rate", "{}: refresh rate {:?}, document says {:?}", what, raw.refresh_rate(), lc.refresh.map(|r| refresh_form(r).0));
        // lossy path = load_config_file
        let loaded = match catch(|| log4rs::config::load_config_file(&file, deserializers())) {
            Err(p) => return fail("C14:panic:load", format!("load_config_file panicked on a {}: {}\n{}", what, p, text)),
            Ok(Err(e)) => return fail("C14:valid-document-rejected", format!("load_config_file rejected a {}: {}\n{}", what, e, text)),
            Ok(Ok(c)) => c,
        };
        let seen = observed_routing(&loaded);
        ensure!(same_routing(&seen, &lc.routing), "C14:config-differs", "{}: loaded configuration {:?} differs from the logical one {:?}\n{}", what, seen, lc.routing, text);
        // appenders_lossy on a second directory-free pass would open the files again; only its error list is used
        drive(loaded, &case.probes).map_err(|p| Failure { sig: "C14:panic:log".into(), msg: format!("logging through the loaded {} panicked: {}", what, p) })?;
        let got = normalised(&dir);
        obs.sub_evals += case.probes.len() as u64;
        if got != twin_snap {
            let diff: Vec<String> = got.keys().chain(twin_snap.keys()).filter(|k| got.get(*k) != twin_snap.get(*k)).cloned().collect();
            let k = &diff[0];
            return fail(
                "C14:behaviour-differs",
                format!("{}: file {:?} holds {:?} after the probes, the equivalent programmatic configuration wrote {:?}\n{}", what, k, got.get(k), twin_snap.get(k), text),
            );
        }
    }
    // classification
    let kinds: std::collections::BTreeSet<&str> = lc.apps.iter().map(|a| match a.kind {
        Kind::File { .. } => "file",
        Kind::Rolling { .. } => "rolling",
        Kind::Console { .. } => "console",
    }).collect();
    let defaulted = lc.additive_written.iter().any(|w| !*w)
        || lc.apps.iter().any(|a| match &a.kind {
            Kind::File { append, enc, .. } => append.is_none() || *enc == Enc::Omitted,
            Kind::Rolling { append, enc, policy_kind_key, .. } => append.is_none() || *enc == Enc::Omitted || !policy_kind_key,
            Kind::Console { stderr, tty_only, .. } => stderr.is_none() || tty_only.is_none(),
        });
    obs.nontrivial = kinds.len() >= 2 && defaulted;
    for k in kinds {
        obs.class(format!("kind={}", k));
    }
    obs.class_if(defaulted, "defaulted-key");
    obs.class_if(lc.additive_written.iter().any(|w| !*w), "additive-omitted");
    obs.class_if(lc.prepopulate, "pre-populated-files");
    obs.class_if(lc.apps.iter().any(|a| !a.filters.is_empty()), "threshold-filters");
    obs.class_if(has_custom_filter(lc), "user-defined-filter-kind(order-sensitive-chain)");
    obs.class_if(lc.refresh.is_some(), "refresh-rate");
    Ok(())
}

fn strip_json_extras(l: &str) -> String {
    if l.starts_with('{') {
        if let Ok(serde_json::Value::Object(mut o)) = serde_json::from_str::<serde_json::Value>(l) {
            for k in ["time", "thread_id", "module_path", "file", "line"] {
                o.remove(k);
            }
            return serde_json::Value::Object(o).to_string();
        }
    }
    l.to_string()
}

fn parse_raw(format: Format, text: &str) -> Result<RawConfig, String> {
    match format {
        Format::Yaml => serde_yaml::from_str(text).map_err(|e| e.to_string()),
        Format::Json => serde_json::from_str(text).map_err(|e| e.to_string()),
        Format::Toml => toml::from_str(text).map_err(|e| e.to_string()),
    }
}

// ---- negative oracle: mutations of a rendered document -----------------------------------------------------

#[derive(Serialize, Deserialize, Debug, Clone, PartialEq)]
pub enum Mutation {
    /// unknown key at: "doc", "root", "logger", "appender", "encoder", "policy", "trigger", "roller"
    UnknownKey(String),
    /// wrong-typed value at: "root.level", "logger.additive", "logger.level", "appender.path", "appender.append", "roller.count", "trigger.limit", "refresh_rate", "root.appenders"
    WrongType(String),
    /// unknown kind at: "appender", "encoder", "policy", "trigger", "roller"
    UnknownKind(String),
    /// missing required field: "appender.kind", "appender.path", "roller.count", "roller.pattern", "trigger.kind", "logger.level", "policy.trigger"
    Missing(String),
    /// broken filter: 0 unknown kind, 1 bad level
    BrokenFilter(u8),
    /// reference to a nonexistent appender from: "root" / "logger"
    Dangling(String),
    /// degenerate numeric: (site, value)
    Degenerate(String, String),
    /// the complete, valid document is followed by something that makes the file as a whole malformed (a stray closing
    /// brace, a second document, a leftover fragment): index into a per-format list
    Trailing(u8),
    /// a key of the document written twice (the second time with another value): which one would win is nobody's guess
    DuplicateKey(u8),
    /// (YAML, TOML) the document is valid but for one byte in a comment that is not UTF-8: the file is not text
    NonUtf8,
}

/// A second occurrence of a top-level key, appended to the rendered document.
fn duplicate_key_text(f: Format, text: &str, k: u8) -> Option<String> {
    match f {
        Format::Json => {
            let end = text.rfind('}')?;
            let extra = [", \"root\": {\"level\": \"error\"}", ", \"appenders\": {}", ", \"refresh_rate\": \"77 seconds\", \"refresh_rate\": \"78 seconds\""][k as usize % 3];
            Some(format!("{}{}{}", &text[..end], extra, &text[end..]))
        }
        Format::Yaml => Some(format!("{}\n{}", text.trim_end(), ["root:\n  level: error\n", "appenders: {}\n", "refresh_rate: 77 seconds\nrefresh_rate: 78 seconds\n"][k as usize % 3])),
        Format::Toml => Some(format!("{}\n{}", text.trim_end(), ["[root]\nlevel = \"error\"\n", "[appenders]\n", "refresh_rate = \"77 seconds\"\nrefresh_rate = \"78 seconds\"\n"][k as usize % 3])),
    }
}

/// Text after which the file is no longer a document of its format.
fn trailing_garbage(f: Format, k: u8) -> &'static str {
    let list: &[&str] = match f {
        Format::Json => &["}", " {}", "\n{\"root\":{\"level\":\"warn\"}}", " x", "]", ",", "\n\"tail\""],
        Format::Yaml => &["\n}\n", "\n- item\n", "\n\"unterminated\n", "\n]\n", "\n  : : :\n- x\n"],
        Format::Toml => &["\n}\n", "\n= 3\n", "\n[[\n", "\nkey\n", "\n\"a\" \"b\"\n"],
    };
    list[k as usize % list.len()]
}

#[derive(Serialize, Deserialize, Debug, Clone)]
pub struct Mutant {
    pub case: Case,
    pub mutation: Mutation,
    /// which appender / logger is hit (index, resolved modulo the count)
    pub victim: u16,
    pub format: Format,
}

const DEGENERATE: [(&str, &str); 22] = [
    // near misses of the documented units: a plural too many, a unit cut short, two units
    ("trigger.interval", "2 hourss"),
    ("trigger.interval", "1 secondsS"),
    ("trigger.interval", "3 minute s"),
    ("trigger.limit", "10 kbs"),
    ("roller.count", "0"),
    ("trigger.limit", "0"),
    ("roller.base", "4294967295"),
    ("roller.base", "4294967296"),
    ("trigger.interval", "0"),
    ("trigger.interval", "0 seconds+modulate"),
    ("trigger.interval", "-5"),
    ("trigger.max_random_delay", "18446744073709551615"),
    ("trigger.interval", "9223372036854775807 weeks"),
    ("trigger.interval", "123456789012345678901234567890"),
    ("trigger.limit", "-1"),
    ("roller.count", "4294967295"),
    ("trigger.min_size", "18446744073709551615"),
    ("roller.count", "-1"),
    // units that only LOOK like the documented ones (KELVIN SIGN, LONG S, full-width letters): malformed values
    ("trigger.limit", "10 \u{212A}b"),
    ("trigger.limit", "3 \u{ff4b}\u{ff42}"),
    ("trigger.interval", "5 \u{17F}econds"),
    ("trigger.limit", "7 kb\u{200b}"),
];

pub fn mutant_strategy() -> impl Strategy<Value = Mutant> {
    let sites = |v: Vec<&'static str>| prop::sample::select(v).prop_map(|s| s.to_string());
    let mutation = prop_oneof![
        4 => sites(vec!["doc", "root", "logger", "appender", "encoder", "policy", "trigger", "roller"]).prop_map(Mutation::UnknownKey),
        4 => sites(vec!["root.level", "logger.additive", "logger.level", "appender.path", "appender.append", "roller.count", "trigger.limit", "refresh_rate", "root.appenders", "encoder.pattern", "trigger.interval", "roller.pattern-no-braces", "appender.kind", "appender.filters"]).prop_map(Mutation::WrongType),
        2 => sites(vec!["appender", "encoder", "policy", "trigger", "roller"]).prop_map(Mutation::UnknownKind),
        2 => sites(vec!["appender.kind", "appender.path", "roller.count", "roller.pattern", "trigger.kind", "logger.level", "policy.trigger"]).prop_map(Mutation::Missing),
        1 => (0u8..2).prop_map(Mutation::BrokenFilter),
        1 => sites(vec!["root", "logger"]).prop_map(Mutation::Dangling),
        3 => prop::sample::select(DEGENERATE.to_vec()).prop_map(|(s, v)| Mutation::Degenerate(s.to_string(), v.to_string())),
        1 => (0u8..8).prop_map(Mutation::Trailing),
        1 => (0u8..3).prop_map(Mutation::DuplicateKey),
        1 => Just(Mutation::NonUtf8),
    ];
    (strategy(), mutation, any::<u16>(), prop::sample::select(vec![Format::Yaml, Format::Json, Format::Toml])).prop_map(|(case, mutation, victim, format)| Mutant { case, mutation, victim, format })
}

#[derive(Debug, PartialEq)]
enum Expect {
    /// rejected while parsing the document (both paths fail)
    DocumentRejected,
    /// the named appender is reported and dropped, everything else keeps working
    AppenderDropped(String),
    /// the filter (appender, index) is reported and dropped, the appender is kept
    FilterDropped(String, usize),
    /// strict building fails, lossy strips the reference
    DanglingStripped,
    /// accepted or rejected at either layer, never a panic
    NoPanicOnly(Option<String>),
    /// a malformed value: rejected while parsing the document, or reported for and dropped with that appender
    RejectedSomewhere(String),
    /// the mutation could not be applied to this configuration
    NotApplicable,
}

fn is_rolling(a: &LApp) -> bool {
    matches!(a.kind, Kind::Rolling { .. })
}

/// Applies the mutation to the document; returns what the statement demands.
fn apply(doc: &mut DV, lc: &LC, m: &Mutant) -> Expect {
    let pickv = |n: usize| (m.victim as usize * n) >> 16;
    let apps_path = |name: &str, rest: &[&str]| -> Vec<String> {
        let mut p = vec!["appenders".to_string(), name.to_string()];
        p.extend(rest.iter().map(|s| s.to_string()));
        p
    };
    // candidates
    let rolling: Vec<&LApp> = lc.apps.iter().filter(|a| is_rolling(a)).collect();
    let with_enc: Vec<&LApp> = lc.apps.iter().filter(|a| match &a.kind {
        Kind::File { enc, .. } | Kind::Rolling { enc, .. } | Kind::Console { enc, .. } => *enc != Enc::Omitted,
    }).collect();
    let with_path: Vec<&LApp> = lc.apps.iter().filter(|a| !matches!(a.kind, Kind::Console { .. })).collect();
    let fixed: Vec<&LApp> = rolling.iter().copied().filter(|a| matches!(&a.kind, Kind::Rolling { roller: Roller::Fixed { .. }, .. })).collect();
    let sized: Vec<&LApp> = rolling.iter().copied().filter(|a| matches!(&a.kind, Kind::Rolling { trigger: Trig::Size(..), .. })).collect();
    let timed: Vec<&LApp> = rolling.iter().copied().filter(|a| matches!(&a.kind, Kind::Rolling { trigger: Trig::Time { .. }, .. })).collect();
    let startup: Vec<&LApp> = rolling.iter().copied().filter(|a| matches!(&a.kind, Kind::Rolling { trigger: Trig::OnStartup(..), .. })).collect();
    let loggers = &lc.routing.loggers;
    macro_rules! choose {
        ($v:expr) => {{
            if $v.is_empty() {
                return Expect::NotApplicable;
            }
            &$v[pickv($v.len())]
        }};
    }
    // the value of an unknown key does not make it known: number, null, empty string, empty list, empty map
    let junk = match (m.victim / 7) % 5 {
        0 => DV::Int(7),
        1 if m.format != Format::Toml => DV::Null,
        2 => DV::s(""),
        3 => DV::Seq(vec![]),
        4 => DV::Map(vec![]),
        _ => DV::Bool(false),
    };
    match &m.mutation {
        Mutation::UnknownKey(site) => match site.as_str() {
            "doc" => {
                doc.insert("frobnicate", junk.clone());
                Expect::DocumentRejected
            }
            "root" => {
                doc.get_mut("root").unwrap().insert("frobnicate", junk);
                Expect::DocumentRejected
            }
            "logger" => {
                let l = choose!(loggers);
                match doc.at_mut(&["loggers".to_string(), l.name.clone()]) {
                    Some(d) => d.insert("frobnicate", junk),
                    None => return Expect::NotApplicable,
                }
                Expect::DocumentRejected
            }
            "appender" => {
                let a = choose!(lc.apps.iter().collect::<Vec<_>>());
                doc.at_mut(&apps_path(&a.name, &[])).unwrap().insert("frobnicate", junk);
                Expect::AppenderDropped(a.name.clone())
            }
            "encoder" => {
                let a = choose!(with_enc);
                doc.at_mut(&apps_path(&a.name, &["encoder"])).unwrap().insert("frobnicate", junk);
                Expect::AppenderDropped(a.name.clone())
            }
            "policy" | "trigger" | "roller" => {
                let a = choose!(rolling);
                let p: Vec<&str> = if site == "policy" { vec!["policy"] } else { vec!["policy", site.as_str()] };
                doc.at_mut(&apps_path(&a.name, &p)).unwrap().insert("frobnicate", junk);
                Expect::AppenderDropped(a.name.clone())
            }
            _ => Expect::NotApplicable,
        },
        Mutation::WrongType(site) => match site.as_str() {
            "root.level" => {
                doc.get_mut("root").unwrap().insert("level", DV::Seq(vec![DV::Int(1)]));
                Expect::DocumentRejected
            }
            "root.appenders" => {
                doc.get_mut("root").unwrap().insert("appenders", DV::Int(3));
                Expect::DocumentRejected
            }
            "refresh_rate" => {
                doc.insert("refresh_rate", DV::s("soonish"));
                Expect::DocumentRejected
            }
            "logger.additive" | "logger.level" => {
                let l = choose!(loggers);
                let d = doc.at_mut(&["loggers".to_string(), l.name.clone()]).unwrap();
                if site == "logger.additive" {
                    d.insert("additive", DV::s("maybe"));
                } else {
                    d.insert("level", DV::s("loud"));
                }
                Expect::DocumentRejected
            }
            "appender.path" => {
                let a = choose!(with_path);
                doc.at_mut(&apps_path(&a.name, &[])).unwrap().insert("path", DV::Seq(vec![DV::s("x")]));
                Expect::AppenderDropped(a.name.clone())
            }
            "appender.append" => {
                let a = choose!(with_path);
                doc.at_mut(&apps_path(&a.name, &[])).unwrap().insert("append", DV::s("perhaps"));
                Expect::AppenderDropped(a.name.clone())
            }
            "roller.count" => {
                let a = choose!(fixed);
                doc.at_mut(&apps_path(&a.name, &["policy", "roller"])).unwrap().insert("count", DV::s("three"));
                Expect::AppenderDropped(a.name.clone())
            }
            "trigger.limit" => {
                let a = choose!(sized);
                doc.at_mut(&apps_path(&a.name, &["policy", "trigger"])).unwrap().insert("limit", DV::s("10 parsecs"));
                Expect::AppenderDropped(a.name.clone())
            }
            "encoder.pattern" => {
                let a = choose!(with_enc);
                doc.at_mut(&apps_path(&a.name, &["encoder"])).unwrap().insert("pattern", DV::Seq(vec![DV::Int(1)]));
                // a JSON encoder section has no pattern key at all: then it is an unknown key; same outcome
                Expect::AppenderDropped(a.name.clone())
            }
            "trigger.interval" => {
                let a = choose!(timed);
                doc.at_mut(&apps_path(&a.name, &["policy", "trigger"])).unwrap().insert("interval", DV::Seq(vec![DV::s("1 day")]));
                Expect::AppenderDropped(a.name.clone())
            }
            "roller.pattern-no-braces" => {
                let a = choose!(fixed);
                doc.at_mut(&apps_path(&a.name, &["policy", "roller"])).unwrap().insert("pattern", DV::s("archive-without-index.log"));
                Expect::AppenderDropped(a.name.clone())
            }
            "appender.kind" => {
                let a = choose!(lc.apps.iter().collect::<Vec<_>>());
                doc.at_mut(&apps_path(&a.name, &[])).unwrap().insert("kind", DV::Seq(vec![DV::s("file")]));
                Expect::RejectedSomewhere(a.name.clone())
            }
            "appender.filters" => {
                let a = choose!(lc.apps.iter().collect::<Vec<_>>());
                doc.at_mut(&apps_path(&a.name, &[])).unwrap().insert("filters", DV::s("threshold"));
                Expect::RejectedSomewhere(a.name.clone())
            }
            _ => Expect::NotApplicable,
        },
        Mutation::UnknownKind(site) => {
            let (a, path): (&LApp, Vec<&str>) = match site.as_str() {
                "appender" => (choose!(lc.apps.iter().collect::<Vec<_>>()), vec![]),
                "encoder" => (choose!(with_enc), vec!["encoder"]),
                "policy" => (choose!(rolling), vec!["policy"]),
                "trigger" => (choose!(rolling), vec!["policy", "trigger"]),
                _ => (choose!(rolling), vec!["policy", "roller"]),
            };
            doc.at_mut(&apps_path(&a.name, &path)).unwrap().insert("kind", DV::s("no_such_kind"));
            Expect::AppenderDropped(a.name.clone())
        }
        Mutation::Missing(site) => match site.as_str() {
            "appender.kind" => {
                let a = choose!(lc.apps.iter().collect::<Vec<_>>());
                doc.at_mut(&apps_path(&a.name, &[])).unwrap().remove("kind");
                // rejected while parsing the document or reported for that appender: both are "rejected"
                Expect::NoPanicOnly(Some(a.name.clone()))
            }
            "appender.path" => {
                let a = choose!(with_path);
                doc.at_mut(&apps_path(&a.name, &[])).unwrap().remove("path");
                Expect::AppenderDropped(a.name.clone())
            }
            "roller.count" | "roller.pattern" => {
                let a = choose!(fixed);
                doc.at_mut(&apps_path(&a.name, &["policy", "roller"])).unwrap().remove(&site[7..]);
                Expect::AppenderDropped(a.name.clone())
            }
            "trigger.kind" => {
                let a = choose!(rolling);
                doc.at_mut(&apps_path(&a.name, &["policy", "trigger"])).unwrap().remove("kind");
                Expect::AppenderDropped(a.name.clone())
            }
            "policy.trigger" => {
                let a = choose!(rolling);
                doc.at_mut(&apps_path(&a.name, &["policy"])).unwrap().remove("trigger");
                Expect::AppenderDropped(a.name.clone())
            }
            "logger.level" => {
                let l = choose!(loggers);
                doc.at_mut(&["loggers".to_string(), l.name.clone()]).unwrap().remove("level");
                Expect::DocumentRejected
            }
            _ => Expect::NotApplicable,
        },
        Mutation::BrokenFilter(k) => {
            let filtered: Vec<&LApp> = lc.apps.iter().filter(|a| !a.filters.is_empty()).collect();
            let a = choose!(filtered);
            let idx = (m.victim as usize) % a.filters.len();
            if let Some(DV::Seq(fs)) = doc.at_mut(&apps_path(&a.name, &["filters"])) {
                if *k == 0 {
                    fs[idx].insert("kind", DV::s("no_such_filter"));
                } else {
                    fs[idx].insert("level", DV::s("shouting"));
                }
            }
            Expect::FilterDropped(a.name.clone(), idx)
        }
        Mutation::Dangling(site) => {
            if site == "root" {
                match doc.get_mut("root").unwrap().get_mut("appenders") {
                    Some(DV::Seq(s)) => s.push(DV::s("ghost")),
                    _ => doc.get_mut("root").unwrap().insert("appenders", DV::Seq(vec![DV::s("ghost")])),
                }
            } else {
                let l = choose!(loggers);
                let d = doc.at_mut(&["loggers".to_string(), l.name.clone()]).unwrap();
                match d.get_mut("appenders") {
                    Some(DV::Seq(s)) => s.insert(0, DV::s("ghost")),
                    _ => d.insert("appenders", DV::Seq(vec![DV::s("ghost")])),
                }
            }
            Expect::DanglingStripped
        }
        Mutation::Trailing(_) | Mutation::DuplicateKey(_) | Mutation::NonUtf8 => Expect::DocumentRejected,
        Mutation::Degenerate(site, value) => {
            let num = |v: &str| -> DV {
                match v.parse::<i128>() {
                    Ok(i) => DV::Int(i),
                    Err(_) => DV::s(v),
                }
            };
            let (a, path, key, val): (&LApp, Vec<&str>, &str, DV) = match site.as_str() {
                "roller.count" => (choose!(fixed), vec!["policy", "roller"], "count", num(value)),
                "roller.base" => (choose!(fixed), vec!["policy", "roller"], "base", num(value)),
                "trigger.limit" => (choose!(sized), vec!["policy", "trigger"], "limit", num(value)),
                "trigger.min_size" => (choose!(startup), vec!["policy", "trigger"], "min_size", num(value)),
                "trigger.max_random_delay" => (choose!(timed), vec!["policy", "trigger"], "max_random_delay", num(value)),
                _ => (choose!(timed), vec!["policy", "trigger"], "interval", if value.ends_with("+modulate") { DV::s(&value[..value.len() - 9]) } else { num(value) }),
            };
            let d = doc.at_mut(&apps_path(&a.name, &path)).unwrap();
            d.insert(key, val);
            if value.ends_with("+modulate") {
                d.insert("modulate", DV::Bool(true));
            }
            // malformed beyond doubt (negative for an unsigned field, not representable in the field's type, a unit that is
            // none of the documented ones):
            // must be rejected, at the document layer (a format that cannot express it) or for that appender
            let must_reject = value.starts_with('-') || value == "4294967296" || value.len() >= 30 || !value.is_ascii() || ["2 hourss", "1 secondsS", "3 minute s", "10 kbs"].contains(&value.as_str());
            if must_reject {
                Expect::RejectedSomewhere(a.name.clone())
            } else {
                Expect::NoPanicOnly(Some(a.name.clone()))
            }
        }
    }
}

pub fn check_mutant(tmp: &Path, m: &Mutant, obs: &mut Obs) -> CaseResult {
    let base = scratch(tmp, "c14m");
    pin_clock();
    let r = check_mutant_in(&base, m, obs);
    let _ = std::fs::remove_dir_all(&base);
    r
}

fn panic_sig(stage: &str, msg: &str) -> String {
    if msg.contains("divisor of zero") || msg.contains("divide by zero") {
        "C14:panic:load:interval-zero".to_string()
    } else if msg.contains("TimeDelta::seconds out of bounds") || msg.contains("overflowed") {
        "C14:panic:load:delay-overflow".to_string()
    } else if msg.contains("out of bounds") {
        "C14:panic:load:interval-overflow".to_string()
    } else {
        format!("C14:panic:{}", stage)
    }
}

fn check_mutant_in(base: &Path, m: &Mutant, obs: &mut Obs) -> CaseResult {
    let lc = &m.case.lc;
    let dir = base.join("mut");
    std::fs::create_dir_all(&dir).unwrap();
    let mut doc = document(&dir.display().to_string(), lc, m.case.style);
    let expect = apply(&mut doc, lc, m);
    if expect == Expect::NotApplicable {
        obs.class("mutation-not-applicable(skipped)");
        return Ok(());
    }
    let mut text = m.format.render(&doc, m.case.style);
    if let Mutation::Trailing(k) = &m.mutation {
        text.push_str(trailing_garbage(m.format, *k));
        // (only text that the format's own parser refuses counts as malformed)
        if parse_raw(m.format, &text).is_ok() {
            obs.class("mutation-not-applicable(skipped)");
            return Ok(());
        }
    }
    if let Mutation::DuplicateKey(k) = &m.mutation {
        match duplicate_key_text(m.format, &text, *k) {
            Some(t2) if parse_raw(m.format, &t2).is_err() => text = t2,
            _ => {
                obs.class("mutation-not-applicable(skipped)");
                return Ok(());
            }
        }
    }
    let file = dir.join(format!("cfg.{}", m.format.ext()));
    if m.mutation == Mutation::NonUtf8 {
        if m.format == Format::Json {
            obs.class("mutation-not-applicable(skipped)");
            return Ok(());
        }
        // a comment line with a Latin-1 byte right after the first line
        let mut bytes = text.clone().into_bytes();
        let at = bytes.iter().position(|b| *b == b'\n').map(|p| p + 1).unwrap_or(bytes.len());
        let insert: &[u8] = b"# caf\xE9 au lait\n";
        bytes.splice(at..at, insert.iter().copied());
        std::fs::write(&file, &bytes).unwrap();
        let what = format!("{:?} in a {:?} document", m.mutation, m.format);
        let loaded = match catch(|| log4rs::config::load_config_file(&file, deserializers())) {
            Err(p) => return fail(panic_sig("load", &p), format!("{}: load_config_file panicked: {}", what, p)),
            Ok(r) => r.map_err(|e| e.to_string()),
        };
        obs.sub_evals += 1;
        ensure!(loaded.is_err(), "C14:malformed-accepted", "{}: the file holds a byte that is not UTF-8 (it is not a text document of its format) and load_config_file accepted it", what);
        obs.nontrivial = true;
        obs.class("layer=document");
        obs.class("mutation=not-utf8");
        return Ok(());
    }
    std::fs::write(&file, &text).unwrap();
    let what = format!("{:?} in a {:?} document", m.mutation, m.format);
    // both entry points under catch_unwind
    let parsed = match catch(|| parse_raw(m.format, &text)) {
        Err(p) => return fail(panic_sig("parse", &p), format!("{}: parsing panicked: {}\n{}", what, p, text)),
        Ok(r) => r,
    };
    let strict: Option<Result<(), String>> = match &parsed {
        Err(_) => None,
        Ok(raw) => {
            let sdir = base.join("strict");
            std::fs::create_dir_all(&sdir).unwrap();
            // the strict path opens the same files; run it on its own copy of the document
            let sdoc = {
                let mut d = document(&sdir.display().to_string(), lc, m.case.style);
                let _ = apply(&mut d, lc, m);
                d
            };
            let stext = m.format.render(&sdoc, m.case.style);
            let sraw = parse_raw(m.format, &stext).map_err(|e| Failure { sig: "C14:harness".into(), msg: e })?;
            let _ = raw;
            // the library's own strict entry point (what init_raw_config runs before installing the logger)
            let custom = has_custom_filter(lc);
            match catch(|| {
                if custom {
                    // create_raw_config knows the default deserializers only; same steps with the user-defined filter kind registered
                    let (appenders, errors) = sraw.appenders_lossy(&deserializers());
                    if !errors.is_empty() {
                        return Err(format!("{}", log4rs::config::InitError::Deserializing(errors)));
                    }
                    Config::builder().appenders(appenders).loggers(sraw.loggers()).build(sraw.root()).map(|_| ()).map_err(|e| format!("{}", e))
                } else {
                    log4rs::config::create_raw_config(sraw).map(|_| ()).map_err(|e| format!("{}", e))
                }
            }) {
                Err(p) => return fail(panic_sig("load", &p), format!("{}: the strict path panicked while loading: {}\n{}", what, p, text)),
                Ok(r) => Some(r),
            }
        }
    };
    let loaded = match catch(|| log4rs::config::load_config_file(&file, deserializers())) {
        Err(p) => return fail(panic_sig("load", &p), format!("{}: load_config_file panicked: {}\n{}", what, p, text)),
        Ok(r) => r.map_err(|e| e.to_string()),
    };
    obs.sub_evals += 1;
    let layer;
    let expect = match expect {
        Expect::RejectedSomewhere(name) => {
            if parsed.is_err() {
                ensure!(loaded.is_err(), "C14:malformed-accepted", "{}: the document does not parse but load_config_file accepted it", what);
                obs.nontrivial = true;
                obs.class("layer=malformed-value(document)");
                return Ok(());
            }
            Expect::AppenderDropped(name)
        }
        e => e,
    };
    match &expect {
        Expect::DocumentRejected => {
            layer = "document";
            ensure!(parsed.is_err(), "C14:malformed-accepted", "{}: the document parsed although it must be rejected\n{}", what, text);
            ensure!(loaded.is_err(), "C14:malformed-accepted", "{}: load_config_file accepted a document that must be rejected\n{}", what, text);
        }
        Expect::AppenderDropped(name) | Expect::FilterDropped(name, _) => {
            layer = "component";
            if let Err(e) = &parsed {
                return fail("C14:lossy-not-lossy", format!("{}: the whole document was rejected ({}), but only appender {:?} is broken\n{}", what, e, name, text));
            }
            match &strict {
                Some(Err(e)) => ensure!(e.contains(name.as_str()), "C14:error-names-wrong-item", "{}: the reported error does not name appender {:?}: {}", what, name, e),
                _ => return fail("C14:malformed-accepted", format!("{}: the strict path accepted a configuration whose appender {:?} is broken\n{}", what, name, text)),
            }
            let cfg = match loaded {
                Ok(c) => c,
                Err(e) => return fail("C14:lossy-not-lossy", format!("{}: lossy loading failed altogether: {}\n{}", what, e, text)),
            };
            // the rest keeps working: compare with the twin of the logical configuration minus the broken part
            let (drop_apps, drop_filters): (Vec<String>, Vec<(String, usize)>) = match &expect {
                Expect::AppenderDropped(n) => (vec![n.clone()], vec![]),
                Expect::FilterDropped(n, i) => (vec![], vec![(n.clone(), *i)]),
                _ => unreachable!(),
            };
            let seen = observed_routing(&cfg);
            let mut want = lc.routing.clone();
            want.appenders.retain(|a| !drop_apps.contains(a));
            want.root_appenders.retain(|a| !drop_apps.contains(a));
            for l in want.loggers.iter_mut() {
                l.appenders.retain(|a| !drop_apps.contains(a));
            }
            ensure!(same_routing(&seen, &want), "C14:lossy-config-differs", "{}: lossy loading returned {:?}, expected the configuration without {:?}: {:?}\n{}", what, seen, drop_apps, want, text);
            let tdir = base.join("twin");
            std::fs::create_dir_all(&tdir).unwrap();
            let twin = twin_config(&tdir, lc, &drop_apps, &drop_filters).map_err(|e| Failure { sig: "C14:twin".into(), msg: e })?;
            drive(twin, &m.case.probes).map_err(|p| Failure { sig: "C14:twin".into(), msg: p })?;
            drive(cfg, &m.case.probes).map_err(|p| Failure { sig: "C14:panic:log".into(), msg: format!("{}: logging through the lossily loaded configuration panicked: {}", what, p) })?;
            let (mut got, mut want_snap) = (normalised(&dir), normalised(&tdir));
            // the broken appender may have created (empty) files before failing: only files with content count
            got.retain(|_, v| !v.is_empty());
            want_snap.retain(|_, v| !v.is_empty());
            if got != want_snap {
                let diff: Vec<String> = got.keys().chain(want_snap.keys()).filter(|k| got.get(*k) != want_snap.get(*k)).cloned().collect();
                return fail("C14:lossy-behaviour-differs", format!("{}: after the probes file {:?} holds {:?}, the configuration without the broken part writes {:?}\n{}", what, diff[0], got.get(&diff[0]), want_snap.get(&diff[0]), text));
            }
        }
        Expect::DanglingStripped => {
            layer = "reference";
            ensure!(parsed.is_ok(), "C14:lossy-not-lossy", "{}: a dangling reference made the whole document unparsable\n{}", what, text);
            ensure!(matches!(&strict, Some(Err(e)) if e.contains("ghost")), "C14:malformed-accepted", "{}: strict building must fail naming the nonexistent appender: {:?}", what, strict);
            let cfg = loaded.map_err(|e| Failure { sig: "C14:lossy-not-lossy".into(), msg: format!("{}: lossy loading failed: {}", what, e) })?;
            ensure!(same_routing(&observed_routing(&cfg), &lc.routing), "C14:lossy-config-differs", "{}: lossy loading did not simply strip the dangling reference: {:?}", what, observed_routing(&cfg));
        }
        Expect::NoPanicOnly(name) => {
            layer = "degenerate";
            // accepted or rejected, at either layer: the statement demands only that loading never panics
            let _ = (loaded, name);
        }
        Expect::NotApplicable | Expect::RejectedSomewhere(_) => unreachable!(),
    }
    obs.nontrivial = layer != "document";
    obs.class(format!("layer={}", layer));
    obs.class(format!("mutation={}", match &m.mutation {
        Mutation::UnknownKey(s) => format!("unknown-key:{}", s),
        Mutation::WrongType(s) => format!("wrong-type:{}", s),
        Mutation::UnknownKind(s) => format!("unknown-kind:{}", s),
        Mutation::Missing(s) => format!("missing:{}", s),
        Mutation::BrokenFilter(_) => "broken-filter".to_string(),
        Mutation::Dangling(s) => format!("dangling:{}", s),
        Mutation::Degenerate(s, v) => format!("degenerate:{}={}", s, v),
        Mutation::Trailing(_) => "trailing-garbage".to_string(),
        Mutation::DuplicateKey(_) => "duplicate-key".to_string(),
        Mutation::NonUtf8 => "not-utf8".to_string(),
    }));
    obs.class(format!("format={:?}", m.format));
    Ok(())
}

pub fn run(run: &Run) {
    let tmp = run.tmp.clone();
    let t0 = tmp.clone();
    run.run_replays::<Case>("documents", &move |c: &Case, o: &mut Obs| check(&t0, c, o));
    let t1 = tmp.clone();
    run.run_replays::<Mutant>("mutants", &move |c: &Mutant, o: &mut Obs| check_mutant(&t1, c, o));
    let t2 = tmp.clone();
    run.search("documents", run.tier.pick(300, 20_000), strategy(), &move |c: &Case, o: &mut Obs| check(&t2, c, o));
    let t3 = tmp.clone();
    run.search("mutants", run.tier.pick(1_500, 100_000), mutant_strategy(), &move |c: &Mutant, o: &mut Obs| check_mutant(&t3, c, o));
}

pub fn replay(part: &str, case: serde_json::Value) -> Option<CaseResult> {
    let tmp = std::env::temp_dir().join(format!("lv-replay-{}", std::process::id()));
    std::fs::create_dir_all(&tmp).ok()?;
    let r = match part {
        "documents" => Some(check(&tmp, &serde_json::from_value(case).ok()?, &mut Obs::default())),
        "mutants" => Some(check_mutant(&tmp, &serde_json::from_value(case).ok()?, &mut Obs::default())),
        _ => None,
    };
    let _ = std::fs::remove_dir_all(&tmp);
    r
}

pub fn meta() -> EvidenceMeta {
    EvidenceMeta {
        level: "exploration",
        rule: "part documents: logical configurations (cfgtree routing; 1-5 appenders of kinds file / rolling_file (size, time, onstartup triggers; delete or fixed_window rollers incl. .gz and directory patterns; policy kind present/omitted) / console (presence only); encoders pattern (kind key and pattern present/omitted) or json; 0-2 threshold filters per appender, or chains of 1-4 filters mixing threshold filters with a user-defined kind registered through Deserializers::insert that accepts/rejects records of one level (order-sensitive); optional refresh_rate (seconds, minutes, milli-, micro- and nanoseconds, combined forms); every defaultable key present or omitted; level words in three letter cases) rendered by three hand-written emitters (YAML block/flow mix, JSON, TOML inline/section/sub-section mix) with generated key order; oracle: serde parse and load_config_file succeed, refresh rate and Config accessors equal the logical configuration, and after 15-25 probe records the directory snapshot (clock/thread fields normalised, archives decompressed) equals that of a programmatic twin built with the public builders and documented defaults, for each of the three formats (the configured path may be a symbolic link to a file with another extension: the format is that of the configured name); file appenders are additionally compared with the route()+filter model. part mutants: one mutation of a rendered document (unknown key in document/root/logger/appender/encoder/policy/trigger/roller, wrong-typed value, unknown kind, missing required field, broken filter, dangling appender name, degenerate numerics, malformed text after the complete document, a top-level key written twice, a byte that is not UTF-8 in a comment) in a generated format; oracle by layer: document-level => rejected by both paths; component-level => document parses, strict path reports an error naming exactly that appender, lossy loading returns the configuration without it (references stripped / filter dropped) and its behaviour equals the twin without the broken part; dangling => strict fails naming it, lossy strips; degenerate numerics => no panic at load or while logging. Ten clock-free patterns (empty, line breaks after {n}, blanks, nested groups); unknown keys carry a number, null, empty string, empty list or empty map; probes alternate between records with and without module path/file/line; the strict path is log4rs::config::create_raw_config. non-trivial = >= 2 appender kinds with a defaulted key (documents); any mutation below the document layer (mutants)".into(),
        assumptions: vec![
            "root level default and loggers without a level are not generated (documentation and code disagree / statement silent)".into(),
            "console appenders are declared but attached only to a logger that is off (their bytes are C18's business)".into(),
            "filter sections are not mutated with unknown keys (not in the statement's list)".into(),
        ],
        mutants_caught: vec![],
    }
}
