use lv::*;


use engine::*;
use std::process::{Command, Stdio};

pub struct Prop {
    pub id: &'static str,
    pub run: fn(&Run),
    pub replay: fn(&str, serde_json::Value) -> Option<CaseResult>,
    pub meta: fn() -> EvidenceMeta,
    /// worker processes per tier (quick, thorough)
    pub workers: (u32, u32),
    /// additionally run under the release-like profile (debug assertions off)
    pub also_release: bool,
    /// additionally run the binary built with log4rs' background_rotation feature
    pub also_bg: bool,
    /// multipliers on the per-part case budgets written in the modules (quick, thorough)
    pub scale: (u64, u64),
    /// thorough tier: coverage-guided campaign (cargo-fuzz target, runs) with the property's oracle inside the target
    pub fuzz: Option<(&'static str, u64)>,
}

fn props() -> Vec<Prop> {
    vec![
        Prop { id: "C01", run: c01::run, replay: c01::replay, meta: c01::meta, workers: (4, 16), also_release: false, also_bg: false, scale: (30, 100), fuzz: None },
        Prop { id: "C02", run: c02::run, replay: c02::replay, meta: c02::meta, workers: (8, 16), also_release: false, also_bg: false, scale: (40, 100), fuzz: None },
        Prop { id: "C03", run: c03::run, replay: c03::replay, meta: c03::meta, workers: (4, 16), also_release: false, also_bg: false, scale: (30, 100), fuzz: None },
        Prop { id: "C04", run: c04::run, replay: c04::replay, meta: c04::meta, workers: (8, 16), also_release: false, also_bg: false, scale: (15, 50), fuzz: None },
        Prop { id: "C05", run: c05::run, replay: c05::replay, meta: c05::meta, workers: (8, 16), also_release: false, also_bg: true, scale: (3, 5), fuzz: None },
        Prop { id: "C06", run: c06::run, replay: c06::replay, meta: c06::meta, workers: (4, 16), also_release: false, also_bg: false, scale: (30, 60), fuzz: None },
        Prop { id: "C07", run: c07::run, replay: c07::replay, meta: c07::meta, workers: (4, 16), also_release: false, also_bg: true, scale: (3, 5), fuzz: None },
        Prop { id: "C08", run: c08::run, replay: c08::replay, meta: c08::meta, workers: (8, 16), also_release: false, also_bg: false, scale: (2, 1), fuzz: None },
        Prop { id: "C09", run: c09::run, replay: c09::replay, meta: c09::meta, workers: (4, 8), also_release: true, also_bg: false, scale: (3, 3), fuzz: Some(("pattern_ast", 3000000)) },
        Prop { id: "C11", run: c11::run, replay: c11::replay, meta: c11::meta, workers: (4, 16), also_release: true, also_bg: false, scale: (5, 5), fuzz: Some(("pattern_any", 6000000)) },
        Prop { id: "C12", run: c12::run, replay: c12::replay, meta: c12::meta, workers: (8, 16), also_release: false, also_bg: false, scale: (6, 3), fuzz: Some(("json_record", 1500000)) },
        Prop { id: "C13", run: c13::run, replay: c13::replay, meta: c13::meta, workers: (4, 16), also_release: false, also_bg: false, scale: (40, 100), fuzz: Some(("builder_names", 2000000)) },
        Prop { id: "C14", run: c14::run, replay: c14::replay, meta: c14::meta, workers: (8, 16), also_release: false, also_bg: false, scale: (20, 4), fuzz: Some(("config_doc", 3000000)) },
        Prop { id: "C15", run: c15::run, replay: c15::replay, meta: c15::meta, workers: (8, 16), also_release: false, also_bg: false, scale: (15, 9), fuzz: None },
        Prop { id: "C16", run: c16::run, replay: c16::replay, meta: c16::meta, workers: (10, 18), also_release: false, also_bg: false, scale: (3, 1), fuzz: None },
        Prop { id: "C17", run: c17::run, replay: c17::replay, meta: c17::meta, workers: (4, 16), also_release: false, also_bg: false, scale: (25, 30), fuzz: None },
        Prop { id: "C18", run: c18::run, replay: c18::replay, meta: c18::meta, workers: (8, 16), also_release: false, also_bg: false, scale: (1, 1), fuzz: None },
        Prop { id: "C19", run: c19::run, replay: c19::replay, meta: c19::meta, workers: (4, 16), also_release: false, also_bg: false, scale: (6, 8), fuzz: Some(("env_expand", 6000000)) },
        Prop { id: "C20", run: c20::run, replay: c20::replay, meta: c20::meta, workers: (4, 16), also_release: false, also_bg: false, scale: (15, 20), fuzz: Some(("literals", 4000000)) },
        Prop { id: "C10", run: c10::run, replay: c10::replay, meta: c10::meta, workers: (4, 16), also_release: false, also_bg: false, scale: (10, 10), fuzz: Some(("pattern_ast", 3000000)) },
    ]
}

fn usage() -> ! {
    eprintln!("usage: lv run <ID> <quick|thorough> | lv worker <ID> <tier> <k> <W> <out> | lv replay <file> | lv child <name> ...");
    std::process::exit(2)
}

fn parse_tier(s: &str) -> Tier {
    match s {
        "quick" => Tier::Quick,
        "thorough" => Tier::Thorough,
        _ => usage(),
    }
}

fn seed_from_env() -> u64 {
    std::env::var("VERIF_SEED")
        .ok()
        .and_then(|s| s.trim().parse::<i128>().ok())
        .map(|v| v as u64)
        .unwrap_or(20261003)
}

fn profile_name() -> String {
    if cfg!(debug_assertions) { "verif-dbg".into() } else { "verif-rel".into() }
}

fn main() {
    // purity: proptest must not pick up ambient configuration
    let keys: Vec<String> = std::env::vars_os()
        .filter_map(|(k, _)| k.into_string().ok())
        .filter(|k| k.starts_with("PROPTEST_"))
        .collect();
    for k in keys {
        std::env::remove_var(k);
    }
    // one fixed-offset zone so that (utc) and (local) differ and no DST edge is ever hit;
    // children that study time zones (C16) set their own TZ before chrono is first used
    std::env::set_var("LV_SET", "envdir");
    std::env::set_var("LV_BRACES", "b{}r");
    std::env::set_var("LV_SLASH", "bill/api");
    std::env::remove_var("LV_UNSET");
    if std::env::var_os("LV_KEEP_TZ").is_none() {
        std::env::set_var("TZ", "<+0545>-5:45");
    }
    let args: Vec<String> = std::env::args().collect();
    if args.len() < 2 {
        usage();
    }
    install_quiet_panic_hook();
    match args[1].as_str() {
        "run" => {
            if args.len() < 4 {
                usage();
            }
            std::process::exit(parent(&args[2], parse_tier(&args[3])));
        }
        "worker" => {
            if args.len() < 7 {
                usage();
            }
            let id = &args[2];
            let tier = parse_tier(&args[3]);
            let k: u32 = args[4].parse().unwrap();
            let w: u32 = args[5].parse().unwrap();
            let all = props();
            let p = all.iter().find(|p| p.id == id).unwrap_or_else(|| usage());
            let mut run = Run::new(id, tier, seed_from_env(), (k, w), &profile_name());
            run.scale = tier.pick(p.scale.0, p.scale.1);
            start_progress_watchdog(format!("{} worker {}/{}", id, k, w), std::time::Duration::from_secs(tier.pick(600, 3600)));
            (p.run)(&run);
            let st = run.stats.replace(Stats::default());
            std::fs::write(&args[6], serde_json::to_string(&st).unwrap()).expect("write worker stats");
            let _ = std::fs::remove_dir_all(&run.tmp);
            fsx::cleanup_other_fs();
            std::process::exit(if st.violations > 0 { 1 } else { 0 });
        }
        "replay" => {
            if args.len() < 3 {
                usage();
            }
            let code = replay_file(&args[2], true);
            fsx::cleanup_other_fs();
            std::process::exit(code);
        }
        "child" => {
            if args.len() < 3 {
                usage();
            }
            std::process::exit(child(&args[2], &args[3..]));
        }
        _ => usage(),
    }
}

fn child(name: &str, args: &[String]) -> i32 {
    match name {
        "c02" => child::child_main::<c02::History>(args, c02::child_check),
        "c18" => c18::child_main(args),
        "c15smoke" => child::child_main::<c15::Smoke>(args, c15::smoke_child),
        "c16" => child::child_main::<engine::ReplayFile>(args, c16::child_replay),
        "c08global" => child::child_main::<c08::Global>(args, c08::global_child),
        "c04tls" => child::child_main::<c04::Teardown>(args, c04::teardown_child),
        "c18raw" => {
            let Some(file) = args.first() else { return 2 };
            let c: c18::RawWriter = serde_json::from_str(&std::fs::read_to_string(file).expect("case file")).expect("case json");
            c18::raw_writer_child(&c)
        }
        "c18dev" => {
            let Some(file) = args.first() else { return 2 };
            let c: c18::Device = serde_json::from_str(&std::fs::read_to_string(file).expect("case file")).expect("case json");
            c18::device_child(&c)
        }
        "c11tls" => child::child_main::<c11::Teardown>(args, c11::teardown_child),
        "c11stderr" => child::child_main::<c11::Teardown>(args, c11::broken_stderr_child),
        "c16real" => child::child_main::<c16::RealClockChild>(args, c16::real_clock_child),
        _ => {
            eprintln!("unknown child {}", name);
            2
        }
    }
}

/// Replays one file through the property's check, bypassing proptest. Strict: known findings
/// are not suppressed. Returns the exit code.
fn replay_file(path: &str, verbose: bool) -> i32 {
    let text = match std::fs::read_to_string(path) {
        Ok(t) => t,
        Err(e) => {
            eprintln!("cannot read {}: {}", path, e);
            return 2;
        }
    };
    let rf: ReplayFile = match serde_json::from_str(&text) {
        Ok(r) => r,
        Err(e) => {
            eprintln!("cannot parse {}: {}", path, e);
            return 2;
        }
    };
    let all = props();
    let Some(p) = all.iter().find(|p| p.id == rf.property) else {
        eprintln!("unknown property {}", rf.property);
        return 2;
    };
    let r = catch(|| (p.replay)(&rf.part, rf.case.clone()));
    match r {
        Ok(Some(Ok(()))) => {
            if verbose {
                println!("replay passed: property={} part={}", rf.property, rf.part);
            }
            0
        }
        Ok(Some(Err(f))) => {
            if verbose {
                println!("VIOLATION property={} replay={}", rf.property, path);
                println!("  part={} sig={} :: {}", rf.part, f.sig, f.msg);
            } else {
                println!("{}", f.sig);
            }
            1
        }
        Ok(None) => {
            eprintln!("replay file does not fit part {} of {}", rf.part, rf.property);
            2
        }
        Err(pn) => {
            if verbose {
                println!("VIOLATION property={} replay={}", rf.property, path);
                println!("  part={} sig={}:harness-panic :: {}", rf.part, rf.property, pn);
            }
            1
        }
    }
}

fn parent(id: &str, tier: Tier) -> i32 {
    let all = props();
    let Some(p) = all.iter().find(|p| p.id == id) else {
        eprintln!("unknown property {}", id);
        return 2;
    };
    let seed = seed_from_env();
    let start = std::time::Instant::now();
    let exe = std::env::current_exe().expect("current_exe");
    // known findings: re-execute the recorded failing input (strict, in a child) and print one line each
    for k in load_known().into_iter().filter(|k| k.property == id && k.status == "known") {
        let mut reproduced = "not re-executed".to_string();
        if let Some(r) = &k.replay {
            let path = format!("{}/{}", verif_dir(), r);
            let out = Command::new(&exe).arg("replay").arg(&path).stdout(Stdio::piped()).stderr(Stdio::null()).output();
            reproduced = match out {
                Ok(o) if o.status.code() == Some(1) => {
                    let s = String::from_utf8_lossy(&o.stdout).to_string();
                    if s.contains(&k.signature) { "reproduced".into() } else { "fails differently".into() }
                }
                Ok(o) if o.status.code() == Some(0) => "no longer reproduces".into(),
                _ => "replay error".into(),
            };
        }
        println!("KNOWN-FINDING: property={} {} [{}; signature {}]", id, k.what, reproduced, k.signature);
    }
    let w = tier.pick(p.workers.0, p.workers.1).max(1);
    let mut total = Stats::default();
    let mut code = 0;
    let rel_bin = std::env::var("LV_REL_BIN").ok();
    if w == 1 && !p.also_release && !p.also_bg {
        let mut run = Run::new(id, tier, seed, (0, 1), &profile_name());
        run.scale = tier.pick(p.scale.0, p.scale.1);
        (p.run)(&run);
        total = run.stats.replace(Stats::default());
        let _ = std::fs::remove_dir_all(&run.tmp);
        fsx::cleanup_other_fs();
    } else {
        let tmp = Run::new(id, tier, seed, (0, 1), &profile_name()).tmp;
        let mut bins = vec![exe.clone()];
        if p.also_release {
            match &rel_bin {
                Some(b) => bins.push(b.into()),
                None => {
                    eprintln!("[lv] {} needs the release-profile binary (LV_REL_BIN)", id);
                    return 2;
                }
            }
        }
        if p.also_bg {
            match std::env::var("LV_BG_BIN") {
                Ok(b) => bins.push(b.into()),
                Err(_) => {
                    eprintln!("[lv] {} needs the background-rotation binary (LV_BG_BIN)", id);
                    return 2;
                }
            }
        }
        let mut kids = vec![];
        for (bi, bin) in bins.iter().enumerate() {
            for k in 0..w {
                let out = tmp.join(format!("worker-{}-{}.json", bi, k));
                let child = Command::new(bin)
                    .arg("worker")
                    .arg(id)
                    .arg(tier.name())
                    .arg(k.to_string())
                    .arg(w.to_string())
                    .arg(&out)
                    .env("VERIF_TMP", tmp.join(format!("w{}-{}", bi, k)))
                    .spawn()
                    .expect("spawn worker");
                kids.push((child, out));
            }
        }
        for (mut c, out) in kids {
            let status = c.wait().expect("wait worker");
            match status.code() {
                Some(0) | Some(1) => {}
                other => {
                    eprintln!("[lv] worker ended abnormally: {:?}", other);
                    code = 2;
                }
            }
            match std::fs::read_to_string(&out).ok().and_then(|t| serde_json::from_str::<Stats>(&t).ok()) {
                Some(st) => total.merge(st),
                None => {
                    eprintln!("[lv] worker produced no stats: {}", out.display());
                    code = 2;
                }
            }
        }
        let _ = std::fs::remove_dir_all(&tmp);
    }
    if tier == Tier::Thorough && total.violations == 0 {
        if let Some((target, runs)) = p.fuzz {
            fuzz_campaign(id, target, runs, seed, &mut total, &mut code);
        }
    }
    let wall = start.elapsed().as_secs_f64();
    let meta = (p.meta)();
    write_evidence(id, tier, seed, wall, &total, &meta);
    println!(
        "[lv] {} {} seed={} evaluations={} (+{} inner) distinct_nontrivial={} excluded_known={} violations={} wall={:.1}s",
        id,
        tier.name(),
        seed,
        total.evaluations,
        total.sub_evaluations,
        total.nontrivial_hashes.len(),
        total.excluded_known.values().sum::<u64>(),
        total.violations,
        wall
    );
    if total.violations > 0 {
        1
    } else {
        code
    }
}

/// Thorough tier only: a libFuzzer campaign (fixed seed and run count, fresh corpus seeded from
/// fuzz/seeds/<target>) whose target carries the property's oracle. A crash artifact becomes a replay file.
fn fuzz_campaign(id: &str, target: &str, runs: u64, seed: u64, total: &mut Stats, code: &mut i32) {
    let root = verif_dir();
    let base = if std::path::Path::new("/dev/shm").is_dir() { "/dev/shm" } else { "/tmp" };
    let tmp = std::path::PathBuf::from(format!("{}/lv-fuzz-{}", base, std::process::id()));
    let corpus = tmp.join("corpus");
    let arts = tmp.join("artifacts");
    let _ = std::fs::create_dir_all(&corpus);
    let _ = std::fs::create_dir_all(&arts);
    if let Ok(rd) = std::fs::read_dir(format!("{}/fuzz/seeds/{}", root, target)) {
        for e in rd.flatten() {
            let _ = std::fs::copy(e.path(), corpus.join(e.file_name()));
        }
    }
    let fseed = ((seed ^ fnv64(id.as_bytes())) % 0x7fff_fffe) + 1; // 0 would mean "random" to libFuzzer
    let out = Command::new("cargo")
        .current_dir(format!("{}/harness", root))
        .args(["+nightly", "fuzz", "run", "--fuzz-dir"])
        .arg(format!("{}/fuzz", root))
        .arg(target)
        .arg(&corpus)
        .arg("--")
        .arg(format!("-seed={}", fseed))
        .arg(format!("-runs={}", runs))
        .args(["-len_control=0", "-max_len=512", "-print_final_stats=1", "-timeout=60"])
        .arg(format!("-artifact_prefix={}/", arts.display()))
        .stdout(Stdio::piped())
        .stderr(Stdio::piped())
        .output();
    let Ok(out) = out else {
        eprintln!("[lv] could not start cargo fuzz for {}", target);
        *code = 2;
        return;
    };
    let text = format!("{}{}", String::from_utf8_lossy(&out.stdout), String::from_utf8_lossy(&out.stderr));
    let stat = |key: &str| -> Option<u64> { text.lines().rev().find(|l| l.contains(key)).and_then(|l| l.rsplit(|c: char| !c.is_ascii_digit()).find(|t| !t.is_empty()).and_then(|t| t.parse().ok())) };
    let executed = stat("stat::number_of_executed_units").unwrap_or(0);
    let cov = text.lines().rev().find_map(|l| l.split("cov: ").nth(1).and_then(|r| r.split_whitespace().next()).and_then(|t| t.parse::<u64>().ok())).unwrap_or(0);
    let corp = text.lines().rev().find_map(|l| l.split("corp: ").nth(1).and_then(|r| r.split('/').next()).and_then(|t| t.parse::<u64>().ok())).unwrap_or(0);
    total.notes.push(format!("fuzz target {}: seed {} runs requested {} executed {} coverage {} edges corpus {} inputs", target, fseed, runs, executed, cov, corp));
    total.sub_evaluations += executed;
    *total.parts.entry(format!("fuzz:{}", target)).or_default() += executed;
    let artifacts: Vec<std::path::PathBuf> = std::fs::read_dir(&arts).map(|rd| rd.flatten().map(|e| e.path()).collect()).unwrap_or_default();
    if !artifacts.is_empty() {
        let why = text.lines().find(|l| l.contains("FUZZ-ORACLE-FAILURE")).unwrap_or("libFuzzer crash (see artifact)").to_string();
        for a in artifacts {
            // libFuzzer also leaves artifacts that are no failures of the oracle: units that were slow, ran into the
            // per-unit timeout or the memory limit (a loaded machine is enough). Those are trouble of the run, not
            // violations: slow units are noted, timeouts and out-of-memory end the check with exit 2.
            let fname = a.file_name().map(|n| n.to_string_lossy().to_string()).unwrap_or_default();
            if fname.starts_with("slow-unit-") {
                total.notes.push(format!("fuzz target {}: libFuzzer reported a slow unit ({}), not a failure", target, fname));
                continue;
            }
            if fname.starts_with("timeout-") || fname.starts_with("oom-") || fname.starts_with("leak-") {
                eprintln!("[lv] fuzz target {}: libFuzzer artifact {} (time or memory limit of the run, not an oracle failure): inconclusive", target, fname);
                *code = 2;
                continue;
            }
            // the saved input is the reproducible unit: it is executed once more, alone, in a fresh process; a failure
            // that does not come back from the saved input (state carried over between units, a stalled machine) is
            // reported as inconclusive, not as a violation
            let again = Command::new("cargo")
                .current_dir(format!("{}/harness", root))
                .args(["+nightly", "fuzz", "run", "--fuzz-dir"])
                .arg(format!("{}/fuzz", root))
                .arg(target)
                .arg(&a)
                .stdout(Stdio::null())
                .stderr(Stdio::null())
                .status();
            if matches!(again, Ok(s) if s.success()) {
                eprintln!("[lv] fuzz target {}: artifact {} does not fail when executed alone in a fresh process: inconclusive", target, fname);
                total.notes.push(format!("fuzz target {}: artifact {} did not reproduce from the saved input", target, fname));
                *code = 2;
                continue;
            }
            let bytes = std::fs::read(&a).unwrap_or_default();
            let dir = format!("{}/replays/{}", root, id);
            let _ = std::fs::create_dir_all(&dir);
            let path = format!("{}/fuzz-{}-{:016x}.bin", dir, target, fnv64(&bytes));
            let _ = std::fs::write(&path, &bytes);
            println!("VIOLATION property={} replay={}", id, path);
            println!("  {}", why);
            total.violations += 1;
            total.violation_lines.push(format!("VIOLATION property={} replay={} {}", id, path, why));
        }
    } else if !out.status.success() {
        eprintln!("[lv] cargo fuzz run {} ended with {:?} without an artifact: infrastructure trouble\n{}", target, out.status.code(), text.lines().rev().take(15).collect::<Vec<_>>().join("\n"));
        *code = 2;
    }
    let _ = std::fs::remove_dir_all(&tmp);
}
