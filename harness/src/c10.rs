//! C10 — width/fill/alignment count characters, truncate then pad, never split UTF-8.

use crate::c09;
use crate::engine::*;
use crate::ensure;
use crate::pat::*;
use log4rs::encode::pattern::PatternEncoder;
use proptest::prelude::*;
use serde::{Deserialize, Serialize};

/// One formatter with one spec; text length chosen relative to m and M; checked without the reference.
#[derive(Serialize, Deserialize, Debug, Clone)]
pub struct Single {
    pub which: u8, // 0 message, 1 target, 2 module, 3 file, 4 mdc, 5 group of message
    pub spec: Spec,
    pub pieces: Vec<String>,
    pub script: Vec<u8>,
}

pub fn single_strategy() -> impl Strategy<Value = Single> {
    (
        0u8..6,
        spec(),
        prop::collection::vec(text_char(), 0..=20),
        0u8..8,
        prop::collection::vec(any::<u16>(), 0..=4),
        write_script(),
    )
        .prop_map(|(which, spec, chars, len_choice, cuts, script)| {
            // length relative to the structure probed: M-1, M, M+1, m-1, m, m+1, as drawn
            let target_len = match (len_choice, spec.min, spec.max) {
                (0, _, Some(m)) => m.saturating_sub(1),
                (1, _, Some(m)) => m,
                (2, _, Some(m)) => m.saturating_add(1),
                (3, Some(m), _) => m.saturating_sub(1),
                (4, Some(m), _) => m,
                (5, Some(m), _) => m.saturating_add(1),
                _ => chars.len(),
            }
            .min(320);
            let mut cs: Vec<char> = vec![];
            let base = if chars.is_empty() { vec!['é'] } else { chars.clone() };
            while cs.len() < target_len {
                cs.push(base[cs.len() % base.len()]);
            }
            cs.truncate(target_len);
            let mut pos: Vec<usize> = cuts.iter().map(|c| (*c as usize * (cs.len() + 1)) >> 16).collect();
            pos.sort();
            let mut pieces = vec![];
            let mut prev = 0;
            for p in pos {
                pieces.push(cs[prev..p].iter().collect::<String>());
                prev = p;
            }
            pieces.push(cs[prev..].iter().collect::<String>());
            Single { which, spec, pieces, script }
        })
}

pub fn check_single(case: &Single, obs: &mut Obs) -> CaseResult {
    let text: String = case.pieces.concat();
    let kind = match case.which % 6 {
        0 => Kind::Message,
        1 => Kind::Target,
        2 => Kind::Module,
        3 => Kind::File,
        4 => Kind::Mdc { key: "k".into(), default: None },
        _ => Kind::Group(vec![Node::Fmt { kind: Kind::Message, long: false, spec: None }]),
    };
    let pat = vec![Node::Fmt { kind, long: false, spec: Some(case.spec.clone()) }];
    let mut rec = Rec { level: 2, msg: vec!["-".into()], target: "t".into(), module: None, file: None, line: None, mdc: vec![] };
    match case.which % 6 {
        0 | 5 => rec.msg = case.pieces.clone(),
        1 => rec.target = text.clone(),
        2 => rec.module = Some(text.clone()),
        3 => rec.file = Some(text.clone()),
        _ => rec.mdc = vec![("k".into(), text.clone())],
    }
    let s = print(&pat, false);
    let enc = match catch(|| PatternEncoder::new(&s)) {
        Ok(e) => e,
        Err(p) => return fail("C10:panic:construct", format!("PatternEncoder::new({:?}) panicked: {}", s, p)),
    };
    let (w, res) = match catch(|| encode_with(&enc, &rec, case.script.clone())) {
        Ok(x) => x,
        Err(p) => return fail("C10:panic:encode", format!("encode panicked for {:?}: {}", s, p)),
    };
    if let Err(e) = res {
        return fail("C10:encode-error", format!("encode returned Err for {:?}: {}", s, e));
    }
    let bytes = w.bytes();
    // (1) valid UTF-8 and (3) at most M characters: asserted on the raw bytes, independent of the reference
    let got = match String::from_utf8(bytes.clone()) {
        Ok(g) => g,
        Err(_) => return fail("C10:invalid-utf8", format!("pattern {:?} text {:?}: output bytes {:?} are not valid UTF-8", s, text, bytes)),
    };
    let n = got.chars().count();
    if let Some(m) = case.spec.max {
        ensure!(n <= m, "C10:exceeds-max", "pattern {:?} text {:?}: {} characters emitted, max width {}", s, text, n, m);
    }
    if let Some(m) = case.spec.min {
        ensure!(n >= m, "C10:below-min", "pattern {:?} text {:?}: {} characters emitted, min width {}", s, text, n, m);
    }
    // (2) equals the reference
    let expected = apply_spec(&text, &Some(case.spec.clone()));
    ensure!(got == expected, "C10:output-differs", "pattern {:?} text {:?}: got {:?}, law gives {:?}", s, text, got, expected);
    let tn = text.chars().count();
    let truncated = case.spec.max.map_or(false, |m| tn > m);
    let padded = case.spec.min.map_or(false, |m| tn.min(case.spec.max.unwrap_or(usize::MAX)) < m);
    obs.nontrivial = ((truncated || padded) && !text.is_ascii()) || w.cut_inside_char;
    obs.class_if(truncated, "truncated");
    obs.class_if(padded, "padded");
    obs.class_if(w.cut_inside_char, "write-cut-inside-char");
    obs.class_if(case.spec.fill.map_or(false, |c| c.len_utf8() > 1), "multibyte-fill");
    obs.class_if(case.spec.fill.map_or(false, |c| "{}()\\:<>.0123456789".contains(c)), "syntax-char-fill");
    obs.class_if(case.spec.align == Some(Align::Right), "right-align");
    obs.class_if(case.pieces.len() > 1, "multi-piece");
    if let Some(m) = case.spec.max {
        obs.class(format!("len-M={}", (tn as i128 - m as i128).clamp(-2, 2)));
        obs.class_if(m > u32::MAX as usize, "max-width-beyond-32-bits");
    }
    Ok(())
}

fn nested_specs(pat: &[Node], under: bool) -> bool {
    pat.iter().any(|n| match n {
        Node::Fmt { kind: Kind::Group(c) | Kind::Highlight(c) | Kind::Debug(c) | Kind::Release(c), spec, .. } => {
            (under && spec.is_some()) || nested_specs(c, under || spec.is_some())
        }
        Node::Fmt { spec: Some(_), .. } => under,
        _ => false,
    })
}

pub fn check_nested(case: &c09::Case, obs: &mut Obs) -> CaseResult {
    let r = c09::check_with(case, obs, "C10");
    let nested = nested_specs(&case.pat, false);
    let non_ascii = case.recs.iter().any(|r| !r.message().is_ascii() || !r.target.is_ascii());
    let cut = obs.classes.iter().any(|c| c == "write-cut-inside-char");
    obs.nontrivial = nested || cut || (non_ascii && count_nodes(&case.pat, &|n| matches!(n, Node::Fmt { spec: Some(_), .. })) > 0);
    obs.class_if(nested, "nested-specs");
    r
}

pub fn run(run: &Run) {
    run.run_replays::<Single>("single", &check_single);
    run.run_replays::<c09::Case>("nested", &check_nested);
    run.search("single", run.tier.pick(8_000, 700_000), single_strategy(), &check_single);
    run.search("nested", run.tier.pick(4_000, 300_000), c09::strategy(0.9), &check_nested);
}

pub fn replay(part: &str, case: serde_json::Value) -> Option<CaseResult> {
    match part {
        "single" => Some(check_single(&serde_json::from_value(case).ok()?, &mut Obs::default())),
        "nested" => Some(check_nested(&serde_json::from_value(case).ok()?, &mut Obs::default())),
        _ => None,
    }
}

pub fn meta() -> EvidenceMeta {
    EvidenceMeta {
        level: "exploration",
        rule: "part single: one formatter (message/target/module/file/mdc/group) with a generated spec (m,M in 0..12 and up to 300, m<=M, fills incl. multi-byte and syntax characters, both alignments) and a text whose character length is chosen relative to m and M (M-1,M,M+1,m-1,m,m+1) from an alphabet of 1-4-byte characters and combining marks, delivered in 1-5 pieces and written through scripted short writes that may cut inside a character; asserted on the raw bytes: valid UTF-8, <=M and >=m characters, and equality with pad(first_M_chars(s)). part nested: full pattern ASTs with spec probability 0.9 (nesting <=4) against the compositional reference. non-trivial = truncation or padding happened on non-ASCII text, or a write cut inside a character, or specs are nested; distinct = FNV hash of the case".into(),
        assumptions: vec!["m <= M whenever both are given (the statement's domain)".into(), "upstream splits only at character boundaries (all fmt can produce)".into()],
        mutants_caught: vec![],
    }
}
