//! C05 — rolling appender never loses, duplicates, reorders or splits records.

use crate::engine::*;
use crate::ensure;
use crate::fsx::*;
use crate::roll::*;
use log4rs::append::rolling_file::policy::compound::trigger::time::verif as clock;
use log4rs::append::rolling_file::RollingFileAppender;
use proptest::prelude::*;
use serde::{Deserialize, Serialize};
use std::path::Path;
use std::sync::Arc;

#[derive(Serialize, Deserialize, Debug, Clone)]
pub enum Op {
    Append(usize),
    Restart,
    Advance(u32),
    Burst(Vec<Vec<usize>>),
    /// an append whose message argument panics while being formatted: it unwinds out of the appender (the caller
    /// catches it) and must leave the appender usable
    Unwind,
}

struct PanickingArg;

impl std::fmt::Display for PanickingArg {
    fn fmt(&self, _: &mut std::fmt::Formatter) -> std::fmt::Result {
        panic!("Display impl of a log argument panics")
    }
}

#[derive(Serialize, Deserialize, Debug, Clone)]
pub struct Case {
    pub trigger: TrigSpec,
    pub roller: RollSpec,
    pub chunks: Option<Vec<usize>>,
    pub ops: Vec<Op>,
    /// open mode (truncate mode only in histories without restarts: the statement's restart clause is about append mode)
    #[serde(default = "yes")]
    pub append_mode: bool,
    /// user-defined roller around the real one failing on scripted calls (no bursts in such histories)
    #[serde(default)]
    pub flaky: Vec<bool>,
    /// the appender is built by the `rolling_file` deserializer from a configuration section (library triggers and
    /// rollers only; `append` is left out when it is the documented default `true`)
    #[serde(default)]
    pub via_config: bool,
    /// false: the encoder's output does not end in a line break (the statement speaks of records, not of lines)
    #[serde(default = "yes")]
    pub terminated: bool,
}

/// What a configuration file's `kind: rolling_file` section with these settings produces.
pub fn appender_from_config(dir: &Path, active: &Path, append_mode: bool, trigger: &TrigSpec, roller: &RollSpec) -> anyhow::Result<Box<dyn log4rs::append::Append>> {
    use serde_value::Value as V;
    let s = |x: &str| V::String(x.to_string());
    let map = |kv: Vec<(&str, V)>| V::Map(kv.into_iter().map(|(k, v)| (s(k), v)).collect());
    let trig = match trigger {
        TrigSpec::Size(n) => map(vec![("kind", s("size")), ("limit", V::U64(*n))]),
        TrigSpec::OnStartup(n) => map(vec![("kind", s("onstartup")), ("min_size", V::U64(*n))]),
        TrigSpec::Time(i, m) => map(vec![("kind", s("time")), ("interval", s(i)), ("modulate", V::Bool(*m)), ("max_random_delay", V::U64(0))]),
        TrigSpec::Scripted(..) => anyhow::bail!("user-defined trigger"),
    };
    let roll = match roller {
        RollSpec::Delete => map(vec![("kind", s("delete"))]),
        RollSpec::Fixed { base, count, pattern } => {
            let mut kv = vec![("kind", s("fixed_window")), ("pattern", s(&format!("{}/{}", dir.display(), pattern))), ("count", V::U32(*count))];
            if *base != 0 {
                kv.push(("base", V::U32(*base)));
            }
            map(kv)
        }
    };
    let mut policy = vec![("trigger", trig), ("roller", roll)];
    if !append_mode {
        policy.push(("kind", s("compound")));
    }
    let mut kv = vec![("path", s(&active.display().to_string())), ("encoder", map(vec![("pattern", s("{m}"))])), ("policy", map(policy))];
    if !append_mode {
        kv.push(("append", V::Bool(false)));
    }
    log4rs::config::Deserializers::default().deserialize::<dyn log4rs::append::Append>("rolling_file", map(kv))
}

fn yes() -> bool {
    true
}

// (the last two: long directory names outside ASCII - 2- and 3-byte characters - so that any byte offset computed
// from the end of the path is likely to fall inside a character)
pub const FIXED_PATTERNS: [&str; 9] = [
    // (a blank at either end of a pattern is part of the name)
    " b.{}.log ",
    "a.{}.log",
    "arch/{}/a.log",
    "a.{}.log.gz",
    "a.{}.zst",
    "arch/run-{}/a.{}.log",
    "z{}/a.{}.gz",
    "архив-журналов-приложения-за-прошлые-периоды/журнал_{}.log",
    "日志归档目录历史记录保存位置/甲乙丙丁戊己庚辛壬癸-{}.log",
];
pub const T0: i64 = 1_700_000_000;

pub fn roller_strategy(min_count: u32) -> impl Strategy<Value = RollSpec> {
    prop_oneof![
        1 => Just(RollSpec::Delete),
        8 => (prop::sample::select(vec![0u8, 1, 2, 3]), min_count..=5u32, any::<u16>()).prop_map(|(b, count, p)| {
            let base = match b { 0 => 0, 1 => 1, 2 => 7, _ => u32::MAX - count };
            RollSpec::Fixed { base, count, pattern: pick(&FIXED_PATTERNS[..], p).to_string() }
        }),
    ]
}

pub fn trigger_strategy() -> impl Strategy<Value = TrigSpec> {
    prop_oneof![
        5 => prop_oneof![3 => 0u64..300, 2 => 300u64..4000].prop_map(TrigSpec::Size),
        1 => prop_oneof![Just(0u64), Just(1), 1u64..200].prop_map(TrigSpec::OnStartup),
        2 => (1u32..=3, prop::bool::ANY, prop::bool::ANY).prop_map(|(n, minutes, modulate)| TrigSpec::Time(format!("{} {}", n, if minutes { "minutes" } else { "seconds" }), modulate)),
        3 => (prop::collection::vec(prop::bool::weighted(0.3), 0..=40), prop::bool::ANY).prop_map(|(s, pre)| TrigSpec::Scripted(s, pre)),
    ]
}

pub fn len_strategy() -> impl Strategy<Value = usize> {
    prop_oneof![
        12 => Just(0usize),
        48 => 1usize..120,
        12 => 990usize..1040,
        6 => 2040usize..2080,
        6 => 3060usize..3090,
        // around typical buffer sizes (8 KiB, 16 KiB, 64 KiB)
        1 => prop::sample::select(vec![8192usize - HEADER_LEN, 8193, 16385, 65536 - HEADER_LEN, 65537]),
    ]
}

pub fn strategy() -> impl Strategy<Value = Case> {
    let op = prop_oneof![
        12 => len_strategy().prop_map(Op::Append),
        2 => Just(Op::Restart),
        3 => prop_oneof![Just(0u32), Just(1), 1u32..200].prop_map(Op::Advance),
        1 => prop::collection::vec(prop::collection::vec(0usize..60, 1..=12), 2..=5).prop_map(Op::Burst),
        1 => Just(Op::Unwind),
    ];
    (
        trigger_strategy(),
        roller_strategy(0),
        prop::option::weighted(0.3, prop::collection::vec(prop_oneof![1usize..8, 500usize..1100], 1..=4)),
        prop::collection::vec(op, 1..=40),
        prop::bool::weighted(0.75),
        prop_oneof![4 => Just(vec![]), 1 => prop::collection::vec(prop::bool::weighted(0.4), 1..=6)],
        prop::bool::weighted(0.3),
        prop::bool::weighted(0.8),
    )
        .prop_map(|(trigger, roller, chunks, mut ops, append_mode, flaky, via_config, terminated)| {
            if !flaky.is_empty() {
                for o in ops.iter_mut() {
                    if let Op::Burst(plan) = o {
                        *o = Op::Append(plan[0][0]);
                    }
                }
            }
            let append_mode = append_mode || ops.iter().any(|o| matches!(o, Op::Restart));
            Case { trigger, roller, chunks, ops, append_mode, flaky, via_config, terminated }
        })
}

pub fn archive_path(dir: &Path, roller: &RollSpec, off: u32) -> Option<std::path::PathBuf> {
    match roller {
        RollSpec::Fixed { base, pattern, .. } => Some(dir.join(pattern.replace("{}", &(*base as u64 + off as u64).to_string()))),
        RollSpec::Delete => None,
    }
}

pub fn window_count(roller: &RollSpec) -> u32 {
    match roller {
        RollSpec::Fixed { count, .. } => *count,
        RollSpec::Delete => 0,
    }
}

/// Oldest-to-newest chunks on disk: archives by descending index, then the active file.
pub fn read_chunks(dir: &Path, roller: &RollSpec, active: &Path) -> Result<(Vec<Vec<u8>>, usize), Failure> {
    let mut chunks = vec![];
    let mut archives = 0;
    for off in (0..window_count(roller)).rev() {
        let p = archive_path(dir, roller, off).unwrap();
        if crate::fsx::is_full_device_link(&p) {
            continue;
        }
        if let Ok(raw) = std::fs::read(&p) {
            let name = p.to_string_lossy().to_string();
            let dec = decoded(&name, &raw).map_err(|e| Failure { sig: "C05:archive-undecodable".into(), msg: format!("{} cannot be decompressed: {}", name, e) })?;
            chunks.push(dec);
            archives += 1;
        }
    }
    if let Ok(b) = std::fs::read(active) {
        chunks.push(b);
    }
    Ok((chunks, archives))
}

pub fn parse_chunks(chunks: &[Vec<u8>]) -> Result<Vec<RecId>, Failure> {
    parse_chunks_with(chunks, true)
}

pub fn parse_chunks_with(chunks: &[Vec<u8>], terminated: bool) -> Result<Vec<RecId>, Failure> {
    let mut all = vec![];
    for (i, c) in chunks.iter().enumerate() {
        match parse_stream_with(c, terminated) {
            Ok(r) => all.extend(r),
            Err(off) => return fail("C05:split-record", format!("file #{} (oldest first) of {} is not a concatenation of whole records at byte {} of {}", i, chunks.len(), off, c.len())),
        }
    }
    Ok(all)
}

#[cfg(feature = "bg")]
fn settle(dir: &Path) {
    if !crate::c07::wait_bg_idle(&dir.join("active.log")) {
        BG_DIED.with(|b| b.set(true));
    }
}
#[cfg(not(feature = "bg"))]
fn settle(_dir: &Path) {}

thread_local! {
    /// the background rotation thread panicked inside the library (bg build)
    static BG_DIED: std::cell::Cell<bool> = std::cell::Cell::new(false);
}

pub fn check(tmp: &Path, case: &Case, obs: &mut Obs) -> CaseResult {
    let dir = scratch(tmp, "c05");
    clock::set_now(Some((T0, 0)));
    BG_DIED.with(|b| b.set(false));
    let r = check_in(&dir, case, obs);
    let r = if BG_DIED.with(|b| b.get()) && r.is_ok() { fail("C05:panic:background-rotation", "the background rotation thread panicked inside the library; the rolled file was never archived") } else if BG_DIED.with(|b| b.get()) { r.map_err(|f| Failure { sig: "C05:panic:background-rotation".into(), msg: format!("the background rotation thread panicked inside the library ({})", f.msg) }) } else { r };
    clock::set_now(None);
    let _ = std::fs::remove_dir_all(&dir);
    r
}

fn check_in(dir: &Path, case: &Case, obs: &mut Obs) -> CaseResult {
    let active = dir.join("active.log");
    let failures = Arc::new(std::sync::atomic::AtomicUsize::new(0));
    // records whose append returned Err (scripted roller failure): they may or may not be on disk
    let mut unacked: Vec<RecId> = vec![];
    let via_config = case.via_config && case.chunks.is_none() && case.flaky.is_empty() && !matches!(case.trigger, TrigSpec::Scripted(..));
    let build = || -> Result<Arc<dyn log4rs::append::Append>, Failure> {
        if via_config {
            return Ok(Arc::from(appender_from_config(dir, &active, case.append_mode, &case.trigger, &case.roller).map_err(|e| Failure { sig: "C05:build".into(), msg: e.to_string() })?));
        }
        let policy = make_flaky_policy(dir, &case.trigger, &case.roller, &case.flaky, &failures).map_err(|e| Failure { sig: "C05:build".into(), msg: e.to_string() })?;
        // restarts on the same path are in the statement's scope in append mode only
        Ok(Arc::new(build_appender(&active, case.append_mode, &case.chunks, policy).map_err(|e| Failure { sig: "C05:build".into(), msg: e.to_string() })?))
    };
    obs.class_if(via_config, "appender-built-by-the-rolling_file-deserializer");
    obs.class_if(!case.terminated, "records-without-trailing-newline");
    let mut app = build()?;
    let mut now = T0;
    // reference stream: acknowledged records in write order (re-based on the observed order after a burst)
    let mut acked: Vec<RecId> = vec![];
    let mut dropped_prev = 0usize;
    let mut seq = 0u32;
    let mut rotations = 0usize;
    let mut restart_between = false;
    let mut restarted_since_rotation = false;
    let mut big_record = false;
    let mut burst_seen = false;
    let mut unwound = false;
    let mut prev_active: Vec<u8> = vec![];
    let count = window_count(&case.roller);
    let limit = if let TrigSpec::Size(n) = &case.trigger { Some(*n) } else { None };
    for (oi, op) in case.ops.iter().enumerate() {
        let (_, archives_before) = read_chunks(dir, &case.roller, &active)?;
        let mut burst_records: Option<Vec<Vec<RecId>>> = None;
        let _ = &mut unwound;
        match op {
            Op::Append(len) => {
                let id = RecId { tid: 0, seq, len: *len };
                let text = if case.terminated { record_text(0, seq, *len) } else { record_text_unterminated(0, seq, *len) };
                seq += 1;
                let failures_before = failures.load(std::sync::atomic::Ordering::SeqCst);
                match catch(|| append_msg(&*app, &text)) {
                    Err(p) => return fail("C05:panic", format!("op {}: append panicked: {}", oi, p)),
                    Ok(Err(e)) => {
                        ensure!(failures.load(std::sync::atomic::Ordering::SeqCst) > failures_before, "C05:append-error", "op {}: append returned an error although nothing failed: {}", oi, e);
                        // in position if present: it takes part in the reference order, unacknowledged
                        unacked.push(id.clone());
                        acked.push(id);
                    }
                    Ok(Ok(())) => acked.push(id),
                }
                if record_size(*len) > 1024 || limit.map_or(false, |l| record_size(*len) as u64 > l) {
                    big_record = true;
                }
            }
            Op::Unwind => {
                use log4rs::append::Append;
                let r = catch(|| app.append(&log::Record::builder().args(format_args!("{}", PanickingArg)).level(log::Level::Info).target("t").build()));
                match r {
                    Err(_) => unwound = true,
                    // (a failing rotation ahead of the encoder ends the call first)
                    Ok(Err(_)) => {}
                    Ok(Ok(())) => return fail("C05:harness", "the panicking argument did not panic"),
                }
            }
            Op::Restart => {
                settle(dir);
                if BG_DIED.with(|b| b.get()) {
                    std::mem::forget(app);
                    return fail("C05:panic:background-rotation", "the background rotation thread panicked inside the library; the rolled file was never archived");
                }
                drop(app);
                app = build()?;
                restarted_since_rotation = true;
            }
            Op::Advance(dt) => {
                now += *dt as i64;
                clock::set_now(Some((now, 0)));
            }
            Op::Burst(plan) => {
                burst_seen = true;
                let mut handles = vec![];
                let mut ids = vec![];
                for (ti, lens) in plan.iter().enumerate() {
                    let tid = (oi as u16 + 1) * 16 + ti as u16;
                    ids.push(lens.iter().enumerate().map(|(s, l)| RecId { tid, seq: s as u32, len: *l }).collect::<Vec<_>>());
                    let (app, lens, terminated) = (app.clone(), lens.clone(), case.terminated);
                    handles.push(std::thread::spawn(move || -> Result<(), String> {
                        for (s, l) in lens.iter().enumerate() {
                            append_msg(&*app, &if terminated { record_text(tid, s as u32, *l) } else { record_text_unterminated(tid, s as u32, *l) }).map_err(|e| e.to_string())?;
                        }
                        Ok(())
                    }));
                }
                for h in handles {
                    match h.join() {
                        Ok(Ok(())) => {}
                        Ok(Err(e)) => return fail("C05:append-error", format!("op {}: append failed inside a burst: {}", oi, e)),
                        Err(_) => return fail("C05:panic", format!("op {}: a writer thread panicked inside a burst", oi)),
                    }
                }
                burst_records = Some(ids);
            }
        }
        settle(dir);
        if BG_DIED.with(|b| b.get()) {
            // (the next rotation would wait for the dead thread for ever)
            std::mem::forget(app);
            return fail("C05:panic:background-rotation", "the background rotation thread panicked inside the library; the rolled file was never archived");
        }
        obs.sub_evals += 1;
        let (chunks, archives_now) = read_chunks(dir, &case.roller, &active)?;
        let stream = parse_chunks_with(&chunks, case.terminated)?;
        ensure!(archives_now as u32 <= count, "C05:too-many-archives", "op {}: {} archives in a window of {}", oi, archives_now, count);
        match &burst_records {
            None => {
                // single-threaded: the retained stream is a suffix of the acknowledged stream
                // (records of failed appends may be absent: they are removed from the reference when missing)
                let reference: Vec<RecId> = acked.iter().filter(|r| !unacked.contains(r) || stream.contains(r)).cloned().collect();
                let acked = &reference;
                ensure!(stream.len() <= acked.len(), "C05:duplicated", "op {}: {} records on disk, only {} acknowledged", oi, stream.len(), acked.len());
                let k = acked.len() - stream.len();
                ensure!(
                    acked[k..] == stream[..],
                    "C05:not-a-suffix",
                    "op {} ({:?}): reading archives oldest to newest then the active file does not yield a suffix of the acknowledged stream: on disk {:?} ... acknowledged tail {:?}", oi, op, stream.iter().map(|r| r.seq).collect::<Vec<_>>(), acked[k..].iter().map(|r| r.seq).collect::<Vec<_>>()
                );
                if k > dropped_prev {
                    // records may only disappear together with the oldest file of a full window (or by the delete roller)
                    ensure!(
                        count == 0 || archives_before as u32 == count,
                        "C05:lost-from-unfilled-window",
                        "op {} ({:?}): {} more record(s) vanished although the retention window was not full ({} of {} archives before the operation)", oi, op, k - dropped_prev, archives_before, count
                    );
                }
                dropped_prev = k;
            }
            Some(ids) => {
                // concurrent writers: no duplicates, nothing invented, per-thread suffixes in order, earlier records first
                let mut sorted = stream.clone();
                sorted.sort();
                ensure!(sorted.windows(2).all(|w| w[0] != w[1]), "C05:duplicated", "op {}: a record is stored twice after a burst", oi);
                let old_kept: Vec<RecId> = stream.iter().filter(|r| acked.contains(r)).cloned().collect();
                let k = acked.len() - old_kept.len();
                ensure!(acked[k..] == old_kept[..], "C05:not-a-suffix", "op {}: records acknowledged before the burst are no longer a gap-free suffix", oi);
                ensure!(stream[..old_kept.len()] == old_kept[..], "C05:reordered", "op {}: burst records precede records acknowledged before the burst", oi);
                let mut lost_any = k > dropped_prev;
                for t in ids {
                    let got: Vec<RecId> = stream.iter().filter(|r| r.tid == t[0].tid).cloned().collect();
                    ensure!(got.len() <= t.len() && t[t.len() - got.len()..] == got[..], "C05:thread-order", "op {}: thread {} wrote seq 0..{} but the files hold {:?}", oi, t[0].tid, t.len(), got.iter().map(|r| r.seq).collect::<Vec<_>>());
                    if got.len() < t.len() {
                        lost_any = true;
                    }
                }
                for r in &stream {
                    ensure!(acked.contains(r) || ids.iter().any(|t| t.contains(r)), "C05:invented", "op {}: record {:?} was never written", oi, r);
                }
                if lost_any {
                    ensure!(count == 0 || archives_now as u32 == count, "C05:lost-from-unfilled-window", "op {}: records vanished during a burst although the window is not full afterwards ({} of {})", oi, archives_now, count);
                }
                acked = stream.clone();
                dropped_prev = 0;
            }
        }
        // rotation bookkeeping (for classification)
        let cur_active = std::fs::read(&active).unwrap_or_default();
        if !cur_active.starts_with(&prev_active) || (cur_active.len() < prev_active.len()) {
            rotations += 1;
            if restarted_since_rotation && rotations >= 2 {
                restart_between = true;
            }
            restarted_since_rotation = false;
        }
        prev_active = cur_active;
    }
    settle(dir);
    obs.nontrivial = rotations >= 2 && (restart_between || big_record || burst_seen || failures.load(std::sync::atomic::Ordering::SeqCst) > 0);
    obs.class(format!("rotations={}", rotations.min(6)));
    obs.class(match &case.trigger {
        TrigSpec::Size(_) => "trigger=size".to_string(),
        TrigSpec::OnStartup(_) => "trigger=onstartup".to_string(),
        TrigSpec::Time(..) => "trigger=time".to_string(),
        TrigSpec::Scripted(_, pre) => format!("trigger=scripted-{}", if *pre { "pre" } else { "post" }),
    });
    obs.class(match &case.roller {
        RollSpec::Delete => "roller=delete".to_string(),
        RollSpec::Fixed { count, pattern, .. } => format!("roller=fixed(count={},{})", count, if pattern.ends_with(".gz") { "gz" } else if pattern.ends_with(".zst") { "zst" } else { "plain" }),
    });
    obs.class_if(restart_between, "restart-between-rotations");
    obs.class_if(big_record, "record>limit-or->1KiB");
    obs.class_if(burst_seen, "burst");
    obs.class_if(unwound, "append-unwound-by-panicking-argument");
    obs.class_if(case.chunks.is_some(), "multi-chunk-encoder");
    obs.class_if(!case.append_mode, "truncate-mode");
    obs.class_if(failures.load(std::sync::atomic::Ordering::SeqCst) > 0, "scripted-roller-failure");
    Ok(())
}

// ---- handover: the old and the new instance on the same path are alive at the same time ---------------------------

/// A reloaded configuration builds a new appender for the same path while loggers in flight still hold the old
/// one: both write for a while. `before` through the old one alone, then `mixed` (true = old instance).
#[derive(Serialize, Deserialize, Debug, Clone)]
pub struct Handover {
    pub pre_existing: usize,
    pub before: Vec<usize>,
    pub mixed: Vec<(bool, usize)>,
    pub chunks: Option<Vec<usize>>,
}

pub fn handover_strategy() -> impl Strategy<Value = Handover> {
    (
        prop_oneof![Just(0usize), 1usize..200, 1000usize..1100],
        prop::collection::vec(len_strategy(), 0..=5),
        prop::collection::vec((prop::bool::ANY, len_strategy()), 2..=12),
        prop::option::weighted(0.3, prop::collection::vec(prop_oneof![1usize..8, 500usize..1100], 1..=3)),
    )
        .prop_map(|(pre_existing, before, mixed, chunks)| Handover { pre_existing, before, mixed, chunks })
}

pub fn check_handover(tmp: &Path, c: &Handover, obs: &mut Obs) -> CaseResult {
    let dir = scratch(tmp, "c05h");
    let r = check_handover_in(&dir, c, obs);
    let _ = std::fs::remove_dir_all(&dir);
    r
}

fn check_handover_in(dir: &Path, c: &Handover, obs: &mut Obs) -> CaseResult {
    let path = dir.join("active.log");
    let mut expected: Vec<u8> = vec![];
    let mut s = 0;
    while expected.len() < c.pre_existing {
        expected.extend_from_slice(record_text(0xEEEE, s, 10).as_bytes());
        s += 1;
    }
    if !expected.is_empty() {
        std::fs::write(&path, &expected).unwrap();
    }
    let roller = RollSpec::Fixed { base: 0, count: 2, pattern: "arch.{}.log".into() };
    let build = || build_appender(&path, true, &c.chunks, make_policy(dir, &TrigSpec::Size(1 << 40), &roller).unwrap()).map_err(|e| Failure { sig: "C05:build".into(), msg: e.to_string() });
    let old = build()?;
    let mut seq = 0u32;
    let mut step = |app: &log4rs::append::rolling_file::RollingFileAppender, who: &str, len: usize, expected: &mut Vec<u8>, obs: &mut Obs| -> CaseResult {
        let text = record_text(if who == "old" { 1 } else { 2 }, seq, len);
        seq += 1;
        match catch(|| append_msg(app, &text)) {
            Err(p) => return fail("C05:panic", format!("append through the {} instance panicked: {}", who, p)),
            Ok(Err(e)) => return fail("C05:append-error", format!("append through the {} instance failed: {}", who, e)),
            Ok(Ok(())) => {}
        }
        expected.extend_from_slice(text.as_bytes());
        obs.sub_evals += 1;
        let got = std::fs::read(&path).unwrap_or_default();
        ensure!(
            got == *expected,
            if parse_stream(&got).is_err() { "C05:split-record" } else { "C05:not-a-suffix" },
            "old and new appender instance alive on one path: after an acknowledged append through the {} instance the file holds {} bytes, expected {} (every acknowledged record, whole, in order)", who, got.len(), expected.len()
        );
        Ok(())
    };
    for len in &c.before {
        step(&old, "old", *len, &mut expected, obs)?;
    }
    let new = build()?;
    let mut both = (false, false);
    for (through_old, len) in &c.mixed {
        if *through_old {
            both.0 = true;
            step(&old, "old", *len, &mut expected, obs)?;
        } else {
            both.1 = true;
            step(&new, "new", *len, &mut expected, obs)?;
        }
    }
    obs.nontrivial = both.0 && both.1;
    obs.class_if(both.0 && both.1, "old-and-new-instance-both-write");
    obs.class_if(c.pre_existing > 0, "pre-existing-content");
    Ok(())
}

pub fn run(run: &Run) {
    let tmp = run.tmp.clone();
    let f = move |c: &Case, o: &mut Obs| check(&tmp, c, o);
    run.run_replays::<Case>("history", &f);
    run.search("history", run.tier.pick(800, 30_000), strategy(), &f);
    let tmp2 = run.tmp.clone();
    let g = move |c: &Handover, o: &mut Obs| check_handover(&tmp2, c, o);
    run.run_replays::<Handover>("handover", &g);
    run.search("handover", run.tier.pick(200, 10_000), handover_strategy(), &g);
    run.note(format!("build: {}", if cfg!(feature = "bg") { "background_rotation" } else { "foreground rotation" }));
}

pub fn replay(part: &str, case: serde_json::Value) -> Option<CaseResult> {
    match part {
        "history" => {
            let tmp = std::env::temp_dir().join(format!("lv-replay-{}", std::process::id()));
            std::fs::create_dir_all(&tmp).ok()?;
            let r = check(&tmp, &serde_json::from_value(case).ok()?, &mut Obs::default());
            let _ = std::fs::remove_dir_all(&tmp);
            Some(r)
        }
        "handover" => {
            let tmp = std::env::temp_dir().join(format!("lv-replay-{}", std::process::id()));
            std::fs::create_dir_all(&tmp).ok()?;
            let r = check_handover(&tmp, &serde_json::from_value(case).ok()?, &mut Obs::default());
            let _ = std::fs::remove_dir_all(&tmp);
            Some(r)
        }
        _ => None,
    }
}

pub fn meta() -> EvidenceMeta {
    EvidenceMeta {
        level: "exploration",
        rule: "cases = trigger (size with limit 0-4000, on-start-up, time driven through the guarded clock, user-defined scripted trigger with generated answers and pre/post-processing) x roller (delete; fixed window with base in {0,1,7,u32::MAX-count}, count 0-5, plain/.gz/.zst, index in file name or directory) x pattern or multi-chunk encoder x history of 1-40 operations: appends of self-delimiting records (payload 0-3 KiB incl. newlines and multi-byte text), restarts on the same path (append mode), clock advances, concurrent bursts of 2-5 threads; oracle after every operation: every retained file parses into whole uncorrupted records; archives oldest-to-newest then the active file yield a gap-free suffix of the acknowledged stream (bursts: per-thread suffixes in order, no duplicates, nothing invented, earlier records first); records disappear only when the retention window was full (or delete/count 0); append returns Err only for the scripted failures of a user-defined roller wrapped around the real one (file left in place; earlier acknowledged records must survive, also in truncate mode). Part handover: an old and a new appender instance on the same path (what a reloaded configuration produces while loggers in flight still hold the old one) write alternately; after every acknowledged append the file is exactly all acknowledged records, whole and in order. Further inputs (rounds 10-12): the appender may be built by the rolling_file deserializer (append left out when it is the default); records may lack a trailing line break; in the background-rotation build a panic of the library's rotation thread is a violation. non-trivial = >= 2 rotations and (a restart between them, or a record larger than the limit or 1 KiB, or a burst)".into(),
        assumptions: vec!["OS scheduler not controlled (bursts are real threads)".into(), "restarts in append mode only (statement's scope)".into()],
        mutants_caught: vec![],
    }
}
