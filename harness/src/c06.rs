//! C06 — size trigger rolls exactly when the limit is exceeded; size accounting is exact.

use crate::engine::*;
use crate::ensure;
use crate::fsx::*;
use crate::roll::*;
use log4rs::append::Append;
use proptest::prelude::*;
use serde::{Deserialize, Serialize};
use std::path::Path;
use std::sync::{Arc, Mutex};

#[derive(Serialize, Deserialize, Debug, Clone)]
pub enum Op {
    /// append a message of this many bytes relative to the room left before the limit:
    /// Rel(d) -> room + d bytes (clamped at 0); Abs(n) -> n bytes
    Rel(i64),
    Abs(usize),
    Restart,
}

#[derive(Serialize, Deserialize, Debug, Clone)]
pub struct Case {
    pub limit: u64,
    pub append_mode: bool,
    /// pre-existing active file size relative to the limit (None = absent)
    pub pre: Option<i64>,
    pub count: u32,
    pub chunks: Option<Vec<usize>>,
    pub charset: u8,
    pub ops: Vec<Op>,
    /// user-defined roller around the real one: scripted failures per roller call (file left in place)
    #[serde(default)]
    pub flaky: Vec<bool>,
    /// encoder that fails after writing this many bytes of the record, per append call (None = healthy)
    #[serde(default)]
    pub enc_fail: Vec<Option<usize>>,
    /// the first characters of every message are handed over as `char` arguments (`info!("{}{}{}", 'é', '漢', rest)`):
    /// they reach the writer one character at a time
    #[serde(default)]
    pub char_args: bool,
    /// the configured path is a symbolic link to the (pre-existing) file, as in `current.log -> app-2026.log`
    #[serde(default)]
    pub symlink: bool,
    /// scripted roller failures happen AFTER the real roller has archived the file (a follow-up step fails)
    #[serde(default)]
    pub flaky_after_moving: bool,
}

fn text_of(len: usize, charset: u8) -> String {
    // mixes 1-, 2-, 3-, 4-byte characters so that chars != bytes
    let alphabet: &[char] = match charset % 3 {
        0 => &['a', 'b'],
        1 => &['é', 'a', '漢', '😀'],
        _ => &['😀', '漢', 'é'],
    };
    let mut s = String::new();
    let mut k = 0;
    while s.len() < len {
        let c = alphabet[k % alphabet.len()];
        k += 1;
        if s.len() + c.len_utf8() <= len {
            s.push(c);
        } else {
            s.push('x');
        }
    }
    s
}

pub fn strategy() -> impl Strategy<Value = Case> {
    let limit = prop_oneof![
        4 => prop::sample::select(vec![0u64, 1, 2, 63, 64, 1023, 1024, 1025]),
        3 => 0u64..200,
        2 => 200u64..5000,
    ];
    let op = prop_oneof![
        6 => (-3i64..=3).prop_map(Op::Rel),
        3 => prop_oneof![4 => Just(0usize), 4 => 1usize..40, 4 => 1000usize..1100, 4 => 2040usize..2060, 4 => 3073usize..3080, 1 => prop::sample::select(vec![8191usize, 8192, 8193, 16385, 65535, 65536, 65537])].prop_map(Op::Abs),
        1 => Just(Op::Restart),
    ];
    (
        limit,
        prop::bool::weighted(0.7),
        prop::option::weighted(0.6, prop_oneof![Just(-1i64), Just(0), Just(1), -50i64..50, Just(-100000)]),
        1u32..=3,
        prop::option::weighted(0.4, prop::collection::vec(prop_oneof![1usize..8, 500usize..1100], 1..=4)),
        0u8..3,
        prop::collection::vec(op, 1..=25),
        prop_oneof![3 => Just(vec![]), 1 => prop::collection::vec(prop::bool::weighted(0.4), 1..=6)],
        (prop_oneof![4 => Just(vec![]), 1 => prop::collection::vec(prop::option::weighted(0.3, prop_oneof![Just(0usize), 1usize..12, 1000usize..1100]), 1..=25)], prop::bool::weighted(0.2), prop::bool::weighted(0.3)),
    )
        .prop_map(|(limit, append_mode, pre, count, chunks, charset, ops, flaky, (enc_fail, symlink, char_args))| Case { char_args, limit, append_mode, symlink: symlink && pre.is_some(), pre, count, chunks, charset, flaky_after_moving: !flaky.is_empty() && ops.len() % 2 == 0, ops, flaky, enc_fail })
}

pub fn check(tmp: &Path, case: &Case, obs: &mut Obs) -> CaseResult {
    let dir = scratch(tmp, "c06");
    let r = check_in(&dir, case, obs);
    let _ = std::fs::remove_dir_all(&dir);
    r
}

fn check_in(dir: &Path, case: &Case, obs: &mut Obs) -> CaseResult {
    let path = dir.join("active.log");
    let n = case.limit;
    // pre-existing content
    let mut model_active: Option<Vec<u8>> = None; // expected bytes of the active file (None = absent)
    if let Some(d) = case.pre {
        let size = (n as i64 + d).max(0) as usize;
        let content: Vec<u8> = (0..size).map(|i| b'p' + (i % 7) as u8).collect();
        if case.symlink {
            std::fs::write(dir.join("app-of-today.log"), &content).unwrap();
            std::os::unix::fs::symlink("app-of-today.log", &path).unwrap();
        } else {
            std::fs::write(&path, &content).unwrap();
        }
        model_active = Some(content);
    }
    let pre_size = model_active.as_ref().map(|c| c.len()).unwrap_or(0);
    let log: Arc<Mutex<Vec<Consultation>>> = Arc::new(Mutex::new(vec![]));
    let roller = RollSpec::Fixed { base: 0, count: case.count, pattern: "arch.{}.log".into() };
    let failures = Arc::new(std::sync::atomic::AtomicUsize::new(0));
    let appends_done = Arc::new(std::sync::atomic::AtomicUsize::new(0));
    let mut roller_calls = 0usize; // calls seen by the current appender's roller
    let build = |model_active: &mut Option<Vec<u8>>| -> Result<log4rs::append::rolling_file::RollingFileAppender, Failure> {
        let policy = Box::new(ObservingPolicy { inner: make_flaky_policy_with(dir, &TrigSpec::Size(n), &roller, &case.flaky, case.flaky_after_moving, &failures).unwrap(), log: log.clone() });
        let a = if case.enc_fail.is_empty() {
            build_appender(&path, case.append_mode, &case.chunks, policy)
        } else {
            // one encoder call per append over the appender's lifetime; restarts continue the script
            let done = appends_done.load(std::sync::atomic::Ordering::SeqCst);
            let rest: Vec<Option<usize>> = case.enc_fail.iter().skip(done).cloned().collect();
            log4rs::append::rolling_file::RollingFileAppender::builder()
                .append(case.append_mode)
                .encoder(Box::new(FailingEncoder { fail: rest, calls: std::sync::atomic::AtomicUsize::new(0) }))
                .build(&path, policy)
        }
        .map_err(|e| Failure { sig: "C06:build".into(), msg: e.to_string() })?;
        // the appender opens the file immediately; truncate mode discards pre-existing content at open
        if !case.append_mode || model_active.is_none() {
            if !case.append_mode {
                *model_active = Some(vec![]);
            } else {
                *model_active = Some(vec![]);
            }
        }
        Ok(a)
    };
    let mut app = build(&mut model_active)?;
    let mut newest_archive: Option<Vec<u8>> = None;
    let mut near_limit = false;
    let mut deltas: Vec<i64> = vec![];
    let mut rotations = 0;
    let mut flaky_hit = false;
    let mut enc_failed = false;
    for (oi, op) in case.ops.iter().enumerate() {
        let size_now = model_active.as_ref().map(|c| c.len()).unwrap_or(0) as i64;
        let len = match op {
            Op::Restart => {
                drop(app);
                // a restart keeps the file in append mode; truncate mode discards it at open (C04)
                if model_active.is_none() {
                    // rotated away and not yet re-created: the new appender creates it empty
                }
                app = build(&mut model_active)?;
                roller_calls = 0;
                if !case.append_mode {
                    model_active = Some(vec![]);
                } else if model_active.is_none() {
                    model_active = Some(vec![]);
                }
                let on_disk = std::fs::read(&path).ok();
                ensure!(on_disk == model_active, "C06:restart-content", "op {}: after a restart (append={}) the active file holds {:?} bytes, expected {:?}", oi, case.append_mode, on_disk.map(|b| b.len()), model_active.as_ref().map(|b| b.len()));
                continue;
            }
            Op::Rel(d) => ((n as i64 - size_now) + d).max(0) as usize,
            Op::Abs(k) => *k,
        };
        let msg = text_of(len, case.charset);
        log.lock().unwrap().clear();
        let call = appends_done.fetch_add(1, std::sync::atomic::Ordering::SeqCst);
        let res = catch(|| {
            let mut cs = msg.chars();
            match (case.char_args, cs.next(), cs.next()) {
                (true, Some(a), Some(b)) => {
                    let rest = cs.as_str();
                    log4rs::append::Append::append(&app, &log::Record::builder().args(format_args!("{}{}{}", a, b, rest)).level(log::Level::Info).target("t").build())
                }
                _ => append_msg(&app, &msg),
            }
        });
        obs.sub_evals += 1;
        if let Some(k) = case.enc_fail.get(call).copied().flatten() {
            // the encoder wrote a prefix and failed: the append reports it, the policy is not consulted, and the
            // prefix belongs to the file from now on (it reaches the disk with the next flush at the latest)
            enc_failed = true;
            let mut k = k.min(msg.len());
            while !msg.is_char_boundary(k) {
                k -= 1;
            }
            match res {
                Err(p) => return fail("C06:panic", format!("op {}: append panicked: {}", oi, p)),
                Ok(Ok(())) => return fail("C06:error-swallowed", format!("op {}: the encoder failed but the append reported success", oi)),
                Ok(Err(_)) => {}
            }
            ensure!(log.lock().unwrap().is_empty(), "C06:consultations", "op {}: the policy was consulted although encoding failed", oi);
            let mut active = model_active.take().unwrap_or_default();
            active.extend_from_slice(&msg.as_bytes()[..k]);
            model_active = Some(active);
            continue;
        }
        let mut active = model_active.take().unwrap_or_default();
        active.extend_from_slice(msg.as_bytes());
        let true_size = active.len() as u64;
        // the scripted roller fails on this call: the append reports it and the file stays where it is
        let roller_fails = true_size > n && case.flaky.get(roller_calls).copied().unwrap_or(false);
        if true_size > n {
            roller_calls += 1;
        }
        match res {
            Err(p) => return fail("C06:panic", format!("op {}: append panicked: {}", oi, p)),
            Ok(Err(e)) => ensure!(roller_fails, "C06:append-error", "op {}: append returned an error although the roller did not fail: {}", oi, e),
            Ok(Ok(())) => ensure!(!roller_fails, "C06:error-swallowed", "op {}: the roller failed but the append reported success", oi),
        }
        let cons = log.lock().unwrap().clone();
        ensure!(cons.len() == 1, "C06:consultations", "op {}: the policy was consulted {} times during one append", oi, cons.len());
        let c = &cons[0];
        ensure!(
            c.len_estimate == true_size && c.on_disk == Some(true_size),
            "C06:size-accounting",
            "op {}: the policy was shown {} bytes, the file on disk has {:?} bytes, the true size (pre-existing {} + records) is {} [limit {}, append={}, record {} bytes]", oi, c.len_estimate, c.on_disk, pre_size, true_size, n, case.append_mode, len
        );
        let should_roll = true_size > n;
        let rolled = !c.exists_after;
        if roller_fails && case.flaky_after_moving {
            // the file is archived, the error is reported, the next record opens a fresh file
            flaky_hit = true;
            ensure!(rolled, "C06:failed-roll-state", "op {}: the roller archived the file and failed afterwards, yet the active path still exists", oi);
            let arch = std::fs::read(dir.join("arch.0.log")).ok();
            ensure!(arch.as_ref() == Some(&active), "C06:archive-content", "op {}: the roller archived the file before failing: the newest archive holds {:?} bytes, the active file had {}", oi, arch.map(|b| b.len()), active.len());
            model_active = None;
            continue;
        }
        if roller_fails {
            flaky_hit = true;
            ensure!(!rolled && c.on_disk == Some(true_size), "C06:failed-roll-state", "op {}: the roller failed without touching the file, yet the active path changed", oi);
            let on_disk = std::fs::read(&path).ok();
            ensure!(on_disk.as_ref() == Some(&active), "C06:active-content", "op {}: after a failed roll the active file differs from pre-existing ++ records ({} vs {} bytes)", oi, on_disk.map(|b| b.len()).unwrap_or(0), active.len());
            model_active = Some(active);
            continue;
        }
        ensure!(
            rolled == should_roll,
            if should_roll { "C06:roll-deferred" } else { "C06:roll-early" },
            "op {}: active file has {} bytes, limit {}: rotation {} but {}", oi, true_size, n, if should_roll { "must happen immediately" } else { "must not happen" }, if rolled { "it happened" } else { "it did not" }
        );
        deltas.push(true_size as i64 - n as i64);
        if (true_size as i64 - n as i64).abs() <= 1 {
            near_limit = true;
        }
        if rolled {
            rotations += 1;
            let arch = std::fs::read(dir.join("arch.0.log")).ok();
            ensure!(arch.as_ref() == Some(&active), "C06:archive-content", "op {}: the newest archive holds {:?} bytes, the active file had {} (content must be identical)", oi, arch.map(|b| b.len()), active.len());
            newest_archive = Some(active);
            model_active = None;
            ensure!(!path.exists(), "C06:active-after-roll", "op {}: active path still exists after rotation", oi);
        } else {
            let on_disk = std::fs::read(&path).ok();
            ensure!(on_disk.as_ref() == Some(&active), "C06:active-content", "op {}: active file content differs from pre-existing ++ records ({} vs {} bytes)", oi, on_disk.map(|b| b.len()).unwrap_or(0), active.len());
            ensure!(active.len() as u64 <= n, "C06:active-over-limit", "op {}: active file holds {} bytes > limit {} after the append", oi, active.len(), n);
            model_active = Some(active);
        }
    }
    let _ = newest_archive;
    let _ = snap(dir);
    obs.nontrivial = near_limit || flaky_hit || enc_failed || (case.pre.is_some() && case.append_mode && pre_size > 0) || case.charset % 3 != 0;
    obs.class_if(near_limit, "size-within-1-of-limit");
    obs.class_if(case.pre.is_some() && case.append_mode && pre_size > 0, "pre-existing-content-append-mode");
    obs.class_if(case.pre.is_some() && !case.append_mode, "pre-existing-content-truncate-mode");
    obs.class_if(case.charset % 3 != 0, "multi-byte-payload");
    obs.class_if(case.chunks.is_some(), "multi-chunk-encoder");
    obs.class_if(case.symlink, "active-path-is-a-symlink");
    obs.class_if(flaky_hit, "scripted-roller-failure");
    obs.class_if(enc_failed, "encoder-failed-after-partial-write");
    obs.class_if(case.char_args, "message-starts-with-char-arguments");
    obs.class_if(case.ops.iter().any(|o| matches!(o, Op::Restart)), "restart");
    obs.class(format!("rotations={}", rotations.min(5)));
    for d in deltas {
        obs.class(format!("size-limit={}", d.clamp(-3, 3)));
    }
    Ok(())
}

// ---- one file kept open for a very long time ---------------------------------------------------------------------

/// `records` appends of `len` bytes through one appender; the limit is reached only after more than 65 536 of them.
#[derive(Serialize, Deserialize, Debug, Clone)]
pub struct Long {
    pub records: usize,
    pub len: usize,
    pub limit: u64,
}

pub fn check_long(tmp: &Path, c: &Long, obs: &mut Obs) -> CaseResult {
    let dir = scratch(tmp, "c06l");
    let r = (|| -> CaseResult {
        let path = dir.join("active.log");
        let log: Arc<Mutex<Vec<Consultation>>> = Arc::new(Mutex::new(vec![]));
        let roller = RollSpec::Fixed { base: 0, count: 2, pattern: "arch.{}.log".into() };
        let policy = Box::new(ObservingPolicy { inner: make_policy(&dir, &TrigSpec::Size(c.limit), &roller).unwrap(), log: log.clone() });
        let app = build_appender(&path, true, &None, policy).map_err(|e| Failure { sig: "C06:build".into(), msg: e.to_string() })?;
        let msg = text_of(c.len, 0);
        let mut size = 0u64;
        let mut rolls = 0;
        for i in 0..c.records {
            log.lock().unwrap().clear();
            match catch(|| append_msg(&app, &msg)) {
                Err(p) => return fail("C06:panic", format!("append #{} panicked: {}", i, p)),
                Ok(Err(e)) => return fail("C06:append-error", format!("append #{} failed: {}", i, e)),
                Ok(Ok(())) => {}
            }
            size += c.len as u64;
            let cons = log.lock().unwrap().clone();
            ensure!(cons.len() == 1, "C06:consultations", "append #{}: the policy was consulted {} times", i, cons.len());
            let k = &cons[0];
            ensure!(
                k.len_estimate == size && k.on_disk == Some(size),
                "C06:size-accounting",
                "append #{} of {} through one open file: the policy was shown {} bytes, the file on disk has {:?}, {} bytes were written since the last rotation", i, c.records, k.len_estimate, k.on_disk, size
            );
            let should = size > c.limit;
            ensure!(!k.exists_after == should, if should { "C06:roll-deferred" } else { "C06:roll-early" }, "append #{}: {} bytes against a limit of {}: rotation {} but {}", i, size, c.limit, if should { "must happen" } else { "must not happen" }, if k.exists_after { "the file stayed" } else { "it was rolled" });
            if should {
                size = 0;
                rolls += 1;
            }
            obs.sub_evals += 1;
        }
        obs.nontrivial = rolls >= 1;
        obs.class("one-open-file-for-more-than-65536-records");
        Ok(())
    })();
    let _ = std::fs::remove_dir_all(&dir);
    r
}

// ---- a user-defined policy that rolls by itself --------------------------------------------------------------------

/// A policy written by a user (the trait is the extension point): when the file is over its limit it closes it with
/// `LogFile::roll()`, reads the size once more to name the archive, and moves the file away itself.
#[derive(Debug)]
struct SelfArchiving {
    limit: u64,
    dir: std::path::PathBuf,
    seen: Arc<Mutex<Vec<(u64, u64, Option<u64>)>>>,
}

impl log4rs::append::rolling_file::policy::Policy for SelfArchiving {
    fn process(&self, log: &mut log4rs::append::rolling_file::LogFile) -> anyhow::Result<()> {
        let before = log.len_estimate();
        if before > self.limit {
            log.roll();
            let after = log.len_estimate();
            let on_disk = std::fs::metadata(log.path()).ok().map(|m| m.len());
            let n = self.seen.lock().unwrap().len();
            self.seen.lock().unwrap().push((before, after, on_disk));
            std::fs::rename(log.path(), self.dir.join(format!("self-archived-{}-{}.log", n, after)))?;
        }
        Ok(())
    }
    fn is_pre_process(&self) -> bool {
        false
    }
}

pub fn check_self_archiving(tmp: &Path, c: &Pre, obs: &mut Obs) -> CaseResult {
    let dir = scratch(tmp, "c06s");
    let r = (|| -> CaseResult {
        let path = dir.join("active.log");
        if c.pre_existing > 0 {
            std::fs::write(&path, vec![b'p'; c.pre_existing]).unwrap();
        }
        let seen = Arc::new(Mutex::new(vec![]));
        let policy = Box::new(SelfArchiving { limit: c.limit, dir: dir.clone(), seen: seen.clone() });
        let app = build_appender(&path, c.append_mode, &None, policy).map_err(|e| Failure { sig: "C06:build".into(), msg: e.to_string() })?;
        let mut size: u64 = if c.append_mode { c.pre_existing as u64 } else { 0 };
        let mut archived = 0;
        for (i, len) in c.lens.iter().enumerate() {
            match catch(|| append_msg(&app, &text_of(*len, 1))) {
                Err(p) => return fail("C06:panic", format!("append #{} panicked: {}", i, p)),
                Ok(Err(e)) => return fail("C06:append-error", format!("append #{} failed: {}", i, e)),
                Ok(Ok(())) => {}
            }
            size += *len as u64;
            if size > c.limit {
                let s = seen.lock().unwrap().clone();
                ensure!(s.len() == archived + 1, "C06:roll-deferred", "append #{}: {} bytes against a limit of {}, but the self-archiving policy did not see the file over its limit", i, size, c.limit);
                let (before, after, on_disk) = s[archived];
                ensure!(
                    before == size && after == size && on_disk == Some(size),
                    "C06:size-accounting",
                    "append #{}: the policy was shown {} bytes; after it closed the file with LogFile::roll() it was shown {} bytes while the file (still in place) had {:?} bytes; true size {}", i, before, after, on_disk, size
                );
                archived += 1;
                size = 0;
            }
            obs.sub_evals += 1;
        }
        obs.nontrivial = archived > 0;
        obs.class_if(archived > 0, "user-defined-policy-reads-the-size-after-roll()");
        Ok(())
    })();
    let _ = std::fs::remove_dir_all(&dir);
    r
}

// ---- limits and files beyond 32 bits -------------------------------------------------------------------------------

/// A sparse pre-existing file (`set_len`) next to a limit beyond 4 GiB: only sizes are inspected.
#[derive(Serialize, Deserialize, Debug, Clone)]
pub struct HugeSize {
    pub file_size: u64,
    pub limit: u64,
}

pub fn check_huge(tmp: &Path, c: &HugeSize, obs: &mut Obs) -> CaseResult {
    let dir = scratch(tmp, "c06h");
    let r = (|| -> CaseResult {
        let path = dir.join("active.log");
        let f = std::fs::File::create(&path).unwrap();
        if f.set_len(c.file_size).is_err() {
            obs.class("sparse-files-unavailable(skipped)");
            return Ok(());
        }
        drop(f);
        let log: Arc<Mutex<Vec<Consultation>>> = Arc::new(Mutex::new(vec![]));
        let roller = RollSpec::Fixed { base: 0, count: 1, pattern: "arch.{}.log".into() };
        let policy = Box::new(ObservingPolicy { inner: make_policy(&dir, &TrigSpec::Size(c.limit), &roller).unwrap(), log: log.clone() });
        let app = build_appender(&path, true, &None, policy).map_err(|e| Failure { sig: "C06:build".into(), msg: e.to_string() })?;
        let mut size = c.file_size;
        for i in 0..3 {
            log.lock().unwrap().clear();
            let msg = text_of(10, 0);
            match catch(|| append_msg(&app, &msg)) {
                Err(p) => return fail("C06:panic", format!("append panicked: {}", p)),
                Ok(Err(e)) => return fail("C06:append-error", format!("append failed: {}", e)),
                Ok(Ok(())) => {}
            }
            size += 10;
            let cons = log.lock().unwrap().clone();
            ensure!(cons.len() == 1, "C06:consultations", "the policy was consulted {} times", cons.len());
            let k = &cons[0];
            ensure!(k.len_estimate == size && k.on_disk == Some(size), "C06:size-accounting", "append #{} to a file of {} bytes: the policy was shown {} bytes, on disk {:?}, true size {}", i, c.file_size, k.len_estimate, k.on_disk, size);
            let should = size > c.limit;
            ensure!(!k.exists_after == should, if should { "C06:roll-deferred" } else { "C06:roll-early" }, "{} bytes against a limit of {}: rotation {} but {}", size, c.limit, if should { "must happen" } else { "must not happen" }, if k.exists_after { "the file stayed" } else { "it was rolled" });
            if should {
                size = 0;
            }
            obs.sub_evals += 1;
        }
        obs.nontrivial = true;
        obs.class("sizes-beyond-32-bits");
        Ok(())
    })();
    let _ = std::fs::remove_dir_all(&dir);
    r
}

// ---- a user-defined pre-processing policy --------------------------------------------------------------------------

/// The policy is consulted BEFORE the record is written (a user-defined pre-processing policy around the real
/// size trigger and a roller that fails on scripted calls): it must be shown the true size every time, also right
/// after a failed roll has made the appender close its file.
#[derive(Serialize, Deserialize, Debug, Clone)]
pub struct Pre {
    pub limit: u64,
    pub pre_existing: usize,
    pub append_mode: bool,
    pub lens: Vec<usize>,
    pub flaky: Vec<bool>,
}

pub fn pre_strategy() -> impl Strategy<Value = Pre> {
    (10u64..300, prop_oneof![Just(0usize), 1usize..400], prop::bool::weighted(0.7), prop::collection::vec(prop_oneof![0usize..40, 60usize..200], 2..=20), prop::collection::vec(prop::bool::weighted(0.5), 0..=5))
        .prop_map(|(limit, pre_existing, append_mode, lens, flaky)| Pre { limit, pre_existing, append_mode, lens, flaky })
}

#[derive(Debug)]
struct PrePolicy(Box<dyn log4rs::append::rolling_file::policy::Policy>);

impl log4rs::append::rolling_file::policy::Policy for PrePolicy {
    fn process(&self, log: &mut log4rs::append::rolling_file::LogFile) -> anyhow::Result<()> {
        self.0.process(log)
    }
    fn is_pre_process(&self) -> bool {
        true
    }
}

pub fn check_pre(tmp: &Path, c: &Pre, obs: &mut Obs) -> CaseResult {
    let dir = scratch(tmp, "c06p");
    let r = (|| -> CaseResult {
        let path = dir.join("active.log");
        if c.pre_existing > 0 {
            std::fs::write(&path, vec![b'p'; c.pre_existing]).unwrap();
        }
        let log: Arc<Mutex<Vec<Consultation>>> = Arc::new(Mutex::new(vec![]));
        let roller = RollSpec::Fixed { base: 0, count: 2, pattern: "arch.{}.log".into() };
        let failures = Arc::new(std::sync::atomic::AtomicUsize::new(0));
        let inner = make_flaky_policy(&dir, &TrigSpec::Size(c.limit), &roller, &c.flaky, &failures).unwrap();
        let policy = Box::new(ObservingPolicy { inner: Box::new(PrePolicy(inner)), log: log.clone() });
        let app = build_appender(&path, c.append_mode, &None, policy).map_err(|e| Failure { sig: "C06:build".into(), msg: e.to_string() })?;
        let mut size: u64 = if c.append_mode { c.pre_existing as u64 } else { 0 };
        let mut roller_calls = 0usize;
        let mut failed_rolls = 0;
        for (i, len) in c.lens.iter().enumerate() {
            log.lock().unwrap().clear();
            let res = match catch(|| append_msg(&app, &text_of(*len, 0))) {
                Err(p) => return fail("C06:panic", format!("append #{} panicked: {}", i, p)),
                Ok(r) => r,
            };
            let cons = log.lock().unwrap().clone();
            ensure!(cons.len() == 1, "C06:consultations", "append #{}: the pre-processing policy was consulted {} times", i, cons.len());
            let k = &cons[0];
            ensure!(
                k.len_estimate == size && k.on_disk.unwrap_or(0) == size,
                "C06:size-accounting",
                "append #{} (pre-processing policy, {} failed roll(s) so far): shown {} bytes, on disk {:?}, true size {}", i, failed_rolls, k.len_estimate, k.on_disk, size
            );
            let should = size > c.limit;
            let fails = should && c.flaky.get(roller_calls).copied().unwrap_or(false);
            if should {
                roller_calls += 1;
            }
            if fails {
                failed_rolls += 1;
                ensure!(res.is_err(), "C06:error-swallowed", "append #{}: the roller failed but the append reported success", i);
                // the record of a failed pre-processing step is not written; the file stays as it is
                let on_disk = std::fs::metadata(&path).map(|m| m.len()).unwrap_or(0);
                ensure!(on_disk == size, "C06:failed-roll-state", "append #{}: after a failed roll the file has {} bytes, expected {}", i, on_disk, size);
                continue;
            }
            if let Err(e) = res {
                return fail("C06:append-error", format!("append #{} failed although nothing was scripted to fail: {}", i, e));
            }
            ensure!(!k.exists_after == should, if should { "C06:roll-deferred" } else { "C06:roll-early" }, "append #{} (pre-processing): {} bytes against a limit of {}: rotation {} but {}", i, size, c.limit, if should { "must happen before the record is written" } else { "must not happen" }, if k.exists_after { "the file stayed" } else { "it was rolled" });
            if should {
                size = 0;
            }
            size += *len as u64;
            let on_disk = std::fs::metadata(&path).map(|m| m.len()).unwrap_or(0);
            ensure!(on_disk == size, "C06:active-content", "append #{} (pre-processing): the file has {} bytes after the append, expected {}", i, on_disk, size);
            obs.sub_evals += 1;
        }
        obs.nontrivial = failed_rolls > 0;
        obs.class_if(failed_rolls > 0, "pre-processing:consulted-right-after-a-failed-roll");
        obs.class_if(!c.append_mode, "pre-processing:truncate-mode");
        Ok(())
    })();
    let _ = std::fs::remove_dir_all(&dir);
    r
}

// ---- several threads: what the policy is shown is what is on disk, at every consultation ------------------------

#[derive(Serialize, Deserialize, Debug, Clone)]
pub struct Conc {
    pub limit: u64,
    pub count: u32,
    /// message lengths per thread
    pub threads: Vec<Vec<usize>>,
    /// the encoder hands the record over in pieces of these sizes and dawdles between them
    pub chunks: Vec<usize>,
}

pub fn conc_strategy() -> impl Strategy<Value = Conc> {
    (
        prop_oneof![20u64..200, 200u64..3000],
        1u32..=3,
        prop::collection::vec(prop::collection::vec(prop_oneof![0usize..60, 200usize..400], 2..=10), 2..=4),
        prop::collection::vec(prop_oneof![1usize..8, 20usize..200], 1..=3),
    )
        .prop_map(|(limit, count, threads, chunks)| Conc { limit, count, threads, chunks })
}

#[derive(Debug)]
struct DawdlingEncoder {
    chunks: Vec<usize>,
}

impl log4rs::encode::Encode for DawdlingEncoder {
    fn encode(&self, w: &mut dyn log4rs::encode::Write, record: &log::Record) -> anyhow::Result<()> {
        let msg = format!("{}", record.args());
        let b = msg.as_bytes();
        let (mut i, mut k) = (0, 0);
        while i < b.len() {
            let j = (i + self.chunks[k % self.chunks.len()].max(1)).min(b.len());
            w.write_all(&b[i..j])?;
            if k == 0 {
                std::thread::sleep(std::time::Duration::from_micros(60));
            }
            i = j;
            k += 1;
        }
        Ok(())
    }
}

pub fn check_conc(tmp: &Path, c: &Conc, obs: &mut Obs) -> CaseResult {
    let dir = scratch(tmp, "c06c");
    let r = check_conc_in(&dir, c, obs);
    let _ = std::fs::remove_dir_all(&dir);
    r
}

fn check_conc_in(dir: &Path, c: &Conc, obs: &mut Obs) -> CaseResult {
    let path = dir.join("active.log");
    let log: Arc<Mutex<Vec<Consultation>>> = Arc::new(Mutex::new(vec![]));
    let roller = RollSpec::Fixed { base: 0, count: c.count, pattern: "arch.{}.log".into() };
    let policy = Box::new(ObservingPolicy { inner: make_policy(dir, &TrigSpec::Size(c.limit), &roller).unwrap(), log: log.clone() });
    let app = log4rs::append::rolling_file::RollingFileAppender::builder()
        .encoder(Box::new(DawdlingEncoder { chunks: c.chunks.clone() }))
        .build(&path, policy)
        .map_err(|e| Failure { sig: "C06:build".into(), msg: e.to_string() })?;
    let app = Arc::new(app);
    let mut handles = vec![];
    for (ti, lens) in c.threads.iter().enumerate() {
        let (app, lens) = (app.clone(), lens.clone());
        handles.push(std::thread::spawn(move || -> Result<(), String> {
            for (s, l) in lens.iter().enumerate() {
                append_msg(&*app, &record_text(ti as u16 + 1, s as u32, *l)).map_err(|e| e.to_string())?;
            }
            Ok(())
        }));
    }
    for h in handles {
        match h.join() {
            Ok(Ok(())) => {}
            Ok(Err(e)) => return fail("C06:append-error", format!("append failed with several writers: {}", e)),
            Err(_) => return fail("C06:panic", "a writer thread panicked"),
        }
    }
    let cons = log.lock().unwrap().clone();
    let total: usize = c.threads.iter().map(|t| t.len()).sum();
    ensure!(cons.len() == total, "C06:consultations", "{} appends from {} threads, the policy was consulted {} times", total, c.threads.len(), cons.len());
    let mut rolled = 0;
    for (i, k) in cons.iter().enumerate() {
        obs.sub_evals += 1;
        ensure!(
            k.on_disk == Some(k.len_estimate),
            "C06:size-accounting",
            "consultation {} of {} ({} writer threads): the policy was shown {} bytes while the file on disk had {:?} bytes", i, cons.len(), c.threads.len(), k.len_estimate, k.on_disk
        );
        let should = k.len_estimate > c.limit;
        ensure!(
            !k.exists_after == should,
            if should { "C06:roll-deferred" } else { "C06:roll-early" },
            "consultation {} ({} writer threads): {} bytes against a limit of {}: rotation {} but {}", i, c.threads.len(), k.len_estimate, c.limit, if should { "must happen" } else { "must not happen" }, if k.exists_after { "the file stayed" } else { "the file was rolled" }
        );
        if should {
            rolled += 1;
        }
    }
    obs.nontrivial = rolled >= 1;
    obs.class(format!("threads={}", c.threads.len()));
    obs.class(format!("rotations-under-contention={}", rolled.min(4)));
    Ok(())
}

pub fn run(run: &Run) {
    let tmp = run.tmp.clone();
    let f = move |c: &Case, o: &mut Obs| check(&tmp, c, o);
    run.run_replays::<Case>("size", &f);
    run.search("size", run.tier.pick(2_000, 100_000), strategy(), &f);
    if run.worker.0 == 0 {
        // one long lifetime: thousands of rotations through one appender (counters of any width must keep up)
        let ops: Vec<Op> = (0..6000).map(|i| Op::Abs(20 + (i % 7) * 5)).collect();
        run.eval_one("size", &Case { limit: 100, append_mode: true, pre: None, count: 2, chunks: None, charset: 0, ops, flaky: vec![], enc_fail: vec![], symlink: false, flaky_after_moving: false, char_args: false }, &f);
    }
    if run.worker.0 == 1 % run.worker.1 {
        let t = run.tmp.clone();
        run.eval_one("long", &Long { records: 70_000, len: 10, limit: 655_395 }, &move |c: &Long, o: &mut Obs| check_long(&t, c, o));
    }
    if run.worker.0 == 2 % run.worker.1 {
        let g: u64 = 1 << 32;
        for (file_size, limit) in [(g - 15, g), (g - 5, g), (g + 3, 2 * g), (2 * g - 25, 2 * g), (5 * g, 5 * g + 15), (5 * g, 5 * g + 25), (g - 20, g - 5), (3 * g + 1, 3 * g + 20), (0, u64::MAX), (7, u64::MAX - 1), (0, 1 << 63), (30, (1 << 63) + 1), (3, (1 << 63) - 1), (g + 1, u64::MAX), (12, i64::MAX as u64 + 12), (0, u32::MAX as u64), (u32::MAX as u64 - 12, u32::MAX as u64)] {
            let t = run.tmp.clone();
            run.eval_one("huge", &HugeSize { file_size, limit }, &move |c: &HugeSize, o: &mut Obs| check_huge(&t, c, o));
        }
    }
    let tmp3 = run.tmp.clone();
    let h = move |c: &Pre, o: &mut Obs| check_pre(&tmp3, c, o);
    run.run_replays::<Pre>("pre-processing", &h);
    run.search("pre-processing", run.tier.pick(150, 6_000), pre_strategy(), &h);
    let tmp4 = run.tmp.clone();
    let sa = move |c: &Pre, o: &mut Obs| check_self_archiving(&tmp4, c, o);
    run.run_replays::<Pre>("self-archiving", &sa);
    run.search("self-archiving", run.tier.pick(100, 4_000), pre_strategy(), &sa);
    let tmp = run.tmp.clone();
    let g = move |c: &Conc, o: &mut Obs| check_conc(&tmp, c, o);
    run.run_replays::<Conc>("contended", &g);
    run.search("contended", run.tier.pick(40, 3_000), conc_strategy(), &g);
}

pub fn replay(part: &str, case: serde_json::Value) -> Option<CaseResult> {
    match part {
        "size" => {
            let tmp = std::env::temp_dir().join(format!("lv-replay-{}", std::process::id()));
            std::fs::create_dir_all(&tmp).ok()?;
            let r = check(&tmp, &serde_json::from_value(case).ok()?, &mut Obs::default());
            let _ = std::fs::remove_dir_all(&tmp);
            Some(r)
        }
        "self-archiving" => {
            let tmp = std::env::temp_dir().join(format!("lv-replay-{}", std::process::id()));
            std::fs::create_dir_all(&tmp).ok()?;
            let r = check_self_archiving(&tmp, &serde_json::from_value(case).ok()?, &mut Obs::default());
            let _ = std::fs::remove_dir_all(&tmp);
            Some(r)
        }
        "huge" => {
            let tmp = std::env::temp_dir().join(format!("lv-replay-{}", std::process::id()));
            std::fs::create_dir_all(&tmp).ok()?;
            let r = check_huge(&tmp, &serde_json::from_value(case).ok()?, &mut Obs::default());
            let _ = std::fs::remove_dir_all(&tmp);
            Some(r)
        }
        "long" | "pre-processing" => {
            let tmp = std::env::temp_dir().join(format!("lv-replay-{}", std::process::id()));
            std::fs::create_dir_all(&tmp).ok()?;
            let r = if part == "long" { check_long(&tmp, &serde_json::from_value(case).ok()?, &mut Obs::default()) } else { check_pre(&tmp, &serde_json::from_value(case).ok()?, &mut Obs::default()) };
            let _ = std::fs::remove_dir_all(&tmp);
            Some(r)
        }
        "contended" => {
            let tmp = std::env::temp_dir().join(format!("lv-replay-{}", std::process::id()));
            std::fs::create_dir_all(&tmp).ok()?;
            let r = check_conc(&tmp, &serde_json::from_value(case).ok()?, &mut Obs::default());
            let _ = std::fs::remove_dir_all(&tmp);
            Some(r)
        }
        _ => None,
    }
}

pub fn meta() -> EvidenceMeta {
    EvidenceMeta {
        level: "exploration",
        rule: "cases = limit N in {0,1,2,63,64,1023,1024,1025, random <= 5000} x pre-existing active file (absent / N-1 / N / N+1 / random) x append or truncate mode x window count 1-3 x pattern or multi-chunk encoder x 1-25 operations: appends whose byte length is chosen relative to the room left before the limit (room-3..room+3) or absolute around the 1 KiB buffer, with 1-4-byte characters, and restarts; the real CompoundPolicy(SizeTrigger, FixedWindowRoller) is wrapped in a harness Policy recording len_estimate and fs::metadata().len() at every consultation. Oracle: exactly one consultation per append; len_estimate == on-disk size == model size (pre-existing + records; 0 at open in truncate mode); rotation during this append iff size > N; afterwards the active file is absent or <= N bytes and byte-identical to pre-existing ++ records; the newest archive equals the rolled content. The configured path may be a symbolic link to the pre-existing file. Part long: 70 000 appends of 10 bytes through one open file whose limit is reached after 65 540 of them, accounting checked at every consultation. Part self-archiving: a user-defined policy that closes the file with LogFile::roll(), reads the size once more and moves the file itself: the size shown before and after roll() equals the file's. Scripted roller failures may happen after the real roller archived the file. Part huge: sparse pre-existing files and limits around 4-20 GiB, and limits no file can reach (2^63 - 1, 2^63, 2^63 + 1, u64::MAX - 1, u64::MAX: 'never roll'), three appends each, same accounting. Part pre-processing: a user-defined pre-processing policy around the real size trigger and a roller failing on scripted calls: consulted before the record is written, it must be shown the true size every time, also right after a failed roll made the appender close its file. Part contended: 2-4 threads append through one appender whose encoder hands records over in pieces and dawdles; at every consultation len_estimate == on-disk size and the file is rolled iff that size > N. Further inputs (round 15): the first characters of a message may arrive as char arguments. non-trivial = a consultation with |size - N| <= 1, or pre-existing content in append mode, or multi-byte payload, or a scripted roller failure (user-defined roller around the real one that fails on chosen calls and leaves the file in place: accounting and re-triggering must stay exact)".into(),
        assumptions: vec!["foreground rotation build".into()],
        mutants_caught: vec![],
    }
}
