//! Re-exec helpers: checks that touch process-global state (global logger, TZ, environment,
//! stdio) run one case per child process. A hung child is infrastructure trouble (exit 2).

use crate::engine::*;
use serde::{de::DeserializeOwned, Deserialize, Serialize};
use std::io::Read;
use std::path::Path;
use std::process::{Command, Stdio};
use std::time::{Duration, Instant};

#[derive(Serialize, Deserialize, Debug, Default)]
pub struct ChildOut {
    pub failure: Option<Failure>,
    pub nontrivial: bool,
    pub classes: Vec<String>,
    pub sub_evals: u64,
    #[serde(default)]
    pub extra: serde_json::Value,
}

pub fn call_child<T: Serialize>(tmp: &Path, name: &str, case: &T, envs: &[(&str, String)], timeout: Duration) -> ChildOut {
    let exe = std::env::current_exe().expect("current_exe");
    let file = scratch(tmp, "childcase").join("case.json");
    std::fs::write(&file, serde_json::to_string(case).unwrap()).expect("write child case");
    let mut cmd = Command::new(exe);
    cmd.arg("child").arg(name).arg(&file).stdin(Stdio::null()).stdout(Stdio::piped()).stderr(Stdio::piped());
    for (k, v) in envs {
        cmd.env(k, v);
    }
    let mut child = cmd.spawn().expect("spawn child");
    let mut so = child.stdout.take().unwrap();
    let mut se = child.stderr.take().unwrap();
    let t_out = std::thread::spawn(move || {
        let mut s = String::new();
        let _ = so.read_to_string(&mut s);
        s
    });
    let t_err = std::thread::spawn(move || {
        let mut s = String::new();
        let _ = se.read_to_string(&mut s);
        s
    });
    let start = Instant::now();
    let status = loop {
        match child.try_wait().expect("try_wait") {
            Some(st) => break st,
            None => {
                if start.elapsed() > timeout {
                    let _ = child.kill();
                    let _ = child.wait();
                    eprintln!("[lv] child {} hung beyond the {:?} watchdog (case file {}): infrastructure trouble, not a violation", name, timeout, file.display());
                    std::process::exit(2);
                }
                std::thread::sleep(Duration::from_micros(300));
            }
        }
    };
    let out = t_out.join().unwrap_or_default();
    let err = t_err.join().unwrap_or_default();
    let _ = std::fs::remove_dir_all(file.parent().unwrap());
    // the result is the last line starting with the marker
    if let Some(line) = out.lines().rev().find(|l| l.starts_with("LVCHILD ")) {
        if let Ok(o) = serde_json::from_str::<ChildOut>(&line[8..]) {
            return o;
        }
    }
    // no result line: the child died (abort, uncaught panic, signal)
    ChildOut {
        failure: Some(Failure {
            sig: format!("child:{}:died", name),
            msg: format!("child ended with {:?} without a result; stderr tail: {}", status, err.chars().rev().take(600).collect::<String>().chars().rev().collect::<String>()),
        }),
        ..Default::default()
    }
}

pub fn child_main<T: DeserializeOwned>(args: &[String], f: impl FnOnce(&T, &mut Obs) -> CaseResult) -> i32 {
    let Some(file) = args.first() else { return 2 };
    let text = std::fs::read_to_string(file).expect("child case file");
    let case: T = serde_json::from_str(&text).expect("child case json");
    let mut obs = Obs::default();
    let r = match catch(|| f(&case, &mut obs)) {
        Ok(r) => r,
        Err(p) => Err(Failure { sig: "child:harness-panic".into(), msg: p }),
    };
    let out = ChildOut { failure: r.err(), nontrivial: obs.nontrivial, classes: obs.classes, sub_evals: obs.sub_evals, extra: obs.sample.unwrap_or(serde_json::Value::Null) };
    println!("LVCHILD {}", serde_json::to_string(&out).unwrap());
    0
}

/// Folds a child's result into the parent's observation.
pub fn absorb(out: ChildOut, obs: &mut Obs) -> CaseResult {
    obs.nontrivial = out.nontrivial;
    obs.classes.extend(out.classes);
    obs.sub_evals += out.sub_evals;
    match out.failure {
        Some(f) => Err(f),
        None => Ok(()),
    }
}
