//! C03 — filter chains decide per appender; rejections and errors are isolated.

use crate::engine::*;
use crate::ensure;
use crate::glue::with_record;
use crate::model::route::{LEVELS, LEVEL_FILTERS};
use log::Log;
use log4rs::append::Append;
use log4rs::config::{Appender, Config, Root};
use log4rs::filter::{threshold::ThresholdFilter, Filter, Response};
use proptest::prelude::*;
use serde::{Deserialize, Serialize};
use std::sync::{Arc, Mutex};

#[derive(Serialize, Deserialize, Debug, Clone, PartialEq)]
pub enum F {
    Accept,
    Neutral,
    Reject,
    /// real ThresholdFilter at LEVEL_FILTERS[i] (inside a harness wrapper that records the consultation)
    Threshold(u8),
    /// the library's ThresholdFilter itself, unwrapped (its consultations are not observable, its verdicts are)
    RealThreshold(u8),
    /// answers by what the record SAYS: Reject / Neutral / Accept for message number (n + k) mod 3 = 0 / 1 / 2 - records
    /// from one call site with one level do not share a verdict
    ByMessage(u8),
}

fn by_message(k: u8, ri: usize) -> F {
    [F::Reject, F::Neutral, F::Accept][(ri + k as usize) % 3].clone()
}

#[derive(Serialize, Deserialize, Debug, Clone)]
pub struct App {
    pub chain: Vec<F>,
    pub fails: bool,
    /// the appender is a whole `log4rs::Logger` of its own (any `log::Log` is an appender) whose single appender
    /// records the delivery; what that inner logger does with its own errors is its own business
    #[serde(default)]
    pub nested: bool,
    /// the appender is a foreign `log::Log` implementation whose `enabled()` says no to everything (a mere hint for
    /// callers that bother to ask) while its `log()` records whatever it is handed: being attached and passing the
    /// filter chain is all that decides delivery
    #[serde(default)]
    pub foreign_log: bool,
    /// what it fails with, if it fails (index into the kinds of `failure`)
    #[serde(default)]
    pub err_kind: u8,
}

/// `log::Log` on top of the recording appender; `enabled()` is deliberately stricter than `log()`.
#[derive(Debug)]
struct ForeignLog(FA);

impl log::Log for ForeignLog {
    fn enabled(&self, _: &log::Metadata) -> bool {
        false
    }
    fn log(&self, record: &log::Record) {
        let _ = self.0.append(record);
    }
    fn flush(&self) {}
}

#[derive(Serialize, Deserialize, Debug, Clone)]
pub struct Case {
    pub root_level: u8,
    pub apps: Vec<App>,
    /// record levels (index into LEVELS)
    pub records: Vec<u8>,
    /// how lists are handed to the builders (mix of `filter`/`filters`, `appender`/`appenders`)
    #[serde(default)]
    pub style: u64,
    /// earlier on this thread, through another logger, the error handler panicked while reporting an appender
    /// error (the caller caught it): errors of later records are still reported exactly once
    #[serde(default)]
    pub handler_panicked_before: bool,
    /// every failing appender fails with the very same I/O error (a full disk hits them all): still one report each
    #[serde(default)]
    pub same_io_error: bool,
    /// the error handler records the error and then panics (the caller of `log` catches it): every attached appender
    /// whose chain delivers has been handed the record all the same
    #[serde(default)]
    pub handler_panics: bool,
}

#[derive(Default, Debug)]
struct Logs {
    consults: Vec<(usize, usize)>,
    deliveries: Vec<usize>,
    errors: Vec<String>,
}

#[derive(Debug)]
struct SF {
    app: usize,
    idx: usize,
    resp: F,
    logs: Arc<Mutex<Logs>>,
}
impl Filter for SF {
    fn filter(&self, r: &log::Record) -> Response {
        self.logs.lock().unwrap().consults.push((self.app, self.idx));
        let resp = match &self.resp {
            F::ByMessage(k) => by_message(*k, r.args().to_string().parse::<usize>().unwrap_or(0)),
            other => other.clone(),
        };
        match resp {
            F::Accept => Response::Accept,
            F::Neutral => Response::Neutral,
            _ => Response::Reject,
        }
    }
}

/// wraps the real ThresholdFilter so that the consultation is observable
#[derive(Debug)]
struct TF {
    app: usize,
    idx: usize,
    inner: ThresholdFilter,
    logs: Arc<Mutex<Logs>>,
}
impl Filter for TF {
    fn filter(&self, r: &log::Record) -> Response {
        self.logs.lock().unwrap().consults.push((self.app, self.idx));
        self.inner.filter(r)
    }
}

#[derive(Debug)]
struct FA {
    app: usize,
    fails: bool,
    io: bool,
    /// what a failing appender fails with (see `failure`)
    kind: u8,
    logs: Arc<Mutex<Logs>>,
}

/// The error of failing appender `app` for the record whose message is `msg`: a plain tagged error, or an I/O error of
/// some kind (a reader that hung up, an interrupted call, ...), bare or wrapped in context - an error is an error.
fn failure(kind: u8, app: usize, msg: &str) -> anyhow::Error {
    use std::io::{Error, ErrorKind};
    match kind % 8 {
        0 => anyhow::anyhow!("tag-{}-{}", app, msg),
        1 => anyhow::Error::from(Error::from_raw_os_error(32)).context(format!("tag-{}-{}", app, msg)),
        2 => anyhow::Error::from(Error::new(ErrorKind::BrokenPipe, format!("tag-{}-{}", app, msg))),
        3 => anyhow::Error::from(Error::new(ErrorKind::Interrupted, format!("tag-{}-{}", app, msg))),
        4 => anyhow::Error::from(Error::new(ErrorKind::WouldBlock, format!("tag-{}-{}", app, msg))),
        5 => anyhow::Error::from(Error::new(ErrorKind::NotFound, format!("tag-{}-{}", app, msg))).context(format!("tag-{}-{}", app, msg)),
        6 => anyhow::Error::from(Error::new(ErrorKind::UnexpectedEof, format!("tag-{}-{}", app, msg))),
        _ => anyhow::Error::from(Error::new(ErrorKind::Other, format!("tag-{}-{}", app, msg))),
    }
}
impl Append for FA {
    fn append(&self, r: &log::Record) -> anyhow::Result<()> {
        self.logs.lock().unwrap().deliveries.push(self.app);
        if self.fails && self.io {
            Err(anyhow::Error::from(std::io::Error::from_raw_os_error(28)))
        } else if self.fails {
            Err(failure(self.kind, self.app, &r.args().to_string()))
        } else {
            Ok(())
        }
    }
    fn flush(&self) {}
}

fn response(f: &F, level: log::Level, ri: usize) -> F {
    match f {
        F::ByMessage(k) => by_message(*k, ri),
        // the threshold filter rejects exactly the records more verbose than its level
        F::Threshold(i) | F::RealThreshold(i) => {
            if level > LEVEL_FILTERS[*i as usize % 6] {
                F::Reject
            } else {
                F::Neutral
            }
        }
        other => other.clone(),
    }
}

/// Names of the appenders: neighbours differ only in letter case ("app0", "App0", "app1", "App1") - different appenders.
fn app_name(ai: usize) -> String {
    format!("{}pp{}", if ai % 2 == 0 { "a" } else { "A" }, ai / 2)
}

pub fn check(case: &Case, obs: &mut Obs) -> CaseResult {
    let logs = Arc::new(Mutex::new(Logs::default()));
    let mut b = Config::builder();
    let mut root = Root::builder();
    for (ai, a) in case.apps.iter().enumerate() {
        let mut ab = Appender::builder();
        let boxed: Vec<Box<dyn Filter>> = a
            .chain
            .iter()
            .enumerate()
            .map(|(fi, f)| -> Box<dyn Filter> {
                match f {
                    F::Threshold(i) => Box::new(TF { app: ai, idx: fi, inner: ThresholdFilter::new(LEVEL_FILTERS[*i as usize % 6]), logs: logs.clone() }),
                    F::RealThreshold(i) => Box::new(ThresholdFilter::new(LEVEL_FILTERS[*i as usize % 6])),
                    other => Box::new(SF { app: ai, idx: fi, resp: other.clone(), logs: logs.clone() }),
                }
            })
            .collect();
        for (mut run, single) in crate::glue::runs_by_style(boxed, case.style.rotate_left(ai as u32 * 7)) {
            ab = if single { ab.filter(run.pop().unwrap()) } else { ab.filters(run) };
        }
        let fa = FA { app: ai, fails: a.fails && !a.nested && !a.foreign_log, io: case.same_io_error, kind: a.err_kind, logs: logs.clone() };
        let appender: Box<dyn Append> = if a.foreign_log && !a.nested {
            Box::new(ForeignLog(fa))
        } else if a.nested {
            let inner = Config::builder().appender(Appender::builder().build("inner", Box::new(fa))).build(Root::builder().appender("inner").build(log::LevelFilter::Trace)).unwrap();
            Box::new(log4rs::Logger::new_with_err_handler(inner, Box::new(|_e: &anyhow::Error| {})))
        } else {
            Box::new(fa)
        };
        b = b.appender(ab.build(app_name(ai), appender));
    }
    for (run, single) in crate::glue::runs_by_style((0..case.apps.len()).map(app_name).collect(), case.style.rotate_left(41)) {
        root = if single { root.appender(run[0].clone()) } else { root.appenders(run) };
    }
    if case.handler_panicked_before {
        let probe_logs = Arc::new(Mutex::new(Logs::default()));
        let cfg = Config::builder()
            .appender(Appender::builder().build("failing", Box::new(FA { app: 0, fails: true, io: false, kind: 0, logs: probe_logs.clone() })))
            .build(Root::builder().appender("failing").build(log::LevelFilter::Trace))
            .unwrap();
        let other = log4rs::Logger::new_with_err_handler(cfg, Box::new(|_e: &anyhow::Error| panic!("error handler panics")));
        let r = catch(|| with_record("t", log::Level::Error, "earlier", |r| other.log(r)));
        ensure!(r.is_err(), "C03:error-not-reported", "a failing appender's error was not handed to the error handler (the handler, which panics, was never called)");
        obs.class("error-handler-panicked-earlier-on-this-thread");
    }
    let config = b.build(root.build(LEVEL_FILTERS[case.root_level as usize % 6])).map_err(|e| Failure { sig: "C03:config".into(), msg: e.to_string() })?;
    let l2 = logs.clone();
    let handler_panics = case.handler_panics;
    let logger = log4rs::Logger::new_with_err_handler(
        config,
        Box::new(move |e: &anyhow::Error| {
            l2.lock().unwrap().errors.push(e.to_string());
            if handler_panics {
                panic!("error handler panics");
            }
        }),
    );
    let mut verdicts_differ = false;
    let mut failing_before_healthy = false;
    let mut accept_before_reject = false;
    for (ri, lv) in case.records.iter().enumerate() {
        let level = LEVELS[*lv as usize % 5];
        *logs.lock().unwrap() = Logs::default();
        let r = catch(|| with_record("t", level, &ri.to_string(), |r| logger.log(r)));
        let unwound = r.is_err();
        if let Err(p) = r {
            if !case.handler_panics {
                return fail("C03:panic", format!("log() panicked: {}", p));
            }
        }
        let got = std::mem::take(&mut *logs.lock().unwrap());
        obs.sub_evals += 1;
        let admitted = level <= LEVEL_FILTERS[case.root_level as usize % 6];
        let mut exp_consults: Vec<(usize, usize)> = vec![];
        let mut exp_deliveries: Vec<usize> = vec![];
        let mut exp_errors: Vec<String> = vec![];
        let mut verdicts = vec![];
        for (ai, a) in case.apps.iter().enumerate() {
            if !admitted {
                continue;
            }
            let mut delivered = true;
            for (fi, f) in a.chain.iter().enumerate() {
                if !matches!(f, F::RealThreshold(_)) {
                    exp_consults.push((ai, fi));
                }
                match response(f, level, ri) {
                    F::Accept => break,
                    F::Reject => {
                        delivered = false;
                        break;
                    }
                    _ => {}
                }
            }
            verdicts.push(delivered);
            if delivered {
                exp_deliveries.push(ai);
                if a.fails && !a.nested && !a.foreign_log {
                    exp_errors.push(if case.same_io_error { std::io::Error::from_raw_os_error(28).to_string() } else { format!("tag-{}-{}", ai, ri) });
                }
            }
        }
        // per appender, independently
        for ai in 0..case.apps.len() {
            let gc: Vec<usize> = got.consults.iter().filter(|c| c.0 == ai).map(|c| c.1).collect();
            let ec: Vec<usize> = exp_consults.iter().filter(|c| c.0 == ai).map(|c| c.1).collect();
            ensure!(
                gc == ec,
                "C03:consult-order",
                "appender {} chain {:?} level {:?}: filters consulted {:?}, expected exactly {:?} (declaration order, stop at first Accept/Reject)", ai, case.apps[ai].chain, level, gc, ec
            );
            let gd = got.deliveries.iter().filter(|d| **d == ai).count();
            let ed = exp_deliveries.iter().filter(|d| **d == ai).count();
            ensure!(
                gd == ed,
                "C03:delivery",
                "appender {} chain {:?} level {:?} (other appenders: {:?}): delivered {} time(s), expected {}", ai, case.apps[ai].chain, level, case.apps, gd, ed
            );
        }
        let mut ge = got.errors.clone();
        ge.sort();
        exp_errors.sort();
        if case.handler_panics {
            // the first report unwinds out of log(): at least that one was made, nothing was reported that did not happen
            ensure!(unwound == !exp_errors.is_empty(), "C03:error-handler", "panicking error handler: log() {} although {} appender errors were due", if unwound { "unwound" } else { "returned" }, exp_errors.len());
            ensure!(ge.iter().all(|e| exp_errors.contains(e)) && ge.is_empty() == exp_errors.is_empty(), "C03:error-handler", "panicking error handler saw {:?}, failing delivered appenders: {:?}", ge, exp_errors);
            continue;
        }
        ensure!(
            ge == exp_errors,
            "C03:error-handler",
            "error handler saw {:?}, expected each failing delivered appender exactly once: {:?}", ge, exp_errors
        );
        if verdicts.iter().any(|v| *v) && verdicts.iter().any(|v| !*v) {
            verdicts_differ = true;
        }
    }
    for w in case.apps.windows(2) {
        if w[0].fails && !w[1].fails {
            failing_before_healthy = true;
        }
    }
    for a in &case.apps {
        if let Some(p) = a.chain.iter().position(|f| *f == F::Accept) {
            if a.chain[p + 1..].iter().any(|f| *f == F::Reject) {
                accept_before_reject = true;
            }
        }
    }
    obs.nontrivial = (case.apps.len() >= 2 && verdicts_differ) || failing_before_healthy || accept_before_reject;
    obs.class_if(verdicts_differ, "verdicts-differ");
    obs.class_if(failing_before_healthy, "failing-before-healthy");
    obs.class_if(accept_before_reject, "accept-before-reject");
    obs.class_if(case.apps.iter().any(|a| a.chain.iter().any(|f| matches!(f, F::Threshold(_)))), "real-threshold-filter");
    obs.class(format!("appenders={}", case.apps.len()));
    obs.class_if(case.handler_panics, "error-handler-panics");
    obs.class_if(case.apps.iter().any(|a| a.foreign_log && !a.nested), "foreign-log-appender-with-strict-enabled");
    Ok(())
}

fn filter_strategy() -> impl Strategy<Value = F> {
    prop_oneof![
        2 => Just(F::Accept),
        4 => Just(F::Neutral),
        2 => Just(F::Reject),
        2 => (0u8..6).prop_map(F::Threshold),
        2 => (0u8..6).prop_map(F::RealThreshold),
        2 => (0u8..3).prop_map(F::ByMessage),
    ]
}

pub fn strategy() -> impl Strategy<Value = Case> {
    (
        prop_oneof![3 => Just(5u8), 1 => 0u8..6],
        prop::collection::vec((prop::collection::vec(filter_strategy(), 0..=5), prop::bool::weighted(0.35), prop::bool::weighted(0.2), prop::bool::weighted(0.15), 0u8..8).prop_map(|(chain, fails, nested, foreign_log, err_kind)| App { chain, fails, nested, foreign_log, err_kind }), 1..=4),
        prop::collection::vec(0u8..5, 1..=5),
        any::<u64>(),
        (prop::bool::weighted(0.15), prop::bool::weighted(0.3), prop::bool::weighted(0.15)),
    )
        .prop_map(|(root_level, apps, records, style, (handler_panicked_before, same_io_error, handler_panics))| Case { root_level, apps, records, style, handler_panicked_before, same_io_error, handler_panics })
}

#[derive(Serialize, Deserialize, Debug, Clone)]
pub struct TruthCell {
    pub filter_level: u8,
    pub record_level: u8,
}

pub fn check_truth(c: &TruthCell, obs: &mut Obs) -> CaseResult {
    let f = ThresholdFilter::new(LEVEL_FILTERS[c.filter_level as usize]);
    let level = LEVELS[c.record_level as usize];
    let got = with_record("t", level, "x", |r| f.filter(r));
    let want = if level > LEVEL_FILTERS[c.filter_level as usize] { Response::Reject } else { Response::Neutral };
    ensure!(got == want, "C03:threshold-table", "ThresholdFilter({:?}) on a {:?} record answered {:?}, expected {:?}", LEVEL_FILTERS[c.filter_level as usize], level, got, want);
    obs.nontrivial = true;
    Ok(())
}

fn sweep(run: &Run) {
    if run.worker.0 != 0 {
        return;
    }
    // all chains over {A,N,R} of length <= 4, studied appender healthy/failing, before/after a companion
    let letters = [F::Accept, F::Neutral, F::Reject];
    let mut chains: Vec<Vec<F>> = vec![vec![]];
    let mut frontier: Vec<Vec<F>> = vec![vec![]];
    for _ in 0..4 {
        let mut next = vec![];
        for c in &frontier {
            for l in &letters {
                let mut n = c.clone();
                n.push(l.clone());
                next.push(n);
            }
        }
        chains.extend(next.iter().cloned());
        frontier = next;
    }
    let mut ok = true;
    for chain in &chains {
        for fails in [false, true] {
            for pos in [0usize, 1] {
                for companion_fails in [false, true] {
                    let studied = App { chain: chain.clone(), fails, nested: false, foreign_log: false, err_kind: (chain.len() % 8) as u8 };
                    let companion = App { chain: vec![], fails: companion_fails, nested: !companion_fails && chain.len() % 2 == 1, foreign_log: !companion_fails && chain.len() % 3 == 2, err_kind: 2 };
                    let apps = if pos == 0 { vec![studied, companion] } else { vec![companion, studied] };
                    ok &= run.eval_one("chains-exhaustive", &Case { root_level: 5, style: fnv64(format!("{:?}", apps).as_bytes()), apps, records: vec![2], handler_panicked_before: false, same_io_error: false, handler_panics: false }, &check);
                }
            }
        }
    }
    for fl in 0..6u8 {
        for rl in 0..5u8 {
            ok &= run.eval_one("threshold-table", &TruthCell { filter_level: fl, record_level: rl }, &check_truth);
        }
    }
    if ok {
        run.exhaustive("all 121 chains over {Accept,Neutral,Reject} of length <= 4 x studied appender healthy/failing x before/after a companion x companion healthy/failing (968 configurations); ThresholdFilter truth table 6 filter levels x 5 record levels");
    }
}

/// Several threads log through one logger at the same time; each appender takes a moment per record. Whoever is inside
/// an appender, a record of another thread is decided by the chain alone and delivered once.
#[derive(Serialize, Deserialize, Debug, Clone)]
pub struct Concurrent {
    pub threads: u8,
    pub records: u8,
    /// per appender: reject records whose number is divisible by this (0 = no filter)
    pub reject_every: Vec<u8>,
}

#[derive(Debug)]
struct SlowCounting {
    seen: Arc<Mutex<Vec<(usize, String)>>>,
    app: usize,
}
impl Append for SlowCounting {
    fn append(&self, r: &log::Record) -> anyhow::Result<()> {
        std::thread::sleep(std::time::Duration::from_micros(150));
        self.seen.lock().unwrap().push((self.app, r.args().to_string()));
        Ok(())
    }
    fn flush(&self) {}
}
#[derive(Debug)]
struct RejectEvery(u8);
impl Filter for RejectEvery {
    fn filter(&self, r: &log::Record) -> Response {
        let n: usize = r.args().to_string().rsplit('-').next().and_then(|x| x.parse().ok()).unwrap_or(1);
        if self.0 != 0 && n % self.0 as usize == 0 {
            Response::Reject
        } else {
            Response::Neutral
        }
    }
}

pub fn check_concurrent(c: &Concurrent, obs: &mut Obs) -> CaseResult {
    let seen = Arc::new(Mutex::new(vec![]));
    let mut b = Config::builder();
    let mut root = Root::builder();
    for (ai, k) in c.reject_every.iter().enumerate() {
        let mut ab = Appender::builder();
        if *k != 0 {
            ab = ab.filter(Box::new(RejectEvery(*k)));
        }
        b = b.appender(ab.build(app_name(ai), Box::new(SlowCounting { seen: seen.clone(), app: ai })));
        root = root.appender(app_name(ai));
    }
    let logger = Arc::new(log4rs::Logger::new(b.build(root.build(log::LevelFilter::Trace)).map_err(|e| Failure { sig: "C03:config".into(), msg: e.to_string() })?));
    let barrier = Arc::new(std::sync::Barrier::new(c.threads as usize));
    let hs: Vec<_> = (0..c.threads)
        .map(|t| {
            let (logger, barrier, n) = (logger.clone(), barrier.clone(), c.records);
            std::thread::spawn(move || {
                barrier.wait();
                for i in 0..n {
                    with_record("t", log::Level::Info, &format!("{}-{}", t, i), |r| logger.log(r));
                }
            })
        })
        .collect();
    for h in hs {
        if h.join().is_err() {
            return fail("C03:panic", "a logging thread panicked");
        }
    }
    let seen = seen.lock().unwrap().clone();
    for (ai, k) in c.reject_every.iter().enumerate() {
        for t in 0..c.threads {
            for i in 0..c.records {
                let msg = format!("{}-{}", t, i);
                let want = if *k != 0 && i as usize % *k as usize == 0 { 0 } else { 1 };
                let got = seen.iter().filter(|(a, m)| *a == ai && *m == msg).count();
                obs.sub_evals += 1;
                ensure!(got == want, "C03:delivery", "{} threads logging at the same time: appender {} (rejects every {}th record) saw record {:?} {} time(s), its chain says {}", c.threads, ai, k, msg, got, want);
            }
        }
    }
    obs.nontrivial = true;
    obs.class("threads-inside-one-appender-at-the-same-time");
    Ok(())
}

// ---- the configuration-file route: filters with a memory ------------------------------------------------------------

/// Appenders and filters come out of a configuration document (YAML text -> RawConfig -> appenders_lossy with
/// user-defined kinds registered through Deserializers::insert). The filter kind `verif_every` has a memory: it rejects
/// every k-th record IT is consulted about. Several appenders declare it with identical settings - each appender's chain
/// decides for that appender alone, so each declaration is a filter of its own.
#[derive(Serialize, Deserialize, Debug, Clone)]
pub struct FileRoute {
    /// per appender: its filters (0: threshold info, 1: threshold warn, 2..=4: every 2nd / 3rd / 4th record)
    pub apps: Vec<Vec<u8>>,
    /// which appenders the logger "x" (not additive) has; the root has all of them
    pub on_x: Vec<bool>,
    /// records: (target is "x::y" rather than "other", level index)
    pub records: Vec<(bool, u8)>,
}

pub fn file_route_strategy() -> impl Strategy<Value = FileRoute> {
    (2usize..=4).prop_flat_map(|n| {
        (
            prop::collection::vec(prop::collection::vec(prop_oneof![1 => Just(0u8), 1 => Just(1u8), 4 => Just(2u8), 2 => Just(3u8), 1 => Just(4u8)], 0..=3), n),
            prop::collection::vec(prop::bool::ANY, n),
            prop::collection::vec((prop::bool::ANY, 0u8..5), 4..=24),
        )
            .prop_map(|(apps, on_x, records)| FileRoute { apps, on_x, records })
    })
}

static COLLECTED: Mutex<Vec<(u64, usize, String)>> = Mutex::new(Vec::new());
static ROUTE_RUN: std::sync::atomic::AtomicU64 = std::sync::atomic::AtomicU64::new(0);

#[derive(Debug)]
struct Collect {
    run: u64,
    id: usize,
}

impl Append for Collect {
    fn append(&self, record: &log::Record) -> anyhow::Result<()> {
        COLLECTED.lock().unwrap_or_else(|e| e.into_inner()).push((self.run, self.id, record.args().to_string()));
        Ok(())
    }
    fn flush(&self) {}
}

#[derive(serde::Deserialize)]
struct CollectConfig {
    run: u64,
    id: usize,
}

struct CollectDeserializer;

impl log4rs::config::Deserialize for CollectDeserializer {
    type Trait = dyn Append;
    type Config = CollectConfig;
    fn deserialize(&self, c: CollectConfig, _: &log4rs::config::Deserializers) -> anyhow::Result<Box<dyn Append>> {
        Ok(Box::new(Collect { run: c.run, id: c.id }))
    }
}

#[derive(Debug)]
struct Every {
    k: u64,
    seen: std::sync::atomic::AtomicU64,
}

impl Filter for Every {
    fn filter(&self, _: &log::Record) -> Response {
        let n = self.seen.fetch_add(1, std::sync::atomic::Ordering::SeqCst) + 1;
        if n % self.k == 0 {
            Response::Reject
        } else {
            Response::Neutral
        }
    }
}

#[derive(serde::Deserialize)]
struct EveryConfig {
    k: u64,
}

struct EveryDeserializer;

impl log4rs::config::Deserialize for EveryDeserializer {
    type Trait = dyn Filter;
    type Config = EveryConfig;
    fn deserialize(&self, c: EveryConfig, _: &log4rs::config::Deserializers) -> anyhow::Result<Box<dyn Filter>> {
        anyhow::ensure!(c.k >= 1, "verif_every: k must be positive");
        Ok(Box::new(Every { k: c.k, seen: Default::default() }))
    }
}

pub fn check_file_route(c: &FileRoute, obs: &mut Obs) -> CaseResult {
    let run = ROUTE_RUN.fetch_add(1, std::sync::atomic::Ordering::SeqCst) + 1 + ((std::process::id() as u64) << 32);
    let mut y = String::from("appenders:\n");
    for (i, fs) in c.apps.iter().enumerate() {
        y.push_str(&format!("  app{}:\n    kind: verif_collect\n    run: {}\n    id: {}\n", i, run, i));
        if !fs.is_empty() {
            y.push_str("    filters:\n");
            for f in fs {
                match f {
                    0 => y.push_str("      - kind: threshold\n        level: info\n"),
                    1 => y.push_str("      - kind: threshold\n        level: warn\n"),
                    k => y.push_str(&format!("      - kind: verif_every\n        k: {}\n", k)),
                }
            }
        }
    }
    let all: Vec<String> = (0..c.apps.len()).map(|i| format!("app{}", i)).collect();
    let on_x: Vec<String> = (0..c.apps.len()).filter(|i| c.on_x.get(*i).copied().unwrap_or(false)).map(|i| format!("app{}", i)).collect();
    y.push_str(&format!("root:\n  level: trace\n  appenders: [{}]\nloggers:\n  x:\n    level: trace\n    additive: false\n    appenders: [{}]\n", all.join(", "), on_x.join(", ")));
    let mut d = log4rs::config::Deserializers::default();
    d.insert("verif_collect", CollectDeserializer);
    d.insert("verif_every", EveryDeserializer);
    let built = catch(|| -> Result<Config, String> {
        let raw: log4rs::config::RawConfig = serde_yaml::from_str(&y).map_err(|e| format!("harness YAML: {}", e))?;
        let (apps, errs) = raw.appenders_lossy(&d);
        if !errs.is_empty() {
            return Err(format!("deserializing the appenders reported {:?}", errs));
        }
        Config::builder().appenders(apps).loggers(raw.loggers()).build(raw.root()).map_err(|e| e.to_string())
    });
    let config = match built {
        Err(p) => return fail("C03:panic", format!("loading the document panicked: {}", p)),
        Ok(Err(e)) => return fail("C03:harness", format!("{} :: {}", e, y)),
        Ok(Ok(cfg)) => cfg,
    };
    let logger = log4rs::Logger::new(config);
    // model: one memory per declared filter
    let mut seen: Vec<Vec<u64>> = c.apps.iter().map(|fs| vec![0; fs.len()]).collect();
    let mut want: Vec<Vec<String>> = vec![vec![]; c.apps.len()];
    for (n, (to_x, l)) in c.records.iter().enumerate() {
        let level = LEVELS[*l as usize % 5];
        let msg = format!("r{}", n);
        let target = if *to_x { "x::y" } else { "other" };
        if let Err(p) = catch(|| logger.log(&log::Record::builder().args(format_args!("{}", msg)).level(level).target(target).build())) {
            return fail("C03:panic", format!("log() panicked: {}", p));
        }
        for (i, fs) in c.apps.iter().enumerate() {
            if *to_x && !c.on_x.get(i).copied().unwrap_or(false) {
                continue;
            }
            let mut pass = true;
            for (j, f) in fs.iter().enumerate() {
                match f {
                    0 | 1 => {
                        if level > [log::Level::Info, log::Level::Warn][*f as usize] {
                            pass = false;
                        }
                    }
                    k => {
                        seen[i][j] += 1;
                        if seen[i][j] % *k as u64 == 0 {
                            pass = false;
                        }
                    }
                }
                if !pass {
                    break;
                }
            }
            if pass {
                want[i].push(msg.clone());
            }
        }
    }
    let mut got: Vec<Vec<String>> = vec![vec![]; c.apps.len()];
    {
        let mut g = COLLECTED.lock().unwrap_or_else(|e| e.into_inner());
        g.retain(|(r, id, m)| {
            if *r == run {
                if let Some(v) = got.get_mut(*id) {
                    v.push(m.clone());
                }
                false
            } else {
                true
            }
        });
    }
    obs.sub_evals += c.records.len() as u64;
    let shared_decl = c.apps.iter().enumerate().any(|(i, a)| a.iter().any(|f| *f >= 2 && c.apps.iter().enumerate().any(|(j, b)| j != i && b.contains(f))));
    obs.nontrivial = shared_decl;
    obs.class_if(shared_decl, "file-route:identical-stateful-filter-on-two-appenders");
    for i in 0..c.apps.len() {
        ensure!(got[i] == want[i], "C03:delivery", "configuration-file route, appender app{} (filters {:?}; 2..4 = rejects every k-th record it is consulted about): received {:?}, its own chain delivers {:?} :: {}", i, c.apps[i], got[i], want[i], y.replace('\n', "\\n"));
    }
    Ok(())
}

pub fn run(run: &Run) {
    run.run_replays::<FileRoute>("file-route", &check_file_route);
    run.search("file-route", run.tier.pick(400, 20_000), file_route_strategy(), &check_file_route);
    run.run_replays::<Concurrent>("concurrent", &check_concurrent);
    run.search("concurrent", run.tier.pick(24, 600), (2u8..=6, 10u8..=40, prop::collection::vec(prop_oneof![Just(0u8), 2u8..5], 1..=3)).prop_map(|(threads, records, reject_every)| Concurrent { threads, records, reject_every }), &check_concurrent);
    run.run_replays::<Case>("chains", &check);
    sweep(run);
    run.search("chains", run.tier.pick(20_000, 500_000), strategy(), &check);
}

pub fn replay(part: &str, case: serde_json::Value) -> Option<CaseResult> {
    match part {
        "chains" | "chains-exhaustive" => Some(check(&serde_json::from_value(case).ok()?, &mut Obs::default())),
        "file-route" => Some(check_file_route(&serde_json::from_value(case).ok()?, &mut Obs::default())),
        "concurrent" => Some(check_concurrent(&serde_json::from_value(case).ok()?, &mut Obs::default())),
        "threshold-table" => Some(check_truth(&serde_json::from_value(case).ok()?, &mut Obs::default())),
        _ => None,
    }
}

pub fn meta() -> EvidenceMeta {
    EvidenceMeta {
        level: "exploration",
        rule: "cases = 1-4 appenders on the root, each with a chain of 0-5 filters (scripted Accept/Neutral/Reject that log their consultation, real ThresholdFilters at generated levels wrapped to observe the consultation) and a scripted outcome (Ok / Err(tag)), root level generated, 1-5 records at generated levels; plus exhaustive sweeps (121 chains <= 4 x failing/healthy x position x companion; threshold truth table). Oracle per appender independently: filters consulted = chain prefix up to and including the first non-Neutral answer, delivered iff that answer is Accept or none exists, another appender's rejection/error never changes this, error handler receives exactly the tags of failing delivered appenders once each; no consultation for records the logger does not admit. Filters may answer by what the record says (message-dependent Accept/Neutral/Reject: records from one call site with one level do not share a verdict); failing appenders fail with plain errors or I/O errors of eight kinds (BrokenPipe, Interrupted, WouldBlock, ... bare or wrapped in context). Appender names of neighbours differ only in letter case. Part file-route: appenders and filters come out of a configuration document (user-defined kinds through Deserializers::insert); the filter kind verif_every rejects every k-th record it is consulted about and is declared with identical settings on several appenders - each appender receives what its own chain, with its own memory, delivers. Part concurrent: 2-6 threads log 10-40 records each through one logger whose appenders take a moment per record and reject every k-th record: every record is delivered to every appender exactly as its chain says. An appender may be a whole nested log4rs::Logger, or a foreign log::Log whose enabled() refuses everything while its log() records (attachment and chain alone decide delivery). In 15% of the cases the error handler panics after recording the error: every appender whose chain delivers has been served all the same. Chains may hold the library's ThresholdFilter unwrapped; in 30% of the cases every failing appender fails with the very same std::io::Error. Filters and appender references are attached through a mix of singular and bulk builder calls; in 15% of the cases the error handler of another logger panicked earlier on the thread (caught). non-trivial = >=2 appenders with different verdicts, or a failing appender before a healthy one, or an Accept before a Reject in one chain".into(),
        assumptions: vec!["filters and appenders are harness implementations (plus the real ThresholdFilter)".into()],
        mutants_caught: vec![],
    }
}
