//! Thin engine around proptest-as-a-library: seeding, counting, classification,
//! shrink -> replay file, known-finding matching, evidence writer, worker fan-out.

use proptest::strategy::Strategy;
use proptest::test_runner::{Config, RngSeed, TestCaseError, TestError, TestRunner};
use serde::{de::DeserializeOwned, Deserialize, Serialize};
use std::cell::{Cell, RefCell};
use std::collections::{BTreeMap, BTreeSet};
use std::fmt::Debug;
use std::panic::{self, AssertUnwindSafe};
use std::path::{Path, PathBuf};
use std::sync::atomic::{AtomicBool, Ordering};
use std::time::Instant;

/// Root of the verification tree: the directory of the `check` script that started us (a background
/// run from a snapshot writes its evidence and replays into the snapshot), /verif by default.
pub fn verif_dir() -> String {
    std::env::var("LV_VERIF_DIR").unwrap_or_else(|_| "/verif".to_string())
}

/// An oracle failure: a stable signature (what the known-findings matcher keys on)
/// and a human explanation.
#[derive(Debug, Clone, Serialize, Deserialize)]
pub struct Failure {
    pub sig: String,
    pub msg: String,
}

pub type CaseResult = Result<(), Failure>;

pub fn fail<T>(sig: impl Into<String>, msg: impl Into<String>) -> Result<T, Failure> {
    Err(Failure {
        sig: sig.into(),
        msg: msg.into(),
    })
}

#[macro_export]
macro_rules! ensure {
    ($cond:expr, $sig:expr, $($fmt:tt)+) => {
        if !($cond) {
            return Err($crate::engine::Failure { sig: ($sig).to_string(), msg: format!($($fmt)+) });
        }
    };
}

/// Per-case observations reported by the property closure.
#[derive(Default, Debug)]
pub struct Obs {
    pub nontrivial: bool,
    pub classes: Vec<String>,
    /// extra oracle evaluations performed inside this case (probes, steps, ...)
    pub sub_evals: u64,
    /// optional richer sample to record instead of the raw case
    pub sample: Option<serde_json::Value>,
}

impl Obs {
    pub fn class(&mut self, c: impl Into<String>) {
        self.classes.push(c.into());
    }
    pub fn class_if(&mut self, cond: bool, c: &str) {
        if cond {
            self.classes.push(c.to_string());
        }
    }
}

#[derive(Debug, Clone, Serialize, Deserialize)]
pub struct KnownFinding {
    pub property: String,
    pub signature: String,
    pub status: String, // "known" | "fixed"
    #[serde(default)]
    pub commit: Option<String>,
    pub what: String,
    /// replay file (relative to /verif) holding the concrete failing input
    #[serde(default)]
    pub replay: Option<String>,
}

#[derive(Debug, Clone, Serialize, Deserialize)]
pub struct ReplayFile {
    pub property: String,
    pub part: String,
    pub sig: String,
    pub msg: String,
    pub case: serde_json::Value,
}

#[derive(Debug, Default, Serialize, Deserialize)]
pub struct Stats {
    pub evaluations: u64,
    pub sub_evaluations: u64,
    pub nontrivial_hashes: BTreeSet<u64>,
    pub classes: BTreeMap<String, u64>,
    pub samples_nontrivial: Vec<serde_json::Value>,
    pub samples_trivial: Vec<serde_json::Value>,
    pub excluded_known: BTreeMap<String, u64>,
    pub parts: BTreeMap<String, u64>,
    pub exhaustive_spaces: Vec<String>,
    pub replays_run: u64,
    pub violations: u64,
    pub violation_lines: Vec<String>,
    pub notes: Vec<String>,
}

impl Stats {
    pub fn merge(&mut self, o: Stats) {
        self.evaluations += o.evaluations;
        self.sub_evaluations += o.sub_evaluations;
        self.nontrivial_hashes.extend(o.nontrivial_hashes);
        for (k, v) in o.classes {
            *self.classes.entry(k).or_default() += v;
        }
        for s in o.samples_nontrivial {
            if self.samples_nontrivial.len() < 3 {
                self.samples_nontrivial.push(s);
            }
        }
        for s in o.samples_trivial {
            if self.samples_trivial.len() < 1 {
                self.samples_trivial.push(s);
            }
        }
        for (k, v) in o.excluded_known {
            *self.excluded_known.entry(k).or_default() += v;
        }
        for (k, v) in o.parts {
            *self.parts.entry(k).or_default() += v;
        }
        for s in o.exhaustive_spaces {
            if !self.exhaustive_spaces.contains(&s) {
                self.exhaustive_spaces.push(s);
            }
        }
        self.replays_run += o.replays_run;
        self.violations += o.violations;
        self.violation_lines.extend(o.violation_lines);
        for n in o.notes {
            if !self.notes.contains(&n) {
                self.notes.push(n);
            }
        }
    }
}

#[derive(Clone, Copy, PartialEq, Eq, Debug)]
pub enum Tier {
    Quick,
    Thorough,
}

impl Tier {
    pub fn name(&self) -> &'static str {
        match self {
            Tier::Quick => "quick",
            Tier::Thorough => "thorough",
        }
    }
    pub fn pick<T>(&self, q: T, t: T) -> T {
        match self {
            Tier::Quick => q,
            Tier::Thorough => t,
        }
    }
}

pub struct Run {
    pub id: String,
    pub tier: Tier,
    pub seed: u64,
    /// (index, total) when running as one of several worker processes
    pub worker: (u32, u32),
    pub profile: String,
    pub stats: RefCell<Stats>,
    pub known: Vec<KnownFinding>,
    pub strict: bool,
    /// multiplier on the case budgets of `search`
    pub scale: u64,
    pub tmp: PathBuf,
    pub start: Instant,
}

pub fn fnv64(bytes: &[u8]) -> u64 {
    let mut h: u64 = 0xcbf29ce484222325;
    for b in bytes {
        h ^= *b as u64;
        h = h.wrapping_mul(0x100000001b3);
    }
    h
}

thread_local! {
    static LAST_PANIC: RefCell<Option<String>> = RefCell::new(None);
    static PANIC_COUNT: std::cell::Cell<u64> = std::cell::Cell::new(0);
}

/// How many panics have been raised on this thread so far (the hook counts them, whoever catches them): a panic that
/// the tested code raises and catches again by itself is still a panic - fatal under `panic = "abort"` or a hook
/// that aborts.
pub fn panics_on_this_thread() -> u64 {
    PANIC_COUNT.try_with(|c| c.get()).unwrap_or(0)
}
static HOOK_INSTALLED: AtomicBool = AtomicBool::new(false);
static HEARTBEAT: std::sync::atomic::AtomicU64 = std::sync::atomic::AtomicU64::new(0);

/// A worker that evaluates no case for `limit` is stuck (the tested code waits for something that never comes): that
/// is infrastructure trouble - exit 2 with a message - never a pass and never a violation.
pub fn start_progress_watchdog(what: String, limit: std::time::Duration) {
    std::thread::spawn(move || {
        let mut last = HEARTBEAT.load(Ordering::SeqCst);
        let mut since = std::time::Instant::now();
        loop {
            std::thread::sleep(std::time::Duration::from_secs(2));
            let now = HEARTBEAT.load(Ordering::SeqCst);
            if now != last {
                last = now;
                since = std::time::Instant::now();
            } else if since.elapsed() > limit {
                eprintln!("[lv] {}: no case finished for {:?} - the worker is stuck (hang): infrastructure trouble, not a violation", what, limit);
                std::process::exit(2);
            }
        }
    });
}
static LIBRARY_PANICS: std::sync::atomic::AtomicU64 = std::sync::atomic::AtomicU64::new(0);

/// Panics raised so far, on any thread, at a location inside the log4rs sources (a thread the library started on its
/// own - background rotation, the reloader - may die of one without anybody seeing it).
pub fn library_panics_total() -> u64 {
    LIBRARY_PANICS.load(Ordering::SeqCst)
}

/// Installs a quiet panic hook which records the message (per thread) instead of printing.
pub fn install_quiet_panic_hook() {
    if HOOK_INSTALLED.swap(true, Ordering::SeqCst) {
        return;
    }
    panic::set_hook(Box::new(|info| {
        let msg = if let Some(s) = info.payload().downcast_ref::<&str>() {
            s.to_string()
        } else if let Some(s) = info.payload().downcast_ref::<String>() {
            s.clone()
        } else {
            "<non-string panic>".to_string()
        };
        let loc = info
            .location()
            .map(|l| format!("{}:{}", l.file(), l.line()))
            .unwrap_or_default();
        // (try_with: the hook may run while the thread's locals are being destroyed)
        let _ = LAST_PANIC.try_with(|p| *p.borrow_mut() = Some(format!("{} @ {}", msg, loc)));
        let _ = PANIC_COUNT.try_with(|c| c.set(c.get() + 1));
        if info.location().map_or(false, |l| {
            let f = l.file();
            ["/src/append/", "/src/encode/", "/src/config/", "/src/filter/", "/src/lib.rs", "/src/priv_io.rs"].iter().any(|m| f.contains(m)) && !f.contains("harness")
        }) {
            LIBRARY_PANICS.fetch_add(1, Ordering::SeqCst);
        }
        if std::env::var_os("LV_SHOW_PANICS").is_some() {
            eprintln!("[panic] {} @ {}", msg, loc);
        }
    }));
}

/// Runs `f`, converting a panic into `Err(message @ location)`.
pub fn catch<T>(f: impl FnOnce() -> T) -> Result<T, String> {
    let _ = LAST_PANIC.try_with(|p| *p.borrow_mut() = None);
    match panic::catch_unwind(AssertUnwindSafe(f)) {
        Ok(v) => Ok(v),
        Err(e) => {
            let from_hook = LAST_PANIC.try_with(|p| p.borrow_mut().take()).ok().flatten();
            let msg = from_hook.unwrap_or_else(|| {
                if let Some(s) = e.downcast_ref::<&str>() {
                    s.to_string()
                } else if let Some(s) = e.downcast_ref::<String>() {
                    s.clone()
                } else {
                    "<panic>".to_string()
                }
            });
            Err(msg)
        }
    }
}

fn truncate_json(v: serde_json::Value) -> serde_json::Value {
    let s = v.to_string();
    if s.len() > 3000 {
        let mut cut = 3000;
        while !s.is_char_boundary(cut) {
            cut -= 1;
        }
        serde_json::Value::String(format!("{}…(truncated, {} bytes)", &s[..cut], s.len()))
    } else {
        v
    }
}

impl Run {
    pub fn new(id: &str, tier: Tier, seed: u64, worker: (u32, u32), profile: &str) -> Run {
        let known = load_known();
        let base = if Path::new("/dev/shm").is_dir() {
            "/dev/shm"
        } else {
            "/tmp"
        };
        let tmp = std::env::var("VERIF_TMP")
            .map(PathBuf::from)
            .unwrap_or_else(|_| PathBuf::from(format!("{}/lv-{}", base, std::process::id())));
        std::fs::create_dir_all(&tmp).expect("create VERIF_TMP");
        Run {
            id: id.to_string(),
            tier,
            seed,
            worker,
            profile: profile.to_string(),
            stats: RefCell::new(Stats::default()),
            known: known.into_iter().filter(|k| k.property == id).collect(),
            strict: false,
            scale: 1,
            tmp,
            start: Instant::now(),
        }
    }

    /// Seed for a named part: a pure function of VERIF_SEED, property, part and worker index.
    pub fn part_seed(&self, part: &str) -> u64 {
        let h = fnv64(format!("{}/{}", self.id, part).as_bytes());
        (self.seed.wrapping_mul(31).wrapping_add(self.worker.0 as u64))
            .wrapping_mul(0x9E3779B97F4A7C15)
            ^ h
    }

    /// Share of `total` cases for this worker.
    pub fn share(&self, total: u64) -> u64 {
        let (k, w) = (self.worker.0 as u64, self.worker.1 as u64);
        let base = total / w;
        let extra = if k < total % w { 1 } else { 0 };
        base + extra
    }

    pub fn is_known(&self, sig: &str) -> bool {
        !self.strict
            && self
                .known
                .iter()
                .any(|k| k.status == "known" && k.signature == sig)
    }

    pub fn note(&self, s: impl Into<String>) {
        let s = s.into();
        let mut st = self.stats.borrow_mut();
        if !st.notes.contains(&s) {
            st.notes.push(s);
        }
    }

    pub fn exhaustive(&self, space: impl Into<String>) {
        self.stats.borrow_mut().exhaustive_spaces.push(space.into());
    }

    fn record(&self, part: &str, case_json: impl FnOnce() -> serde_json::Value, obs: Obs) {
        HEARTBEAT.fetch_add(1, Ordering::SeqCst);
        let mut st = self.stats.borrow_mut();
        st.evaluations += 1;
        st.sub_evaluations += obs.sub_evals;
        *st.parts.entry(part.to_string()).or_default() += 1;
        for c in &obs.classes {
            *st.classes.entry(format!("{}:{}", part, c)).or_default() += 1;
        }
        let need_sample = if obs.nontrivial {
            st.samples_nontrivial.len() < 3
        } else {
            st.samples_trivial.len() < 1
        };
        if obs.nontrivial || need_sample {
            let j = case_json();
            if obs.nontrivial {
                let h = fnv64(format!("{}|{}", part, j).as_bytes());
                st.nontrivial_hashes.insert(h);
            }
            if need_sample {
                let s = serde_json::json!({"part": part, "case": truncate_json(obs.sample.unwrap_or(j))});
                if obs.nontrivial {
                    st.samples_nontrivial.push(s);
                } else {
                    st.samples_trivial.push(s);
                }
            }
        }
    }

    fn write_replay<V: Serialize>(&self, part: &str, value: &V, f: &Failure) -> PathBuf {
        let case = serde_json::to_value(value).unwrap_or(serde_json::Value::Null);
        let rf = ReplayFile {
            property: self.id.clone(),
            part: part.to_string(),
            sig: f.sig.clone(),
            msg: f.msg.clone(),
            case,
        };
        let text = serde_json::to_string_pretty(&rf).unwrap();
        let dir = PathBuf::from(format!("{}/replays/{}", verif_dir(), self.id));
        let _ = std::fs::create_dir_all(&dir);
        let path = dir.join(format!("fail-{:016x}.json", fnv64(text.as_bytes())));
        let _ = std::fs::write(&path, text);
        path
    }

    pub fn report_violation<V: Serialize>(&self, part: &str, value: &V, f: &Failure) {
        let path = self.write_replay(part, value, f);
        let line = format!("VIOLATION property={} replay={}", self.id, path.display());
        println!("{}", line);
        println!("  part={} sig={} :: {}", part, f.sig, f.msg);
        let mut st = self.stats.borrow_mut();
        st.violations += 1;
        st.violation_lines.push(format!("{} [{}] {}", line, f.sig, f.msg));
    }

    /// Evaluate one explicit case (exhaustive sweeps, replays of committed regressions).
    /// Returns true when the case passed (or matched a known finding).
    pub fn eval_one<V: Serialize + Debug>(
        &self,
        part: &str,
        value: &V,
        f: &dyn Fn(&V, &mut Obs) -> CaseResult,
    ) -> bool {
        HEARTBEAT.fetch_add(1, Ordering::SeqCst);
        let mut obs = Obs::default();
        let r = match catch(|| f(value, &mut obs)) {
            Ok(r) => r,
            Err(p) => Err(Failure {
                sig: format!("{}:harness-panic", self.id),
                msg: p,
            }),
        };
        match r {
            Ok(()) => {
                self.record(part, || serde_json::to_value(value).unwrap(), obs);
                true
            }
            Err(fl) => {
                if self.is_known(&fl.sig) {
                    let mut st = self.stats.borrow_mut();
                    st.evaluations += 1;
                    *st.excluded_known.entry(fl.sig.clone()).or_default() += 1;
                    true
                } else {
                    self.report_violation(part, value, &fl);
                    false
                }
            }
        }
    }

    /// Random/structured search over `strat` with shrinking; all randomness comes from proptest.
    pub fn search<S>(
        &self,
        part: &str,
        cases: u64,
        strat: S,
        f: &dyn Fn(&S::Value, &mut Obs) -> CaseResult,
    ) -> bool
    where
        S: Strategy,
        S::Value: Serialize + Debug,
    {
        let cases = self.share(cases.saturating_mul(self.scale.max(1)));
        if cases == 0 {
            return true;
        }
        let config = Config {
            cases: cases.min(u32::MAX as u64) as u32,
            failure_persistence: None,
            max_shrink_iters: 4000,
            max_global_rejects: 65536,
            max_local_rejects: u32::MAX,
            rng_seed: RngSeed::Fixed(self.part_seed(part)),
            ..Config::default()
        };
        let mut runner = TestRunner::new(config);
        let failed = Cell::new(false);
        let last_failure: RefCell<Option<Failure>> = RefCell::new(None);
        let result = runner.run(&strat, |value| {
            // (also while shrinking: a worker busy minimising a failure is not stuck)
            HEARTBEAT.fetch_add(1, Ordering::SeqCst);
            let mut obs = Obs::default();
            let r = match catch(|| f(&value, &mut obs)) {
                Ok(r) => r,
                Err(p) => Err(Failure {
                    sig: format!("{}:harness-panic", self.id),
                    msg: p,
                }),
            };
            match r {
                Ok(()) => {
                    if !failed.get() {
                        self.record(part, || serde_json::to_value(&value).unwrap(), obs);
                    }
                    Ok(())
                }
                Err(fl) => {
                    if self.is_known(&fl.sig) {
                        if !failed.get() {
                            let mut st = self.stats.borrow_mut();
                            st.evaluations += 1;
                            *st.excluded_known.entry(fl.sig.clone()).or_default() += 1;
                        }
                        Ok(())
                    } else {
                        failed.set(true);
                        let reason = format!("[{}] {}", fl.sig, fl.msg);
                        *last_failure.borrow_mut() = Some(fl);
                        Err(TestCaseError::fail(reason))
                    }
                }
            }
        });
        match result {
            Ok(()) => true,
            Err(TestError::Fail(_reason, value)) => {
                // re-evaluate the shrunk value to obtain its own signature/message
                let mut obs = Obs::default();
                let fl = match catch(|| f(&value, &mut obs)) {
                    Ok(Err(fl)) => fl,
                    Ok(Ok(())) => last_failure.borrow().clone().unwrap_or(Failure {
                        sig: format!("{}:flaky", self.id),
                        msg: "shrunk case passed on re-evaluation".into(),
                    }),
                    Err(p) => Failure {
                        sig: format!("{}:harness-panic", self.id),
                        msg: p,
                    },
                };
                self.report_violation(part, &value, &fl);
                false
            }
            Err(TestError::Abort(reason)) => {
                self.note(format!("part {} aborted by proptest: {}", part, reason));
                eprintln!("[lv] part {} aborted: {}", part, reason);
                true
            }
        }
    }

    /// Re-runs the committed replays of this property for `part` (seconds-long regression tier).
    pub fn run_replays<V>(&self, part: &str, f: &dyn Fn(&V, &mut Obs) -> CaseResult)
    where
        V: Serialize + DeserializeOwned + Debug,
    {
        if self.worker.0 != 0 {
            return;
        }
        let dir = PathBuf::from(format!("{}/replays/{}", verif_dir(), self.id));
        let mut files: Vec<PathBuf> = match std::fs::read_dir(&dir) {
            Ok(rd) => rd.filter_map(|e| e.ok().map(|e| e.path())).collect(),
            Err(_) => return,
        };
        files.sort();
        for p in files {
            let name = p.file_name().unwrap().to_string_lossy().to_string();
            // fail-*.json are run-time artefacts of a violation; committed regressions are reg-*.json / known-*.json
            if !(name.starts_with("reg-") || name.starts_with("known-")) {
                continue;
            }
            let Ok(text) = std::fs::read_to_string(&p) else { continue };
            let Ok(rf) = serde_json::from_str::<ReplayFile>(&text) else { continue };
            if rf.part != part {
                continue;
            }
            let Ok(v) = serde_json::from_value::<V>(rf.case.clone()) else {
                self.note(format!("replay {} no longer deserialises", name));
                continue;
            };
            self.stats.borrow_mut().replays_run += 1;
            self.eval_one(part, &v, f);
        }
    }

    pub fn violations(&self) -> u64 {
        self.stats.borrow().violations
    }
}

pub fn load_known() -> Vec<KnownFinding> {
    let p = format!("{}/known_findings.json", verif_dir());
    match std::fs::read_to_string(&p) {
        Ok(t) => serde_json::from_str(&t).unwrap_or_else(|e| {
            eprintln!("[lv] cannot parse {}: {}", p, e);
            std::process::exit(2)
        }),
        Err(_) => vec![],
    }
}

pub struct EvidenceMeta {
    pub level: &'static str,
    pub rule: String,
    pub assumptions: Vec<String>,
    pub mutants_caught: Vec<String>,
}

pub fn write_evidence(id: &str, tier: Tier, seed: u64, wall_s: f64, st: &Stats, meta: &EvidenceMeta) {
    let mut samples: Vec<serde_json::Value> = st.samples_nontrivial.clone();
    samples.extend(st.samples_trivial.iter().cloned());
    let mut coverage = serde_json::json!({
        "evaluations": st.evaluations,
        "distinct_nontrivial": st.nontrivial_hashes.len(),
        "rule": meta.rule,
        "samples": samples,
        "oracle_evaluations_inside_cases": st.sub_evaluations,
        "parts": st.parts,
        "classes": st.classes,
        "excluded_known": st.excluded_known,
        "replays_run": st.replays_run,
        "mutants_caught": meta.mutants_caught,
        "notes": st.notes,
    });
    if !st.exhaustive_spaces.is_empty() {
        coverage["exhaustive"] = serde_json::Value::Bool(true);
        coverage["exhaustive_space"] = serde_json::json!(st.exhaustive_spaces);
    }
    if st.violations > 0 {
        coverage["violation_lines"] = serde_json::json!(st.violation_lines);
    }
    // seeded changes (sub-agent mutants kept under seeded/) that this property's check was validated against
    let mut validated: Vec<String> = meta.mutants_caught.clone();
    if let Ok(rd) = std::fs::read_dir(format!("{}/seeded", verif_dir())) {
        let mut dirs: Vec<_> = rd.flatten().map(|e| e.path()).collect();
        dirs.sort();
        for d in dirs {
            let Ok(t) = std::fs::read_to_string(d.join("meta.json")) else { continue };
            let Ok(m) = serde_json::from_str::<serde_json::Value>(&t) else { continue };
            for c in m["caught_by"].as_array().cloned().unwrap_or_default() {
                if let Some(c) = c.as_str() {
                    if c.starts_with(&format!("{}:", id)) {
                        validated.push(format!("{} -> {}", d.file_name().unwrap().to_string_lossy(), &c[id.len() + 1..]));
                    }
                }
            }
        }
    }
    coverage["mutants_caught"] = serde_json::json!(validated);
    let ev = serde_json::json!({
        "property_id": id,
        "tier": tier.name(),
        "seed": seed,
        "level": meta.level,
        "coverage": coverage,
        "assumptions": meta.assumptions,
        "wall_s": wall_s,
        "violations": st.violations,
    });
    let dir = format!("{}/evidence", verif_dir());
    let _ = std::fs::create_dir_all(&dir);
    let path = format!("{}/{}.json", dir, id);
    std::fs::write(&path, serde_json::to_string_pretty(&ev).unwrap()).expect("write evidence");
}

/// Monotone index mapping for shrinking-friendly choices.
pub fn pick<'a, T>(items: &'a [T], idx: u16) -> &'a T {
    &items[(idx as usize * items.len()) >> 16]
}

/// A fresh scratch directory below the run's tmp dir.
pub fn scratch(run_tmp: &Path, tag: &str) -> PathBuf {
    use std::sync::atomic::AtomicU64;
    static N: AtomicU64 = AtomicU64::new(0);
    let n = N.fetch_add(1, Ordering::SeqCst);
    let p = run_tmp.join(format!("{}-{}", tag, n));
    let _ = std::fs::remove_dir_all(&p);
    std::fs::create_dir_all(&p).expect("scratch dir");
    p
}
