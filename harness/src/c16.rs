//! C16 — time trigger schedules the right boundary, fires once per boundary, never panics.
//! One worker process per time zone (TZ is set before chrono is first used).

use crate::child::*;
use crate::engine::*;
use crate::ensure;
use crate::roll::*;
use chrono::{DateTime, Local, TimeZone};
use log4rs::append::rolling_file::policy::compound::trigger::time::{verif as clock, TimeTrigger, TimeTriggerConfig, TimeTriggerInterval};
use log4rs::append::rolling_file::policy::compound::trigger::Trigger;
use log4rs::append::rolling_file::policy::Policy;
use log4rs::append::rolling_file::LogFile;
use proptest::prelude::*;
use serde::{Deserialize, Serialize};
use std::collections::HashMap;
use std::path::Path;
use std::sync::{Arc, Mutex};
use std::time::Duration;

pub const ZONES: [&str; 17] = [
    "UTC0",
    "<+0545>-5:45",
    "<-0330>3:30",
    "EST5EDT,M3.2.0,M11.1.0",
    "GMT0BST,M3.5.0/1,M10.5.0",
    "AEST-10AEDT,M10.1.0,M4.1.0/3",
    "<+1030>-10:30<+11>-11,M10.1.0,M4.1.0",
    "<-03>3<-02>,M10.3.0/0,M2.3.0/0",
    // local mean time: the offset is not a whole number of minutes (+0:19:32, Amsterdam before 1937)
    "LMT-0:19:32",
    // named zones (historical irregularities); used by the thorough tier when /usr/share/zoneinfo exists
    "America/New_York",
    "Europe/Berlin",
    "America/Sao_Paulo",
    "Asia/Kathmandu",
    "Pacific/Apia",
    "Africa/Casablanca",
    "Australia/Lord_Howe",
    "America/Havana",
];

// ---- proleptic Gregorian arithmetic from first principles (no chrono) -------------------------------

pub fn days_from_civil(y: i64, m: i64, d: i64) -> i64 {
    let y = if m <= 2 { y - 1 } else { y };
    let era = if y >= 0 { y } else { y - 399 } / 400;
    let yoe = y - era * 400;
    let mp = (m + 9) % 12;
    let doy = (153 * mp + 2) / 5 + d - 1;
    let doe = yoe * 365 + yoe / 4 - yoe / 100 + doy;
    era * 146097 + doe - 719468
}

pub fn civil_from_days(z: i64) -> (i64, i64, i64) {
    let z = z + 719468;
    let era = if z >= 0 { z } else { z - 146096 } / 146097;
    let doe = z - era * 146097;
    let yoe = (doe - doe / 1460 + doe / 36524 - doe / 146096) / 365;
    let y = yoe + era * 400;
    let doy = doe - (365 * yoe + yoe / 4 - yoe / 100);
    let mp = (5 * doy + 2) / 153;
    let d = doy - (153 * mp + 2) / 5 + 1;
    let m = if mp < 10 { mp + 3 } else { mp - 9 };
    (if m <= 2 { y + 1 } else { y }, m, d)
}

fn is_leap(y: i64) -> bool {
    (y % 4 == 0 && y % 100 != 0) || y % 400 == 0
}

/// 0 = Monday
fn weekday(days: i64) -> i64 {
    (days + 3).rem_euclid(7)
}

fn weeks_in_iso_year(y: i64) -> i64 {
    let p = |y: i64| (y + y.div_euclid(4) - y.div_euclid(100) + y.div_euclid(400)).rem_euclid(7);
    if p(y) == 4 || p(y - 1) == 3 {
        53
    } else {
        52
    }
}

/// (iso year, iso week 1-based)
fn iso_week(days: i64) -> (i64, i64) {
    let (y, _, _) = civil_from_days(days);
    let ordinal = days - days_from_civil(y, 1, 1) + 1;
    let wd = weekday(days) + 1;
    let w = (ordinal - wd + 10) / 7;
    if w < 1 {
        (y - 1, weeks_in_iso_year(y - 1))
    } else if w > weeks_in_iso_year(y) {
        (y + 1, 1)
    } else {
        (y, w)
    }
}

fn add_months(y: i64, m0: i64, add: i64) -> (i64, i64) {
    let t = y * 12 + m0 + add;
    (t.div_euclid(12), t.rem_euclid(12))
}

#[derive(Serialize, Deserialize, Debug, Clone, Copy, PartialEq)]
pub enum Unit {
    Second,
    Minute,
    Hour,
    Day,
    Week,
    Month,
    Year,
}
pub const UNITS: [Unit; 7] = [Unit::Second, Unit::Minute, Unit::Hour, Unit::Day, Unit::Week, Unit::Month, Unit::Year];

pub fn interval(u: Unit, n: i64) -> TimeTriggerInterval {
    match u {
        Unit::Second => TimeTriggerInterval::Second(n),
        Unit::Minute => TimeTriggerInterval::Minute(n),
        Unit::Hour => TimeTriggerInterval::Hour(n),
        Unit::Day => TimeTriggerInterval::Day(n),
        Unit::Week => TimeTriggerInterval::Week(n),
        Unit::Month => TimeTriggerInterval::Month(n),
        Unit::Year => TimeTriggerInterval::Year(n),
    }
}

/// Reference schedule in "local seconds" (unix + offset, i.e. wall-clock arithmetic as if the offset
/// never changed). Returns (start of the current unit, acceptable results).
pub fn reference(l: i64, unit: Unit, n: i64, modulate: bool) -> (i64, Vec<i64>) {
    let day = l.div_euclid(86400);
    let sod = l.rem_euclid(86400);
    let (y, m, d) = civil_from_days(day);
    let _ = d;
    match unit {
        Unit::Second | Unit::Minute | Unit::Hour => {
            let (size, per_period) = match unit {
                Unit::Second => (1, 60),
                Unit::Minute => (60, 60),
                _ => (3600, 24),
            };
            let start = l - l.rem_euclid(size);
            if !modulate {
                return (start, vec![start + n * size]);
            }
            let period = size * per_period;
            let pstart = l - l.rem_euclid(period);
            let idx = (l - pstart) / size;
            let next = (idx / n + 1) * n;
            let b = pstart + next * size;
            let a = if next >= per_period { pstart + period } else { b };
            (start, vec![a, b])
        }
        Unit::Day => {
            let start = l - sod;
            if !modulate {
                return (start, vec![start + n * 86400]);
            }
            let jan1 = days_from_civil(y, 1, 1);
            let idx = day - jan1;
            let len = if is_leap(y) { 366 } else { 365 };
            let next = (idx / n + 1) * n;
            let b = (jan1 + next) * 86400;
            let a = if next >= len { days_from_civil(y + 1, 1, 1) * 86400 } else { b };
            (start, vec![a, b])
        }
        Unit::Week => {
            let monday = day - weekday(day);
            let start = monday * 86400;
            if !modulate {
                return (start, vec![start + n * 7 * 86400]);
            }
            let (iy, w) = iso_week(day);
            let idx = w - 1;
            let next = (idx / n + 1) * n;
            let b = (monday + (next - idx) * 7) * 86400;
            let len = weeks_in_iso_year(iy);
            let a = if next >= len { (monday + (len - idx) * 7) * 86400 } else { b };
            (start, vec![a, b])
        }
        Unit::Month => {
            let start = days_from_civil(y, m, 1) * 86400;
            let m0 = m - 1;
            if !modulate {
                let (ny, nm0) = add_months(y, m0, n);
                return (start, vec![days_from_civil(ny, nm0 + 1, 1) * 86400]);
            }
            let next = (m0 / n + 1) * n;
            let (by, bm0) = add_months(y, 0, next);
            let b = days_from_civil(by, bm0 + 1, 1) * 86400;
            let a = if next >= 12 { days_from_civil(y + 1, 1, 1) * 86400 } else { b };
            (start, vec![a, b])
        }
        Unit::Year => {
            let start = days_from_civil(y, 1, 1) * 86400;
            if !modulate {
                return (start, vec![days_from_civil(y + n, 1, 1) * 86400]);
            }
            let next = (y / n + 1) * n;
            (start, vec![days_from_civil(next, 1, 1) * 86400])
        }
    }
}

// ---- zone knowledge (offsets come from chrono; used for preconditions and instant construction) -----

pub fn offset_at(unix: i64) -> i64 {
    Local.timestamp_opt(unix, 0).unwrap().offset().local_minus_utc() as i64
}

thread_local! {
    static TRANSITIONS: std::cell::RefCell<HashMap<i64, Vec<i64>>> = std::cell::RefCell::new(HashMap::new());
}

/// UTC instants (first second of the new offset) of the offset changes in civil year `y`.
pub fn transitions(y: i64) -> Vec<i64> {
    TRANSITIONS.with(|t| {
        if let Some(v) = t.borrow().get(&y) {
            return v.clone();
        }
        let mut out = vec![];
        let start = days_from_civil(y, 1, 1) * 86400;
        let end = days_from_civil(y + 1, 1, 1) * 86400;
        let mut a = start;
        let mut oa = offset_at(a);
        while a < end {
            let b = (a + 86400).min(end);
            let ob = offset_at(b);
            if ob != oa {
                // bisect to the second
                let (mut lo, mut hi) = (a, b);
                while hi - lo > 1 {
                    let mid = (lo + hi) / 2;
                    if offset_at(mid) == oa {
                        lo = mid;
                    } else {
                        hi = mid;
                    }
                }
                out.push(hi);
            }
            a = b;
            oa = ob;
        }
        t.borrow_mut().insert(y, out.clone());
        out
    })
}

/// unix seconds of a local civil time (resolved with the offset in force there; exact away from transitions)
fn unix_of_local(local_secs: i64) -> i64 {
    let o1 = offset_at(local_secs);
    let u = local_secs - o1;
    let o2 = offset_at(u);
    if o2 != o1 {
        local_secs - o2
    } else {
        u
    }
}

// ---- layer 1: the schedule function -----------------------------------------------------------------------

#[derive(Serialize, Deserialize, Debug, Clone)]
pub struct Case {
    pub zone: String,
    pub unix: i64,
    pub nanos: u32,
    pub unit: Unit,
    pub n: i64,
    pub modulate: bool,
    pub feature: String,
}

#[derive(Debug, Clone)]
struct RawCase {
    feature: u8,
    year: i64,
    a: u16,
    b: u16,
    delta: i64,
    nanos: u32,
    unit: u8,
    n: i64,
    modulate: bool,
}

fn raw_strategy() -> impl Strategy<Value = RawCase> {
    (
        0u8..12,
        1970i64..=2100,
        any::<u16>(),
        any::<u16>(),
        prop_oneof![6 => -2i64..=2, 1 => -3700i64..=3700],
        prop_oneof![3 => Just(0u32), 1 => Just(1), 1 => Just(999_999_999), 1 => 0u32..1_000_000_000],
        0u8..7,
        prop_oneof![12 => 1i64..=60, 3 => prop::sample::select(vec![61i64, 100, 365, 366, 1000, 4096, 10_000]), 1 => 61i64..10_000],
        prop::bool::ANY,
    )
        .prop_map(|(feature, year, a, b, delta, nanos, unit, n, modulate)| RawCase { feature, year, a, b, delta, nanos, unit, n, modulate })
}

fn build_case(zone: &str, r: &RawCase) -> Case {
    let y = r.year;
    let month = 1 + ((r.a as i64 * 12) >> 16);
    let dim = |y: i64, m: i64| -> i64 {
        match m {
            2 => if is_leap(y) { 29 } else { 28 },
            4 | 6 | 9 | 11 => 30,
            _ => 31,
        }
    };
    let dom = 1 + ((r.b as i64 * dim(y, month)) >> 16);
    let hour = (r.b as i64 * 24) >> 16;
    let minute = (r.a as i64 * 60) >> 16;
    let (name, local): (&str, i64) = match r.feature {
        0 => ("second-boundary", days_from_civil(y, month, dom) * 86400 + hour * 3600 + minute * 60 + ((r.a ^ r.b) as i64 % 60)),
        1 => ("minute-boundary", days_from_civil(y, month, dom) * 86400 + hour * 3600 + minute * 60),
        2 => ("hour-boundary", days_from_civil(y, month, dom) * 86400 + hour * 3600),
        3 => ("day-boundary", days_from_civil(y, month, dom) * 86400),
        4 => {
            let d = days_from_civil(y, month, dom);
            ("week-boundary", (d - weekday(d)) * 86400)
        }
        5 => ("month-boundary", days_from_civil(y, month, 1) * 86400),
        6 => ("year-boundary", days_from_civil(y, 1, 1) * 86400),
        7 => {
            // Feb 28/29 and Mar 1 of leap and non-leap years
            let pick = (r.a as i64 * 3) >> 16;
            let d = match pick {
                0 => days_from_civil(y, 2, 28),
                1 => days_from_civil(y, 3, 1) - 1,
                _ => days_from_civil(y, 3, 1),
            };
            ("leap-day-region", d * 86400 + if r.b & 1 == 0 { 0 } else { 86399 })
        }
        8 => ("dec-31", days_from_civil(y, 12, 31) * 86400 + if r.b & 1 == 0 { 0 } else { 86399 }),
        9 => {
            // a year with ISO week 53 (search forward)
            let mut yy = y;
            while weeks_in_iso_year(yy) != 53 {
                yy += 1;
            }
            let d = days_from_civil(yy, 12, 28) + ((r.a as i64 * 10) >> 16);
            ("iso-week-53-region", d * 86400 + hour * 3600)
        }
        10 => ("dst-transition", i64::MIN),
        _ => ("uniform", days_from_civil(y, month, dom) * 86400 + hour * 3600 + minute * 60 + (r.b as i64 % 60)),
    };
    let mut feature = name.to_string();
    let unix = if local == i64::MIN {
        let ts = transitions(y);
        if ts.is_empty() {
            feature = "uniform(no-transition-in-year)".into();
            unix_of_local(days_from_civil(y, month, dom) * 86400 + hour * 3600 + minute * 60) + r.delta
        } else {
            let t = *pick(&ts[..], r.a);
            // inside +-1 h around the transition, dense at the edge
            t + match r.b % 4 {
                0 => r.delta,
                1 => r.delta - 3600,
                2 => r.delta + 3600,
                _ => (r.b as i64 % 7200) - 3600,
            }
        }
    } else {
        unix_of_local(local) + r.delta
    };
    Case { zone: zone.to_string(), unix, nanos: r.nanos, unit: UNITS[r.unit as usize % 7], n: r.n, modulate: r.modulate, feature }
}

pub fn strategy(zone: String) -> impl Strategy<Value = Case> {
    raw_strategy().prop_map(move |r| build_case(&zone, &r))
}

pub fn panic_sig(unit: Unit, msg: &str) -> String {
    let u = format!("{:?}", unit);
    if msg.contains("Ambiguous local time") {
        format!("C16:panic:local-ambiguous:{}", u)
    } else if msg.contains("No such local time") {
        format!("C16:panic:local-gap:{}", u)
    } else if msg.contains("out of bounds") || msg.contains("overflow") {
        format!("C16:panic:delta-overflow:{}", u)
    } else if msg.contains("PoisonError") || msg.contains("poisoned") {
        "C16:panic:poisoned".to_string()
    } else if msg.contains("divide by zero") || msg.contains("remainder with a divisor of zero") {
        format!("C16:panic:zero-divisor:{}", u)
    } else {
        format!("C16:panic:other:{}", u)
    }
}

fn same_zone(case_zone: &str) -> bool {
    std::env::var("TZ").map(|z| z == case_zone).unwrap_or(false)
}

pub fn check(case: &Case, obs: &mut Obs) -> CaseResult {
    if !same_zone(&case.zone) {
        return fail("C16:harness:wrong-zone", format!("case for zone {:?} evaluated in a process with TZ={:?}", case.zone, std::env::var("TZ")));
    }
    let now: DateTime<Local> = Local.timestamp_opt(case.unix, case.nanos).unwrap();
    let iv = interval(case.unit, case.n);
    let res = match catch(|| TimeTrigger::verif_get_next_time(now, iv, case.modulate)) {
        Ok(r) => r,
        Err(p) => return fail(panic_sig(case.unit, &p), format!("TZ={:?}: scheduling from {} ({} ns) with {:?} x{} modulate={} panicked: {}", case.zone, now, case.nanos, case.unit, case.n, case.modulate, p)),
    };
    ensure!(res > now, "C16:not-in-future", "TZ={:?}: next({}, {:?} x{}, modulate={}) = {} is not strictly after now", case.zone, now, case.unit, case.n, case.modulate, res);
    // an interval whose end chrono cannot represent never elapses: only "no panic" and "in the future" apply
    if case.n > 10_000_000 {
        // the trigger object itself (built through the deserializer, as a configuration file would) and its
        // Debug rendering must cope with the far-future schedule as well
        let lit = format!("{} {}", case.n, unit_word(case.unit));
        let built = catch(|| {
            let cfg: TimeTriggerConfig = serde_json::from_value(serde_json::json!({"interval": lit, "modulate": case.modulate, "max_random_delay": 3600})).map_err(|e| e.to_string())?;
            clock::set_now(Some((case.unix, case.nanos)));
            let t = TimeTrigger::new(cfg);
            let d = format!("{:?}", t);
            clock::set_now(None);
            Ok::<usize, String>(d.len())
        });
        clock::set_now(None);
        if let Err(p) = built {
            return fail(panic_sig(case.unit, &p), format!("TZ={:?}: building/printing a trigger with interval {:?} panicked: {}", case.zone, lit, p));
        }
        // an interval of n units cannot elapse much before n - 1 units have passed (minus the enclosing period
        // for modulated schedules); what chrono cannot represent must be scheduled "never" (far future)
        let unit_lower: i128 = match case.unit {
            Unit::Second => 1,
            Unit::Minute => 60,
            Unit::Hour => 3600,
            Unit::Day => 86_400,
            Unit::Week => 604_800,
            Unit::Month => 28 * 86_400,
            Unit::Year => 365 * 86_400,
        };
        let far: i128 = 250_000 * 365 * 86_400;
        let bound = ((case.n as i128 - 1) * unit_lower).min(far) - 400 * 86_400;
        let ahead = res.timestamp() as i128 - case.unix as i128;
        ensure!(
            ahead >= bound,
            format!("C16:extreme-too-early:{:?}", case.unit),
            "TZ={:?}: next({}, {:?} x{}, modulate={}) = {}: only {} s ahead, an interval of that length cannot elapse before {} s", case.zone, now, case.unit, case.n, case.modulate, res, ahead, bound
        );
        obs.class("unrepresentable-interval(no-panic+future+not-early)");
        obs.nontrivial = true;
        return Ok(());
    }
    // wall-clock reference where the offset does not change in between
    let off = now.offset().local_minus_utc() as i64;
    let l = case.unix + off;
    let (start_local, accepted) = reference(l, case.unit, case.n, case.modulate);
    let start_unix = start_local - off;
    let res_unix = res.timestamp();
    let mut constant = offset_at(start_unix) == off && res.offset().local_minus_utc() as i64 == off;
    if constant {
        let span = res_unix - start_unix;
        for k in 1..16 {
            if offset_at(start_unix + span * k / 16) != off {
                constant = false;
            }
        }
        // transitions strictly inside long spans
        let (y0, _, _) = civil_from_days(start_unix.div_euclid(86400));
        let (y1, _, _) = civil_from_days(res_unix.div_euclid(86400));
        if y1 - y0 <= 3 {
            for y in y0..=y1 {
                if transitions(y).iter().any(|t| *t > start_unix && *t <= res_unix) {
                    constant = false;
                }
            }
        }
    }
    // a modulated schedule is a wall-clock boundary ("the next multiple of n counted from the start of the enclosing
    // period"): it does not refer to the start of the current unit, so only an offset change between NOW and the
    // scheduled instant can make it ambiguous
    let mut constant_from_now = case.modulate && res.offset().local_minus_utc() as i64 == off;
    if constant_from_now && !constant {
        let span = res_unix - case.unix;
        for k in 1..16 {
            if offset_at(case.unix + span * k / 16) != off {
                constant_from_now = false;
            }
        }
        let (y0, _, _) = civil_from_days(case.unix.div_euclid(86400));
        let (y1, _, _) = civil_from_days(res_unix.div_euclid(86400));
        if y1 - y0 <= 3 {
            for y in y0..=y1 {
                if transitions(y).iter().any(|t| *t > case.unix && *t <= res_unix) {
                    constant_from_now = false;
                }
            }
        } else {
            constant_from_now = false;
        }
    }
    let widened = !constant && constant_from_now;
    if widened {
        constant = true;
    }
    if accepted.iter().any(|a| *a > 8_000_000_000_000) {
        // beyond chrono's calendar (year 262142): not comparable
        constant = false;
    }
    if constant {
        let got_local = res_unix + off;
        ensure!(
            res.timestamp_subsec_nanos() == 0 && accepted.contains(&got_local),
            format!("C16:wrong-boundary:{:?}:{}", case.unit, if case.modulate { "modulate" } else { "plain" }),
            "TZ={:?}: next({}, {:?} x{}, modulate={}) = {}; in local wall-clock seconds that is {} but the statement gives {:?} (start of the current unit {})", case.zone, now, case.unit, case.n, case.modulate, res, got_local, accepted, start_local
        );
    }
    let near_dst = {
        let (y, _, _) = civil_from_days(case.unix.div_euclid(86400));
        transitions(y).iter().any(|t| (t - case.unix).abs() <= 3600)
    };
    let near_boundary = (l - start_local) <= 2 || accepted.iter().any(|a| (a - l).abs() <= 2);
    obs.nontrivial = near_boundary || near_dst || case.feature.contains("leap") || case.feature.contains("dec-31") || case.feature.contains("week-53");
    obs.class(format!("unit={:?}", case.unit));
    obs.class(format!("feature={}", case.feature));
    obs.class_if(constant, "offset-constant(reference-compared)");
    obs.class_if(constant && widened, "offset-changed-earlier-in-the-current-unit(modulated:reference-compared)");
    obs.class_if(!constant, "offset-changes(no-panic+future-only)");
    obs.class_if(near_dst, "within-1h-of-dst-transition");
    obs.class_if(near_boundary, "within-2s-of-unit-boundary");
    obs.class_if(case.modulate && accepted.len() == 2 && accepted[0] != accepted[1], "modulate-readings-differ");
    Ok(())
}

// ---- extreme multipliers (counted separately) ----------------------------------------------------------

pub fn extreme_strategy(zone: String) -> impl Strategy<Value = Case> {
    (
        1_000_000_000i64..4_102_444_800,
        0u8..7,
        prop::sample::select(vec![
            i32::MAX as i64,
            i32::MAX as i64 + 1,
            u32::MAX as i64,
            u32::MAX as i64 + 1,
            1 << 40,
            i64::MAX / 1_000_000_000,
            i64::MAX / 1000,
            i64::MAX,
            (1i64 << 32) + 1,
            (1i64 << 32) + 5,
            (1i64 << 33) + 12,
            (1i64 << 40) + 3,
            (1i64 << 32) + 60,
            100_000,
            262_000,
            300_000,
            5_000_000,
        ]),
        prop::bool::ANY,
    )
        .prop_map(move |(unix, unit, n, modulate)| Case { zone: zone.clone(), unix, nanos: 0, unit: UNITS[unit as usize], n, modulate, feature: "extreme-multiplier".into() })
}

// ---- layer 2: the trigger object under a driven clock -----------------------------------------------------

#[derive(Debug)]
struct TrigProbe {
    trigger: Arc<TimeTrigger>,
    fired: Arc<Mutex<Vec<Result<bool, String>>>>,
}
impl Policy for TrigProbe {
    fn process(&self, log: &mut LogFile) -> anyhow::Result<()> {
        let r = catch(|| self.trigger.trigger(log));
        self.fired.lock().unwrap().push(match r {
            Ok(Ok(b)) => Ok(b),
            Ok(Err(e)) => Err(format!("error: {}", e)),
            Err(p) => Err(p),
        });
        Ok(())
    }
    fn is_pre_process(&self) -> bool {
        self.trigger.is_pre_process()
    }
}

#[derive(Serialize, Deserialize, Debug, Clone)]
pub struct Seq {
    pub zone: String,
    pub start: i64,
    pub unit: Unit,
    pub n: i64,
    pub modulate: bool,
    pub max_random_delay: u64,
    /// gaps between arrivals in seconds (0 = burst inside one second)
    pub gaps: Vec<i64>,
}

pub fn seq_strategy(zone: String) -> impl Strategy<Value = Seq> {
    (
        raw_strategy(),
        prop::sample::select(vec![0u64, 0, 1, 60, 86_400]),
        prop::collection::vec(prop_oneof![3 => Just(0i64), 4 => 1i64..5, 3 => 30i64..4000, 2 => 80_000i64..200_000, 1 => 2_000_000i64..40_000_000], 1..=25),
    )
        .prop_map(move |(r, max_random_delay, gaps)| {
            let mut r = r;
            r.n = r.n.min(60);
            let c = build_case(&zone, &r);
            Seq { zone: zone.clone(), start: c.unix, unit: c.unit, n: c.n, modulate: c.modulate, max_random_delay, gaps }
        })
}

fn unit_word(u: Unit) -> &'static str {
    match u {
        Unit::Second => "seconds",
        Unit::Minute => "minutes",
        Unit::Hour => "hours",
        Unit::Day => "days",
        Unit::Week => "weeks",
        Unit::Month => "months",
        Unit::Year => "years",
    }
}

pub fn check_seq(tmp: &Path, s: &Seq, obs: &mut Obs) -> CaseResult {
    if !same_zone(&s.zone) {
        return fail("C16:harness:wrong-zone", "sequence evaluated in the wrong zone");
    }
    let dir = scratch(tmp, "c16");
    let r = check_seq_in(&dir, s, obs);
    clock::set_now(None);
    let _ = std::fs::remove_dir_all(&dir);
    r
}

fn check_seq_in(dir: &Path, s: &Seq, obs: &mut Obs) -> CaseResult {
    let mut t = s.start;
    clock::set_now(Some((t, 0)));
    let cfg: TimeTriggerConfig = serde_json::from_value(serde_json::json!({"interval": format!("{} {}", s.n, unit_word(s.unit)), "modulate": s.modulate, "max_random_delay": s.max_random_delay}))
        .map_err(|e| Failure { sig: "C16:config".into(), msg: e.to_string() })?;
    let trig = match catch(|| TimeTrigger::new(cfg)) {
        Ok(t) => Arc::new(t),
        Err(p) => return fail(panic_sig(s.unit, &p), format!("TZ={:?}: TimeTrigger::new at unix {} with {:?} x{} panicked: {}", s.zone, t, s.unit, s.n, p)),
    };
    let fired = Arc::new(Mutex::new(vec![]));
    let app = build_appender(&dir.join("a.log"), true, &None, Box::new(TrigProbe { trigger: trig.clone(), fired: fired.clone() })).map_err(|e| Failure { sig: "C16:build".into(), msg: e.to_string() })?;
    let iv = interval(s.unit, s.n);
    let mut firings = 0;
    let mut crossed_two = false;
    // in half of the sequences a second trigger with a schedule of its own (far longer or far shorter) lives in the
    // process and is consulted right before every arrival: a trigger's schedule is its own
    let companion = if s.gaps.len() % 2 == 0 {
        let word = if s.n % 2 == 0 { "1 years" } else { "1 seconds" };
        let cfg2: TimeTriggerConfig = serde_json::from_value(serde_json::json!({"interval": word})).map_err(|e| Failure { sig: "C16:config".into(), msg: e.to_string() })?;
        match catch(|| TimeTrigger::new(cfg2)) {
            Ok(t2) => {
                let fired2 = Arc::new(Mutex::new(vec![]));
                let app2 = build_appender(&dir.join("b.log"), true, &None, Box::new(TrigProbe { trigger: Arc::new(t2), fired: fired2 })).map_err(|e| Failure { sig: "C16:build".into(), msg: e.to_string() })?;
                obs.class(format!("second-live-trigger({})", word));
                Some(app2)
            }
            Err(p) => return fail(panic_sig(Unit::Year, &p), format!("TZ={:?}: TimeTrigger::new at unix {} for {:?} panicked: {}", s.zone, t, word, p)),
        }
    } else {
        None
    };
    for (i, g) in s.gaps.iter().enumerate() {
        t += *g;
        clock::set_now(Some((t, 0)));
        let now = Local.timestamp_opt(t, 0).unwrap();
        let scheduled = trig.verif_next_roll_time();
        if let Some(app2) = &companion {
            if let Err(p) = catch(|| append_msg(app2, "y")) {
                return fail(panic_sig(Unit::Year, &p), format!("TZ={:?}: append through the second appender at {} panicked: {}", s.zone, now, p));
            }
        }
        fired.lock().unwrap().clear();
        let r = catch(|| append_msg(&app, "x"));
        obs.sub_evals += 1;
        if let Err(p) = r {
            return fail(panic_sig(s.unit, &p), format!("TZ={:?}: append at {} panicked: {}", s.zone, now, p));
        }
        let f = fired.lock().unwrap().clone();
        ensure!(f.len() == 1, "C16:consultations", "arrival {}: trigger consulted {} times", i, f.len());
        let did_fire = match &f[0] {
            Ok(b) => *b,
            Err(p) => return fail(panic_sig(s.unit, p), format!("TZ={:?}: trigger() at {} (scheduled {}) with {:?} x{} modulate={} failed: {}", s.zone, now, scheduled, s.unit, s.n, s.modulate, p)),
        };
        let should = now >= scheduled;
        ensure!(did_fire == should, if should { "C16:missed-firing" } else { "C16:early-firing" }, "TZ={:?}: arrival at {} with rotation scheduled for {}: fired={}, expected {}", s.zone, now, scheduled, did_fire, should);
        let after = trig.verif_next_roll_time();
        if did_fire {
            firings += 1;
            ensure!(after > now, "C16:reschedule-not-in-future", "TZ={:?}: after firing at {} the next rotation is scheduled for {}", s.zone, now, after);
            if let Ok(base) = catch(|| TimeTrigger::verif_get_next_time(now, iv, s.modulate)) {
                let lo = base;
                let hi = base + chrono::Duration::seconds(s.max_random_delay.max(1) as i64);
                ensure!(after >= lo && after < hi, "C16:reschedule-wrong", "TZ={:?}: after firing at {} the schedule is {} but must lie in [{}, {}) (next boundary from now + random delay < {})", s.zone, now, after, lo, hi, s.max_random_delay);
                if i > 0 && scheduled < now && catch(|| TimeTrigger::verif_get_next_time(scheduled, iv, s.modulate) <= now).unwrap_or(false) {
                    crossed_two = true;
                }
            }
        } else {
            ensure!(after == scheduled, "C16:schedule-drift", "TZ={:?}: the schedule changed from {} to {} without a firing", s.zone, scheduled, after);
        }
    }
    obs.nontrivial = firings >= 2 || crossed_two;
    obs.class(format!("firings={}", firings.min(6)));
    obs.class_if(crossed_two, "jump-across-two-boundaries");
    obs.class_if(s.max_random_delay > 0, "random-delay");
    obs.class(format!("unit={:?}", s.unit));
    Ok(())
}

// ---- layer 2b: one trigger consulted by several threads at the same (driven) instant ----------------------------

/// One `TimeTrigger` shared (through a user-defined policy) by several rolling appenders, each on its own thread.
/// Per round the clock is moved to an instant at or after the scheduled rotation and all threads append at once:
/// exactly one consultation of that round may fire ("fires on the first record at or after the scheduled instant ...
/// then reschedules strictly into the future"), whichever thread gets there first.
pub fn check_shared(tmp: &Path, s: &Seq, obs: &mut Obs) -> CaseResult {
    if !same_zone(&s.zone) {
        return fail("C16:harness:wrong-zone", "sequence evaluated in the wrong zone");
    }
    let dir = scratch(tmp, "c16s");
    let r = check_shared_in(&dir, s, obs);
    clock::set_now(None);
    let _ = std::fs::remove_dir_all(&dir);
    r
}

fn check_shared_in(dir: &Path, s: &Seq, obs: &mut Obs) -> CaseResult {
    clock::set_now(Some((s.start, 0)));
    let cfg: TimeTriggerConfig = serde_json::from_value(serde_json::json!({"interval": format!("{} {}", s.n, unit_word(s.unit)), "modulate": s.modulate, "max_random_delay": 0}))
        .map_err(|e| Failure { sig: "C16:config".into(), msg: e.to_string() })?;
    let trig = match catch(|| TimeTrigger::new(cfg)) {
        Ok(t) => Arc::new(t),
        Err(p) => return fail(panic_sig(s.unit, &p), format!("TZ={:?}: TimeTrigger::new at unix {} with {:?} x{} panicked: {}", s.zone, s.start, s.unit, s.n, p)),
    };
    let threads = 2 + s.gaps.len() % 7;
    let rounds = 24usize;
    let fired = Arc::new(Mutex::new(vec![]));
    let mut apps = vec![];
    for k in 0..threads {
        apps.push(build_appender(&dir.join(format!("a{}.log", k)), true, &None, Box::new(TrigProbe { trigger: trig.clone(), fired: fired.clone() })).map_err(|e| Failure { sig: "C16:build".into(), msg: e.to_string() })?);
    }
    let barrier = std::sync::Barrier::new(threads + 1);
    let mut verdict: CaseResult = Ok(());
    std::thread::scope(|sc| {
        for app in &apps {
            let barrier = &barrier;
            sc.spawn(move || {
                for _ in 0..rounds {
                    barrier.wait();
                    let _ = catch(|| append_msg(app, "x"));
                    barrier.wait();
                }
            });
        }
        for round in 0..rounds {
            // at or (every other round) a little after the scheduled instant
            let scheduled = trig.verif_next_roll_time();
            let t = scheduled.timestamp() + if round % 2 == 0 { 0 } else { 1 + (s.gaps.get(round % s.gaps.len().max(1)).copied().unwrap_or(0) % 50) } + if scheduled.timestamp_subsec_nanos() > 0 { 1 } else { 0 };
            clock::set_now(Some((t, 0)));
            fired.lock().unwrap().clear();
            barrier.wait();
            barrier.wait();
            if verdict.is_err() {
                continue; // keep the barriers going until every thread has finished
            }
            let f = fired.lock().unwrap().clone();
            obs.sub_evals += f.len() as u64;
            if let Some(Err(p)) = f.iter().find(|r| r.is_err()) {
                verdict = fail(panic_sig(s.unit, p), format!("TZ={:?}: trigger() consulted by {} threads at unix {} failed: {}", s.zone, threads, t, p));
                continue;
            }
            let yes = f.iter().filter(|r| **r == Ok(true)).count();
            if f.len() != threads {
                verdict = fail("C16:consultations", format!("round {}: {} consultations from {} threads", round, f.len(), threads));
            } else if yes != 1 {
                verdict = fail(
                    if yes == 0 { "C16:missed-firing" } else { "C16:fired-more-than-once" },
                    format!("TZ={:?}: one trigger ({:?} x{}, modulate={}) consulted by {} threads, all at unix {} with the rotation scheduled for {}: it fired {} times, expected exactly once (round {})", s.zone, s.unit, s.n, s.modulate, threads, t, scheduled, yes, round),
                );
            } else if trig.verif_next_roll_time().timestamp() <= t {
                verdict = fail("C16:reschedule-not-in-future", format!("after firing at unix {} the next rotation is scheduled for {}", t, trig.verif_next_roll_time()));
            }
        }
    });
    obs.nontrivial = threads >= 3;
    obs.class(format!("shared-trigger-threads={}", threads));
    verdict
}

// ---- layer 3: end to end (pre-process ordering) ---------------------------------------------------------------

pub fn check_e2e(tmp: &Path, s: &Seq, obs: &mut Obs) -> CaseResult {
    if !same_zone(&s.zone) {
        return fail("C16:harness:wrong-zone", "sequence evaluated in the wrong zone");
    }
    let dir = scratch(tmp, "c16e");
    let r = check_e2e_in(&dir, s, obs);
    clock::set_now(None);
    let _ = std::fs::remove_dir_all(&dir);
    r
}

fn check_e2e_in(dir: &Path, s: &Seq, obs: &mut Obs) -> CaseResult {
    let mut t = s.start;
    clock::set_now(Some((t, 0)));
    let iv = interval(s.unit, s.n);
    let lit = format!("{} {}", s.n, unit_word(s.unit));
    let policy = match catch(|| make_policy(dir, &TrigSpec::Time(lit.clone(), s.modulate), &RollSpec::Fixed { base: 0, count: 30, pattern: "old.{}.log".into() })) {
        Ok(p) => p.map_err(|e| Failure { sig: "C16:build".into(), msg: e.to_string() })?,
        Err(p) => return fail(panic_sig(s.unit, &p), format!("TZ={:?}: building the time trigger at unix {} panicked: {}", s.zone, t, p)),
    };
    let app = build_appender(&dir.join("a.log"), true, &None, policy).map_err(|e| Failure { sig: "C16:build".into(), msg: e.to_string() })?;
    // model: schedule from the (layer-1 checked) schedule function
    let mut scheduled = match catch(|| TimeTrigger::verif_get_next_time(Local.timestamp_opt(t, 0).unwrap(), iv, s.modulate)) {
        Ok(x) => x,
        Err(_) => return Ok(()), // layer 1 reports this
    };
    let mut files: Vec<Vec<u32>> = vec![vec![]]; // oldest .. active, record seqs
    for (i, g) in s.gaps.iter().enumerate() {
        t += *g;
        clock::set_now(Some((t, 0)));
        let now = Local.timestamp_opt(t, 0).unwrap();
        if now >= scheduled {
            files.push(vec![]);
            scheduled = match catch(|| TimeTrigger::verif_get_next_time(now, iv, s.modulate)) {
                Ok(x) => x,
                Err(_) => return Ok(()),
            };
        }
        files.last_mut().unwrap().push(i as u32);
        match catch(|| append_msg(&app, &record_text(0, i as u32, 3))) {
            Err(p) => return fail(panic_sig(s.unit, &p), format!("TZ={:?}: append at {} panicked: {}", s.zone, now, p)),
            Ok(Err(e)) => return fail("C16:append-error", format!("append failed: {}", e)),
            Ok(Ok(())) => {}
        }
        obs.sub_evals += 1;
        // compare all files
        let nonempty: Vec<&Vec<u32>> = files.iter().collect();
        let k = nonempty.len();
        for (j, want) in nonempty.iter().enumerate() {
            let path = if j == k - 1 { dir.join("a.log") } else { dir.join(format!("old.{}.log", k - 2 - j)) };
            let got: Vec<u32> = parse_stream(&std::fs::read(&path).unwrap_or_default()).map_err(|_| Failure { sig: "C16:split-record".into(), msg: format!("{} is not whole records", path.display()) })?.iter().map(|r| r.seq).collect();
            ensure!(
                got == **want,
                "C16:boundary-record-misplaced",
                "TZ={:?}: arrival {} at {}: {} holds records {:?}, expected {:?} (the first record at or after the boundary starts the new file, before it is written)", s.zone, i, now, path.file_name().unwrap().to_string_lossy(), got, want
            );
        }
    }
    obs.nontrivial = files.len() >= 3;
    obs.class(format!("rotations={}", (files.len() - 1).min(6)));
    Ok(())
}

pub fn zone_for_worker(run: &Run) -> Option<&'static str> {
    let z = ZONES.get(run.worker.0 as usize)?;
    if z.contains('/') && !z.contains(',') && !Path::new("/usr/share/zoneinfo").join(z).exists() {
        return None;
    }
    Some(z)
}

// ---- layer 4: the real clock across a real offset change ---------------------------------------------------

/// A zone whose daylight-saving time (standard time + `shift_s`) begins `lead_s` seconds after the case starts;
/// the trigger ("`n` `unit` + modulate", n dividing 60) runs on the real clock, no override.
#[derive(Serialize, Deserialize, Debug, Clone)]
pub struct RealClock {
    pub lead_s: u32,
    pub shift_s: u32,
    /// "seconds" or "minutes"
    pub unit: String,
    pub n: u32,
}

#[derive(Serialize, Deserialize, Debug, Clone)]
pub struct RealClockChild {
    pub case: RealClock,
    pub switch: i64,
    pub tz: String,
}

fn unix_now() -> i64 {
    std::time::SystemTime::now().duration_since(std::time::UNIX_EPOCH).unwrap().as_secs() as i64
}

pub fn real_clock_strategy(minutes: bool) -> impl Strategy<Value = RealClock> {
    prop_oneof![
        4 => (prop::sample::select(vec![7u32, 13, 31, 3607]), prop::sample::select(vec![5u32, 10, 15])).prop_map(|(shift_s, n)| RealClock { lead_s: 2, shift_s, unit: "seconds".into(), n }),
        if minutes { 1 } else { 0 } => (prop::sample::select(vec![60 * 7u32, 60 * 13, 60 * 37, 60 * 23]), prop::sample::select(vec![5u32, 10, 15])).prop_map(|(shift_s, n)| RealClock { lead_s: 2, shift_s, unit: "minutes".into(), n }),
    ]
}

/// Parent side: places the switch relative to the wall clock and runs the scenario in a child with that TZ.
pub fn check_real_clock(tmp: &Path, case: &RealClock, obs: &mut Obs) -> CaseResult {
    let start = unix_now();
    let switch = start + case.lead_s as i64;
    let (y, _, _) = civil_from_days(start.div_euclid(86_400));
    let day0 = start.div_euclid(86_400) - days_from_civil(y, 1, 1); // zero-based day of the year, 29 February counted
    let tod = switch - start.div_euclid(86_400) * 86_400; // may reach 24:00:0x, which the rule syntax allows
    let sh = case.shift_s;
    let tz = format!("AAA0BBB-{}:{:02}:{:02},{}/{}:{:02}:{:02},{}/2", sh / 3600, sh / 60 % 60, sh % 60, day0, tod / 3600, tod / 60 % 60, tod % 60, (day0 + 180) % 365);
    let child = RealClockChild { case: case.clone(), switch, tz: tz.clone() };
    let out = call_child(tmp, "c16real", &child, &[("TZ", tz), ("LV_KEEP_TZ", "1".to_string())], std::time::Duration::from_secs(200));
    absorb(out, obs)
}

/// Child side (TZ already in place).
pub fn real_clock_child(c: &RealClockChild, obs: &mut Obs) -> CaseResult {
    let dir = std::env::temp_dir().join(format!("lv-c16real-{}", std::process::id()));
    std::fs::create_dir_all(&dir).unwrap();
    let r = real_clock_in(&dir, c, obs);
    let _ = std::fs::remove_dir_all(&dir);
    r
}

fn real_clock_in(dir: &Path, c: &RealClockChild, obs: &mut Obs) -> CaseResult {
    clock::set_now(None);
    let (n, shift) = (c.case.n as i64, c.case.shift_s as i64);
    let unit_s: i64 = if c.case.unit == "minutes" { 60 } else { 1 };
    if unix_now() >= c.switch {
        obs.class("real-clock:started-after-the-switch(inconclusive)");
        return Ok(());
    }
    let cfg = || -> TimeTriggerConfig { serde_json::from_value(serde_json::json!({"interval": format!("{} {}", n, c.case.unit), "modulate": true})).unwrap() };
    // on a unit boundary that is a multiple of n within the enclosing minute/hour, in local time under `off`
    let lawful = |t: i64, off: i64| -> bool {
        let l = t + off;
        if unit_s == 1 { l.rem_euclid(60) % n == 0 } else { l.rem_euclid(60) == 0 && l.div_euclid(60).rem_euclid(60) % n == 0 }
    };
    // before the switch: a trigger is created and consulted once (a long-running process has done this for hours)
    let trig_a = match catch(|| TimeTrigger::new(cfg())) {
        Ok(t) => Arc::new(t),
        Err(p) => return fail("C16:panic:real-clock", format!("TZ={:?}: TimeTrigger::new panicked: {}", c.tz, p)),
    };
    let fired = Arc::new(Mutex::new(vec![]));
    let app = build_appender(&dir.join("a.log"), true, &None, Box::new(TrigProbe { trigger: trig_a.clone(), fired: fired.clone() })).map_err(|e| Failure { sig: "C16:build".into(), msg: e.to_string() })?;
    let _ = catch(|| append_msg(&app, "x"));
    let now = unix_now();
    let next_a = trig_a.verif_next_roll_time().timestamp();
    if now < c.switch {
        ensure!(next_a > now - 1, "C16:not-future", "TZ={:?}: scheduled {} at {} (real clock)", c.tz, next_a, now);
        if next_a < c.switch {
            ensure!(lawful(next_a, 0), "C16:real-clock-schedule", "TZ={:?} before the switch: {} {} + modulate scheduled unix {} at unix {}: not a multiple of {} in local time (offset 0)", c.tz, n, c.case.unit, next_a, now, n);
        }
    }
    // the zone switches while the process keeps running; wait until the current unit began after the switch
    loop {
        let t = unix_now();
        let unit_start = (t + shift).div_euclid(unit_s) * unit_s - shift;
        if t >= c.switch + 2 && unit_start > c.switch {
            break;
        }
        std::thread::sleep(std::time::Duration::from_millis(50));
    }
    obs.sub_evals += 1;
    // a trigger created now: no offset change between now and its first roll time
    let t_before = unix_now();
    let trig_b = match catch(|| TimeTrigger::new(cfg())) {
        Ok(t) => t,
        Err(p) => return fail("C16:panic:real-clock", format!("TZ={:?}: TimeTrigger::new after the switch panicked: {}", c.tz, p)),
    };
    let t_after = unix_now();
    let next_b = trig_b.verif_next_roll_time().timestamp();
    ensure!(
        next_b > t_before && next_b <= t_after + n * unit_s && lawful(next_b, shift),
        "C16:real-clock-schedule",
        "TZ={:?}, switch at unix {} (offset 0 -> +{} s): a trigger '{} {}' + modulate created at unix {} (real clock, after the switch) is scheduled for unix {}: local time then is {} s into the hour, not the next multiple of {} {}", c.tz, c.switch, shift, n, c.case.unit, t_before, next_b, (next_b + shift).rem_euclid(3600), n, c.case.unit
    );
    // the trigger that has been running since before the switch: its next consultation at/after the scheduled
    // instant fires and reschedules from "now"
    if next_a - unix_now() > 20 {
        // (minute units: the old schedule may be a quarter of an hour away)
        obs.nontrivial = true;
        obs.class(format!("real-clock:shift={}s,unit={},created-after-switch-only", shift, c.case.unit));
        return Ok(());
    }
    while unix_now() < next_a.max(c.switch + 2) {
        std::thread::sleep(std::time::Duration::from_millis(50));
    }
    fired.lock().unwrap().clear();
    let t_before = unix_now();
    if let Err(p) = catch(|| append_msg(&app, "y")) {
        return fail("C16:panic:real-clock", format!("TZ={:?}: append after the switch panicked: {}", c.tz, p));
    }
    let t_after = unix_now();
    let f = fired.lock().unwrap().clone();
    ensure!(f == vec![Ok(true)], "C16:fires", "TZ={:?}: the trigger scheduled for unix {} was consulted at unix {} and answered {:?}", c.tz, next_a, t_before, f);
    let next_a2 = trig_a.verif_next_roll_time().timestamp();
    ensure!(
        next_a2 > t_before && next_a2 <= t_after + n * unit_s && lawful(next_a2, shift),
        "C16:real-clock-schedule",
        "TZ={:?}, switch at unix {} (offset 0 -> +{} s): a trigger '{} {}' + modulate running since before the switch fired at unix {} and rescheduled to unix {}: local time then is {} s into the hour, not the next multiple of {} {}", c.tz, c.switch, shift, n, c.case.unit, t_before, next_a2, (next_a2 + shift).rem_euclid(3600), n, c.case.unit
    );
    obs.sub_evals += 2;
    // a record that arrives a third of a second BEFORE the scheduled instant does not fire the trigger (seconds unit:
    // the wait is short); skipped when the machine oversleeps
    if unit_s == 1 {
        let now_f = || std::time::SystemTime::now().duration_since(std::time::UNIX_EPOCH).unwrap().as_secs_f64();
        let boundary = next_a2 as f64;
        while now_f() < boundary - 0.35 {
            std::thread::sleep(std::time::Duration::from_millis(4));
        }
        let before = now_f();
        if before < boundary - 0.15 {
            fired.lock().unwrap().clear();
            let _ = catch(|| append_msg(&app, "z"));
            let after = now_f();
            if after < boundary - 0.02 {
                let f = fired.lock().unwrap().clone();
                ensure!(
                    f == vec![Ok(false)],
                    "C16:fires-early",
                    "TZ={:?}: the trigger is scheduled for unix {}; a record arrived between {:.3} and {:.3} (real clock), i.e. {:.0} ms before that instant, and the trigger answered {:?}", c.tz, next_a2, before, after, (boundary - after) * 1000.0, f
                );
                ensure!(trig_a.verif_next_roll_time().timestamp() == next_a2, "C16:fires-early", "TZ={:?}: the schedule moved although the scheduled instant had not come", c.tz);
                obs.class("real-clock:record-shortly-before-the-scheduled-instant");
                obs.sub_evals += 1;
            } else {
                obs.class("real-clock:overslept(sub-second probe skipped)");
            }
        } else {
            obs.class("real-clock:overslept(sub-second probe skipped)");
        }
    }
    obs.nontrivial = true;
    obs.class(format!("real-clock:shift={}s,unit={}", shift, c.case.unit));
    Ok(())
}

pub fn run(run: &Run) {
    // the last worker runs the real-clock scenarios (each in a child with its own TZ rule)
    if run.worker.0 + 1 == run.worker.1 {
        let t = run.tmp.clone();
        let f = move |c: &RealClock, o: &mut Obs| check_real_clock(&t, c, o);
        run.run_replays::<RealClock>("real-clock", &f);
        // (search() hands each worker 1/W of the count)
        let (want, w, sc) = (run.tier.pick(1, 6), run.worker.1 as u64, run.scale.max(1));
        run.search("real-clock", (want * w + sc - 1) / sc, real_clock_strategy(run.tier.pick(0, 1) == 1), &f);
        return;
    }
    // worker k studies zone k; TZ must be in place before chrono is first used in this process
    let Some(zone) = zone_for_worker(run) else {
        run.note("worker without a zone (named zone data absent): nothing to do");
        return;
    };
    std::env::set_var("TZ", zone);
    let zone = zone.to_string();
    let tmp = run.tmp.clone();
    let in_zone = |c: &Case, o: &mut Obs| if c.zone == zone { check(c, o) } else { Ok(()) };
    // committed regressions of this zone
    {
        let dir = std::path::PathBuf::from(format!("{}/replays/C16", verif_dir()));
        if let Ok(rd) = std::fs::read_dir(&dir) {
            let mut files: Vec<_> = rd.flatten().map(|e| e.path()).collect();
            files.sort();
            for p in files {
                let name = p.file_name().unwrap().to_string_lossy().to_string();
                if !(name.starts_with("reg-") || name.starts_with("known-")) {
                    continue;
                }
                let Ok(rf) = serde_json::from_str::<ReplayFile>(&std::fs::read_to_string(&p).unwrap_or_default()) else { continue };
                if rf.case.get("zone").and_then(|z| z.as_str()) != Some(zone.as_str()) {
                    continue;
                }
                run.stats.borrow_mut().replays_run += 1;
                match rf.part.as_str() {
                    "schedule" | "extreme" => {
                        if let Ok(c) = serde_json::from_value::<Case>(rf.case.clone()) {
                            run.eval_one(&rf.part, &c, &in_zone);
                        }
                    }
                    "sequence" => {
                        if let Ok(c) = serde_json::from_value::<Seq>(rf.case.clone()) {
                            let t = tmp.clone();
                            run.eval_one("sequence", &c, &move |s: &Seq, o: &mut Obs| check_seq(&t, s, o));
                        }
                    }
                    "end-to-end" => {
                        if let Ok(c) = serde_json::from_value::<Seq>(rf.case.clone()) {
                            let t = tmp.clone();
                            run.eval_one("end-to-end", &c, &move |s: &Seq, o: &mut Obs| check_e2e(&t, s, o));
                        }
                    }
                    "shared" => {
                        if let Ok(c) = serde_json::from_value::<Seq>(rf.case.clone()) {
                            let t = tmp.clone();
                            run.eval_one("shared", &c, &move |s: &Seq, o: &mut Obs| check_shared(&t, s, o));
                        }
                    }
                    _ => {}
                }
            }
        }
    }
    // every worker does the full per-zone budget (share() divides by the worker count, so scale up)
    let w = run.worker.1 as u64;
    run.search("schedule", w * run.tier.pick(150_000, 5_000_000), strategy(zone.clone()), &check);
    run.search("extreme", w * run.tier.pick(2_000, 50_000), extreme_strategy(zone.clone()), &check);
    let t1 = tmp.clone();
    run.search("sequence", w * run.tier.pick(3_000, 100_000), seq_strategy(zone.clone()), &move |s: &Seq, o: &mut Obs| check_seq(&t1, s, o));
    let t2 = tmp.clone();
    run.search("end-to-end", w * run.tier.pick(300, 10_000), seq_strategy(zone.clone()), &move |s: &Seq, o: &mut Obs| check_e2e(&t2, s, o));
    let t3 = tmp.clone();
    run.search("shared", w * run.tier.pick(60, 2_000), seq_strategy(zone.clone()), &move |s: &Seq, o: &mut Obs| check_shared(&t3, s, o));
    run.note(format!("zone {} studied by worker {}", zone, run.worker.0));
}

/// Runs in a child whose TZ is the case's zone.
pub fn child_replay(rf: &ReplayFile, obs: &mut Obs) -> CaseResult {
    let tmp = std::env::temp_dir().join(format!("lv-replay-{}", std::process::id()));
    std::fs::create_dir_all(&tmp).unwrap();
    let r = match rf.part.as_str() {
        "schedule" | "extreme" => check(&serde_json::from_value(rf.case.clone()).map_err(|e| Failure { sig: "C16:replay".into(), msg: e.to_string() })?, obs),
        "sequence" => check_seq(&tmp, &serde_json::from_value(rf.case.clone()).map_err(|e| Failure { sig: "C16:replay".into(), msg: e.to_string() })?, obs),
        "end-to-end" => check_e2e(&tmp, &serde_json::from_value(rf.case.clone()).map_err(|e| Failure { sig: "C16:replay".into(), msg: e.to_string() })?, obs),
        "shared" => check_shared(&tmp, &serde_json::from_value(rf.case.clone()).map_err(|e| Failure { sig: "C16:replay".into(), msg: e.to_string() })?, obs),
        _ => fail("C16:replay", "unknown part"),
    };
    let _ = std::fs::remove_dir_all(&tmp);
    r
}

pub fn replay(part: &str, case: serde_json::Value) -> Option<CaseResult> {
    let zone = case.get("zone")?.as_str()?.to_string();
    let rf = ReplayFile { property: "C16".into(), part: part.to_string(), sig: String::new(), msg: String::new(), case };
    let tmp = std::env::temp_dir().join(format!("lv-replay-{}", std::process::id()));
    std::fs::create_dir_all(&tmp).ok()?;
    let out = call_child(&tmp, "c16", &rf, &[("TZ", zone), ("LV_KEEP_TZ", "1".into())], Duration::from_secs(120));
    let _ = std::fs::remove_dir_all(&tmp);
    Some(match out.failure {
        Some(f) => Err(f),
        None => Ok(()),
    })
}

pub fn meta() -> EvidenceMeta {
    EvidenceMeta {
        level: "exploration",
        rule: "one worker process per zone (UTC, two fixed offsets, five POSIX-rule DST zones incl. 30-minute and midnight transitions; thorough adds eight named zones). Layer 1 (schedule function via the guarded wrapper): instants constructed around a feature (second/minute/hour/day/ISO-week/month/year boundary, Feb 28/29, Dec 31, ISO week 53, every DST transition of the zone in a generated year 1970-2100, 9% uniform) with offsets of -2..+2 s (sometimes +-1 h) and sub-second parts 0/1/999999999/random, all seven units, n in 1..60 dense and a sparse set up to 10 000, modulate on/off; oracle: no panic, result strictly after now, and wherever chrono reports a constant UTC offset over [start of the current unit, result] (for modulated schedules, which name a wall-clock boundary: over [now, result]) the result in local wall-clock seconds equals the reference computed with the harness's own proleptic-Gregorian arithmetic (days-from-civil, ISO weeks from first principles): start of unit + n units, or with modulation either reading of 'next multiple of n counted from the start of the enclosing period' (wrap at the period end, or run past it). Part extreme: multipliers from 100 000 to i64::MAX (no-panic and future only). Layer 2 (trigger object, clock override): non-decreasing arrival sequences (bursts, gaps of seconds to a year): fires iff now >= scheduled, reschedules strictly into the future inside [next boundary, + max_random_delay), schedule unchanged between firings; in half of the sequences a second live trigger with another schedule (1 year / 1 second) is consulted right before every arrival. Layer 2b (part shared): one trigger shared by 2-8 rolling appenders on as many threads, all appending at the same driven instant at/after the scheduled rotation, 24 rounds: exactly one consultation per round fires. Layer 3: RollingFileAppender + TimeTrigger + fixed window under the driven clock: the first record at/after the boundary is the first record of the new file. Layer 4 (real clock, no override; one child process per case): TZ is a POSIX rule whose daylight-saving time (+7 s ... +1 h) begins two seconds after the case starts; a trigger 'n seconds|minutes + modulate' (n | 60) created after the switch, and one that has been running since before it, must schedule the next multiple of n in local time under the offset now in force; a record arriving 150-350 ms before the scheduled instant must not fire it. non-trivial = within 2 s of a unit boundary, or leap-day/year-end/week-53 feature, or within 1 h of a DST transition (layer 1); >= 2 firings (layer 2); >= 2 rotations (layer 3)".into(),
        assumptions: vec![
            "UTC offsets are taken from chrono (precondition 'offset does not change in between' and construction of instants); the schedule reference itself uses no chrono".into(),
            "modulate: both readings accepted where they differ (the statement's wording admits both)".into(),
        ],
        mutants_caught: vec![],
    }
}
