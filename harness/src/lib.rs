//! Harness library: engine, reference models, generators and one module per property.
//! The binary `lv` (src/main.rs) drives them; the cargo-fuzz targets under /verif/fuzz reuse the oracles.

pub mod c01;
pub mod c02;
pub mod c03;
pub mod c04;
pub mod c05;
pub mod c06;
pub mod c07;
pub mod c08;
pub mod c09;
pub mod c10;
pub mod c11;
pub mod c12;
pub mod c13;
pub mod c14;
pub mod c15;
pub mod c16;
pub mod c17;
pub mod c18;
pub mod c19;
pub mod c20;
pub mod child;
pub mod doc;
pub mod engine;
pub mod fsx;
pub mod gen;
pub mod glue;
pub mod model;
pub mod pat;
pub mod refparse;
pub mod roll;
